"""Deviation-bounded stateless exploration of environment faults.

An execution is a deterministic function of a *fault plan*: an ordered list of (site key, fault).  The explorer
runs the cooperative execution (empty plan), reads off the fault sites it produced, and re-runs the scenario once
per (site, fault) of the menu (bound 1); for bound 2 it recurses on the sites that appear *after* the first fault
in that faulted execution.  Every run starts from a fresh world (prefix replay), as in stateless model checking.
"""
from . import peer


def site_order(world):
    return [s['key'] for s in world.sites]


def run_plan(scenario, plan):
    """scenario(plan_dict) -> result (with .world).  plan: list of [key, fault]."""
    faults = {tuple(k): tuple(f) for k, f in plan}
    return scenario(faults)


def menu_for(site, level, trunc_step=1):
    if site['label'] == 'connect':
        return [('refuse',), ('timeout',)]
    return peer.faults_for_site(site, level, trunc_step)


def first_level_tasks(scenario, level='full', trunc_step=1, site_filter=None):
    """Cooperative run + the list of single-fault plans."""
    base = run_plan(scenario, [])
    tasks = []
    for s in base.world.sites:
        if site_filter and not site_filter(s):
            continue
        for f in menu_for(s, level, trunc_step):
            tasks.append([[list(s['key']), list(f)]])
    return base, tasks


def second_level_plans(result, plan, level='message', same_conn=False):
    """Plans with one more fault, placed on a site that occurs after the last faulted site."""
    last = tuple(plan[-1][0])
    keys = site_order(result.world)
    if last not in keys:
        return []
    i = keys.index(last)
    out = []
    for s in result.world.sites[i + 1:]:
        if not same_conn and s['key'][:2] == last[:2]:
            continue
        for f in menu_for(s, level):
            out.append(plan + [[list(s['key']), list(f)]])
    return out
