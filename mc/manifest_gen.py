"""Regenerates MANIFEST.json from the table below (kept in one place so it is always schema-valid)."""
import json
import os
import sys

ROOT = os.path.dirname(os.path.dirname(os.path.abspath(__file__)))
sys.path.insert(0, ROOT)

CHECKS = {
    'C04': dict(
        text='Exhaustive product of role x marker x ChaCha x CBC x ETM (every matching database name plus unknown names of the same shape), '
             'text and JSON, each audited by the real CLI in the virtual environment and compared with an independent Terrapin rule.',
        note='Virtual TCP delivers whole messages; lists symmetric; reference rule in refmodels/terrapin.py.',
        technique='explicit enumeration of all executions of the real CLI over a finite input product (0 deviations), reference-model oracle',
        design='3/C04'),
    'C07': dict(
        text='All ordered pairs (thorough: triples) of target archetypes, one per channel through which a scan edits rating state, as -T runs '
             'with 1..3 worker threads in text/JSON/policy mode; every interleaving of the targets\' connection events up to a preemption bound '
             'is executed under a gate scheduler and each target block is compared with a fresh single-target run.',
        note='Thread switches are explored only at virtual I/O gates (resolve/connect/recv); archetype list bounds the channels covered.',
        technique='stateless schedule exploration (preemption-bounded DFS) of the real worker pool under a controlled scheduler, differential oracle',
        design='3/C07'),
    'C08': dict(
        text='Target lists mixing healthy archetypes with every failure archetype in every position, 1..3 threads, text and JSON, all gate '
             'schedules up to a preemption bound; oracle: one block per target, ranked exit status, one JSON array.',
        note='Same scheduler granularity as C07; per-target expected statuses come from fresh single-target runs.',
        technique='stateless schedule + fault-archetype exploration of the real CLI, structural oracle on stdout/exit status',
        design='3/C08'),
    'C09': dict(
        text='For each valid transcript archetype every (connection, message, fault) triple of the fault menu is executed against the real CLI '
             '(truncation at byte offsets, close, stall, reset, garbage, every length field x5, wrong type, debug, duplicate, split, 1-byte '
             'segments, refuse/timeout); thorough adds all pairs with a second message-level fault. Oracle: terminates within op/time bound, '
             'documented status, complete report iff initial handshake well-formed.',
        note='Virtual clock and op budget stand in for wall time; random DH exponent pinned; environment model mc/vnet.py + mc/peer.py.',
        technique='deviation-bounded exhaustive fault enumeration (stateless exploration of the implementation under a fault injector)',
        design='3/C09'),
}

PENDING_REASON = 'check not built yet in this session; see DESIGN.md section 3 for the planned bounded exploration'


def main():
    props = [json.loads(l)['id'] for l in open(os.path.join(ROOT, 'properties.jsonl'))]
    checks = []
    for pid in props:
        if pid not in CHECKS:
            continue
        c = CHECKS[pid]
        checks.append({
            'property_id': pid,
            'quick_cmd': './check %s --tier quick' % pid,
            'thorough_cmd': './check %s --tier thorough' % pid,
            'evidence_file': '/verif/evidence/%s.json' % pid,
            'replay_cmd_template': './check %s --replay {path}' % pid,
            'engine': 'mc',
            'level_claimed': {'category': 'model_checking', 'text': c['text'], 'design_ref': c['design']},
            'level_note': c['note'],
            'technique': c['technique'],
        })
    man = {
        'version': 1,
        'setup_cmd': 'true',
        'hooks': {'guard': 'SSH_AUDIT_VERIF', 'enable': 'none needed: every seam is a module attribute replaced from outside at run time (mc/vnet.py)',
                  'baseline_off_cmd': 'cd /repo && /venv/bin/python -m pytest -ra -q -p no:cacheprovider --timeout=900 --continue-on-collection-errors',
                  'source_commits': [], 'add_only': True},
        'engines': [{'name': 'mc', 'path': '/verif/mc', 'serves_properties': sorted(CHECKS),
                     'kind_free_text': 'hand-written stateless explorer: runs the real CLI in-process inside a deterministic virtual '
                                       'environment (sockets, resolver, select, clock, randomness, gated worker threads) and enumerates '
                                       'inputs, environment deviations and schedules exhaustively within stated bounds'}],
        'checks': checks,
        'not_applicable': [{'property_id': p, 'reason': PENDING_REASON} for p in props if p not in CHECKS],
        'notes': 'See DESIGN.md.  known_findings.json lists recorded and fixed genuine defects.',
    }
    with open(os.path.join(ROOT, 'MANIFEST.json'), 'w') as f:
        json.dump(man, f, indent=1)
    try:
        import jsonschema
        jsonschema.validate(man, json.load(open('/root/.vp/MANIFEST.schema.json')))
        print('MANIFEST valid;', len(checks), 'checks')
    except ImportError:
        print('MANIFEST written (jsonschema not available here);', len(checks), 'checks')


if __name__ == '__main__':
    main()
