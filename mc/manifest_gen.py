"""Regenerates MANIFEST.json from the table below (kept in one place so it is always schema-valid)."""
import json
import os
import sys

ROOT = os.path.dirname(os.path.dirname(os.path.abspath(__file__)))
sys.path.insert(0, ROOT)

CHECKS = {
    'C01': dict(
        text='All name-lists up to a length bound over an alphabet of DB, unknown, gss-*, 300-character, non-UTF-8 and special-character names, '
             'per category and crossed, asymmetric c2s/s2c, compression lists and banners, for server and client role under plain/batch/verbose/'
             'JSON rendering, plus every SSH-1 cipher and authentication mask; the report is compared with an independent decode of what the peer sent.',
        note='Names with control characters or spaces are outside the alphabet; verbose rendering compared modulo adjacent duplicates.',
        technique='explicit enumeration of all executions of the real CLI over a bounded input product, independent-decoder oracle',
        design='3/C01'),
    'C02': dict(
        text='Every mix and order of severity classes {fail, fail+warn, warn, clean, unknown} per category up to list length 2, crossed over '
             'categories, under 36 option sets; every fault on the initial connection for SSH-2/SSH-1/1.99/client archetypes in text and JSON; '
             'policy verdict cases. Oracle: status fold of the tags in the same report, all-or-nothing report for broken handshakes.',
        note='Representative names stand for their severity class; the fold is read from the text report of the same run.',
        technique='explicit enumeration of executions (input product + 1 environment deviation), status-fold reference model',
        design='3/C02'),
    'C03': dict(
        text='Every database name (gss-* instantiated) and unknown names x position x neighbour context x role x text/JSON, plus --lookup (single names; every ordered pair and triple over names of all categories): notes '
             'must be a function of (category, name, documented context) and equal across views; histories, deliveries, decorated names, group-exchange methods beside each other.',
        note='Measured sizes held fixed; Terrapin context from refmodels/terrapin.py.',
        technique='explicit enumeration of executions of the real CLI, differential oracle across views',
        design='3/C03'),
    'C04': dict(
        text='Exhaustive product of role x marker x ChaCha x CBC x ETM (every matching database name plus unknown names of the same shape), '
             'text and JSON, each audited by the real CLI in the virtual environment and compared with an independent Terrapin rule.',
        note='Virtual TCP delivers whole messages; lists symmetric; reference rule in refmodels/terrapin.py.',
        technique='explicit enumeration of all executions of the real CLI over a finite input product (0 deviations), reference-model oracle',
        design='3/C04'),
    'C05': dict(
        text='Chained invocations (-M then -P) for a family of peers (lists incl. "=", "+", "/", "@" names, RSA/Ed25519/certificate host keys with '
             'RSA/Ed25519/ECDSA CAs, GEX moduli, both roles) and every single-attribute perturbation of each; all built-in policies against a peer '
             'synthesised from the policy.',
        note='Peer family is a bounded sample of the configuration space, perturbations are exhaustive per peer.',
        technique='explicit enumeration of operation sequences (make-policy, then audit same/perturbed peer) on the real CLI',
        design='3/C05'),
    'C06': dict(
        text='All (policy, peer) pairs over a 3-name universe (kex +2 markers): every policy list {absent, len 1..3} x every peer list len 0..3 x '
             'flags, optional-host-key subsets, size maps over boundary values x larger-keys, CA type/size, pairwise field crosses; direct calls '
             'of the real evaluate on objects built by the real policy parser and KEXINIT parser, compared with a reference model; metamorphic '
             'shrink/grow; a covering subset through the CLI.',
        note='Reference model refmodels/policy.py encodes the documented rules; errors compared as sets.',
        technique='exhaustive small-universe enumeration against a reference model (explicit-state, direct calls + CLI conformance)',
        design='3/C06'),
    'C07': dict(
        text='All ordered pairs (thorough: triples) of target archetypes, one per channel through which a scan edits rating state, as -T runs '
             'with 1..3 worker threads in text/JSON/policy mode; every interleaving of the targets\' connection events up to a preemption bound '
             'is executed under a gate scheduler and each target block is compared with a fresh single-target run.',
        note='Thread switches are explored only at virtual I/O gates (resolve/connect/recv); archetype list bounds the channels covered; threads other than the pool workers and the main thread (none in the current tree) are not scheduled.',
        technique='stateless schedule exploration (preemption-bounded DFS) of the real worker pool under a controlled scheduler, differential oracle',
        design='3/C07'),
    'C08': dict(
        text='Target lists mixing healthy archetypes with every failure archetype in every position, 1..3 threads, text and JSON, all gate '
             'schedules up to a preemption bound; oracle: one block per target, ranked exit status, one JSON array.',
        note='Same scheduler granularity as C07; per-target expected statuses come from fresh single-target runs.',
        technique='stateless schedule + fault-archetype exploration of the real CLI, structural oracle on stdout/exit status',
        design='3/C08'),
    'C09': dict(
        text='For each valid transcript archetype every (connection, message, fault) triple of the fault menu is executed against the real CLI '
             '(truncation at byte offsets, close, stall, reset, garbage, every length field x5, wrong type, debug, duplicate, split, 1-byte '
             'segments, refuse/timeout); thorough adds all pairs with a second message-level fault. Oracle: terminates within op/time bound, '
             'documented status, complete report iff initial handshake well-formed. Also: identification-string contents, long runs of peer-chosen text under a CPU watchdog, '
             'reply mutations, the connection-rate phase meeting every behaviour of the C19 rate family.',
        note='Virtual clock and op budget stand in for wall time, a process-CPU-time watchdog catches computations that never return to the environment; random DH exponent pinned; environment model mc/vnet.py + mc/peer.py.',
        technique='deviation-bounded exhaustive fault enumeration (stateless exploration of the implementation under a fault injector)',
        design='3/C09'),
    'C10': dict(
        text='Dense integer windows, +-2^k+d for all k up to 8192, every 3-word 32-bit pattern with both signs, scalars, name-lists up to length 3, '
             'KEXINIT and SSH-1 public-key messages, send_packet framing for every payload length 0..4096 checked by an independent decoder and '
             'read back by the real reader, SSH-1 CRC for all lengths 0..512 and every single-bit corruption of a packet.',
        note='Independent codec mc/wire.py; random big integers are supplementary only.',
        technique='exhaustive bounded enumeration of codec inputs with inverse-law and independent-decoder oracles',
        design='3/C10'),
    'C11': dict(
        text='RSA moduli of every exact bit length on a dense grid 512..16384 (step 1 around the thresholds), all ordered selections of the RSA '
             'family, fixed-size key types, 66 certificate configurations (RSA/Ed25519 certificates x RSA/Ed25519/ECDSA CAs), every key-exchange '
             'reply path; sizes, CA details, fingerprints and size ratings compared with the key the scripted server generated.',
        note='Ground truth is the generated key; fingerprints via hashlib on the blob sent.',
        technique='explicit enumeration of executions of the real CLI over a bounded input grid, ground-truth oracle',
        design='3/C11'),
    'C12': dict(
        text='Every subset of the 9 modulus sizes x strict/round-up/OpenSSH-fallback selection x sha1/sha256/both x OpenSSH/other banner, text and '
             'JSON, judged against the server\'s own log of requests and groups handed out; plus every message-level fault at every probe connection.',
        note='OpenSSH selection modelled after dh.c; inner length-field changes of the group message count as a different well-formed group.',
        technique='exhaustive enumeration of server policies (all reachable probe-loop behaviours) + 1 environment deviation, log-derived oracle',
        design='3/C12'),
    'C13': dict(
        text='Banners of every recognised product at and around every first-appeared version in the database plus multi-digit versions and '
             'unrecognised software, crossed with peers in which every database entry occurs both advertised and not advertised; the recommendation '
             'section is checked against the notes of the same report, the database and numeric version order.',
        note='Entries without version information are not required either way.',
        technique='explicit enumeration of executions of the real CLI, consistency oracle within one report',
        design='3/C13'),
    'C14': dict(
        text='All ordered pairs of 1-2 component versions over 19 component values, a 300-element slice of 3-4 component versions, all pairs and '
             'triples of a 60-element mixed set with patch suffixes, for OpenSSH/Dropbear/libssh; end-to-end through the CLI for banners around every '
             'first-appeared version in the DB and multi-digit versions.',
        note='Numeric order = component-wise integer comparison; trailing-zero and patch-level ties only need antisymmetry/transitivity.',
        technique='exhaustive pair/triple enumeration of the comparison function against an integer-tuple reference + CLI conformance',
        design='3/C14'),
    'C15': dict(
        text='Peers covering every severity mix x all 72 combinations of -b, -v, -n, -l, -j/-jj, each run twice, plus fresh interpreters under '
             'four hash seeds: equal exit status, equal finding sets, level filtering only removes lines, JSON is one document, runs are identical.',
        note='With colours a line\'s level is read from its colour; JSON compared for database-known names.',
        technique='explicit enumeration of configurations on the real CLI, differential oracle across option sets',
        design='3/C15'),
    'C16': dict(
        text='The banner grammar enumerated to a bound (protocols x software tokens up to length 3 x comments/separators/endings), injected '
             'non-printable characters at every position, product templates, header-line prefixes with near-misses, delivery split at every byte '
             'offset through the real socket reader, and the CLI in text and JSON, against an RFC 4253 reference parser.',
        note='Reference parser refmodels/banner.py; comments compared modulo runs of blanks.',
        technique='bounded exhaustive grammar enumeration against a reference parser (direct calls + socket path + CLI)',
        design='3/C16'),
    'C17': dict(
        text='Every entry of every table as it stands (rating DB shape and broken-primitive rule, probe/GEX/DHEat tables, every algorithm of every '
             'built-in policy version) plus a standard audit of a peer synthesised from each built-in policy.',
        note='Finite-configuration exhaustive check; token rules listed in the evidence.',
        technique='exhaustive enumeration of a finite configuration space + execution of the real CLI per policy',
        design='3/C17'),
    'C18': dict(
        text='Hosts x ports x documented spellings x source (argv, targets file, messy targets file) x -p x IP-version options x resolver answers; '
             'the intercepted resolver/connect log and the report label are compared with a reference target grammar.',
        note='An explicit port in the target wins over -p; quick tier takes every third combination, thorough the full product.',
        technique='explicit enumeration of configurations on the real CLI with an environment log monitor',
        design='3/C18'),
    'C19': dict(
        text='Connection-log monitor over the C09 fault space, all rate-phase behaviours (banner, MaxStartups, silent, close, refuse, async refuse, '
             'timeout) x modes x kex sets, servers answering patterns of connections with a notice instead of a banner, and ordinary option sets: connection count (overall and per phase: '
             'one per host-key type, no type twice), concurrency, where key-exchange requests appear (one per connection), closure at exit.',
        note='Virtual clock model of select(); sockets collected by the interpreter count as closed.',
        technique='deviation-bounded exhaustive fault enumeration with a monitor on the environment log',
        design='3/C19'),
}

PENDING_REASON = 'check not built yet in this session; see DESIGN.md section 3 for the planned bounded exploration'


def main():
    props = [json.loads(l)['id'] for l in open(os.path.join(ROOT, 'properties.jsonl'))]
    checks = []
    for pid in props:
        if pid not in CHECKS:
            continue
        c = CHECKS[pid]
        checks.append({
            'property_id': pid,
            'quick_cmd': './check %s --tier quick' % pid,
            'thorough_cmd': './check %s --tier thorough' % pid,
            'evidence_file': '/verif/evidence/%s.json' % pid,
            'replay_cmd_template': './check %s --replay {path}' % pid,
            'engine': 'mc',
            'level_claimed': {'category': 'model_checking', 'text': c['text'], 'design_ref': c['design']},
            'level_note': c['note'],
            'technique': c['technique'],
        })
    man = {
        'version': 1,
        'setup_cmd': 'true',
        'hooks': {'guard': 'SSH_AUDIT_VERIF', 'enable': 'none needed: every seam is a module attribute replaced from outside at run time (mc/vnet.py)',
                  'baseline_off_cmd': 'cd /repo && /venv/bin/python -m pytest -ra -q -p no:cacheprovider --timeout=900 --continue-on-collection-errors',
                  'source_commits': [], 'add_only': True},
        'engines': [{'name': 'mc', 'path': '/verif/mc', 'serves_properties': sorted(CHECKS),
                     'kind_free_text': 'hand-written stateless explorer: runs the real CLI in-process inside a deterministic virtual '
                                       'environment (sockets, resolver, select, clock, randomness, gated worker threads) and enumerates '
                                       'inputs, environment deviations and schedules exhaustively within stated bounds'}],
        'checks': checks,
        'not_applicable': [{'property_id': p, 'reason': PENDING_REASON} for p in props if p not in CHECKS],
        'notes': 'See DESIGN.md.  known_findings.json lists recorded and fixed genuine defects.',
    }
    with open(os.path.join(ROOT, 'MANIFEST.json'), 'w') as f:
        json.dump(man, f, indent=1)
    try:
        import jsonschema
        jsonschema.validate(man, json.load(open('/root/.vp/MANIFEST.schema.json')))
        print('MANIFEST valid;', len(checks), 'checks')
    except ImportError:
        print('MANIFEST written (jsonschema not available here);', len(checks), 'checks')


if __name__ == '__main__':
    main()
