"""Gate scheduler for the -T worker pool: explores interleavings of the targets' I/O events.

The real main() runs in its own thread with the real ThreadPoolExecutor.  Every work item parks at *start*, and
every virtual resolve/connect/recv/select issued by a worker parks at a *gate*.  Exactly one in-flight target runs
at a time; the controller (the harness thread) waits for quiescence and then releases the target chosen by the
schedule.  A schedule is a list of indices into the canonically ordered enabled set (running target first, then
ascending submission index); index 0 everywhere is the non-preemptive default schedule.
"""
import concurrent.futures as _cf
import threading
import time as _time

from . import vnet
from .vnet import HarnessError


class Scheduler:
    def __init__(self, prefix=(), gate_kinds=('resolve', 'connect', 'recv', 'select'), wall_limit=30.0):
        self.prefix = list(prefix)
        self.gate_kinds = set(gate_kinds)
        self.cv = threading.Condition()
        self.parked = {}            # label -> kind
        self.go = {}                # label -> threading.Event
        self.by_thread = {}         # thread ident -> label
        self.submitted = 0
        self.finished = 0
        self.k_max = None
        self.all_submitted = False
        self.running = None
        self.points = []            # [(enabled labels, chosen index, running_still_enabled)]
        self.thread_items = {}      # thread ident -> [labels] (which items ran on which pool thread)
        self.completion_order = []
        self.wall_limit = wall_limit
        self.main_done = False
        self.error = None

    # ---- called from pool threads
    def _park(self, label, kind):
        ev = threading.Event()
        with self.cv:
            self.parked[label] = kind
            self.go[label] = ev
            self.cv.notify_all()
        if not ev.wait(self.wall_limit * 4):
            raise HarnessError('scheduler: %r never released' % (label,))

    def enter(self, label):
        ident = threading.get_ident()
        self.by_thread[ident] = label
        self.thread_items.setdefault(ident, []).append(label)
        self._park(label, 'start')

    def leave(self, label):
        with self.cv:
            self.by_thread.pop(threading.get_ident(), None)
            self.finished += 1
            self.completion_order.append(label)
            self.cv.notify_all()

    def gate(self, kind):
        label = self.by_thread.get(threading.get_ident())
        if label is None or kind not in self.gate_kinds:
            return
        self._park(label, kind)

    # ---- called from the tool's main thread
    def signal_all_submitted(self):
        with self.cv:
            self.all_submitted = True
            self.cv.notify_all()

    def signal_main_done(self):
        with self.cv:
            self.main_done = True
            self.cv.notify_all()

    # ---- controller
    def _expected_parked(self):
        k = min(self.k_max or self.submitted, self.submitted)
        return min(self.submitted - self.finished, k)

    def control(self):
        deadline = _time.time() + self.wall_limit
        i = 0
        with self.cv:
            while True:
                # wait for quiescence
                while True:
                    if self.main_done and not self.all_submitted:
                        return          # the tool ended before handing work to the pool
                    if self.all_submitted and len(self.parked) == self._expected_parked():
                        break
                    if self.all_submitted and self.finished >= self.submitted:
                        break
                    if not self.cv.wait(0.5) and _time.time() > deadline:
                        raise HarnessError('scheduler: no quiescence (parked=%r submitted=%d finished=%d k=%r)' % (
                            self.parked, self.submitted, self.finished, self.k_max))
                if self.finished >= self.submitted:
                    return
                enabled = sorted(self.parked, key=lambda l: l[0])
                still = self.running in self.parked
                if still:
                    enabled.remove(self.running)
                    enabled.insert(0, self.running)
                if i < len(self.prefix):
                    c = self.prefix[i]
                    if c >= len(enabled):
                        raise HarnessError('schedule replay diverged at point %d: choice %d of %d' % (i, c, len(enabled)))
                else:
                    c = 0
                self.points.append((tuple(enabled), c, still))
                i += 1
                label = enabled[c]
                self.running = label
                del self.parked[label]
                self.go.pop(label).set()
                deadline = _time.time() + self.wall_limit


class _Exec(_cf.ThreadPoolExecutor):
    def __init__(self, max_workers=None, **kw):
        w = vnet.current()
        self._sched = w.sched if w is not None else None
        if self._sched is not None:
            self._sched.k_max = max_workers
        super().__init__(max_workers=max_workers, **kw)

    def submit(self, fn, *args, **kw):
        s = self._sched
        if s is None:
            return super().submit(fn, *args, **kw)
        idx = s.submitted
        s.submitted += 1
        label = (idx,) + tuple(a for a in args[:2])

        def wrapped(*a, **k):
            s.enter(label)
            try:
                return fn(*a, **k)
            finally:
                s.leave(label)
        return super().submit(wrapped, *args, **kw)


def _as_completed(fs, timeout=None):
    w = vnet.current()
    if w is not None and w.sched is not None:
        w.sched.signal_all_submitted()
    return _cf.as_completed(fs, timeout)


class _Facade:
    def __init__(self, real, **over):
        self.__dict__['_real'] = real
        self.__dict__.update(over)

    def __getattr__(self, n):
        return getattr(self._real, n)


import concurrent as _concurrent  # noqa: E402

futures_facade = _Facade(_cf, ThreadPoolExecutor=_Exec, as_completed=_as_completed)
concurrent_facade = _Facade(_concurrent, futures=futures_facade)


def install(mods):
    mods['ssh_audit'].concurrent = concurrent_facade


def run_scheduled(run_cli, argv, world, prefix=(), gate_kinds=('resolve', 'connect', 'recv', 'select'), **kw):
    """Run one CLI invocation under the gate scheduler.  Returns (result, scheduler)."""
    s = Scheduler(prefix, gate_kinds)
    world.sched = s
    box = []

    def body():
        try:
            box.append(run_cli(argv, world, **kw))
        except BaseException as e:   # noqa
            box.append(e)
        finally:
            s.signal_main_done()
    t = threading.Thread(target=body, name='tool-main')
    t.start()
    try:
        s.control()
    except HarnessError as e:
        s.error = str(e)
        # release everything so that threads can end
        with s.cv:
            for ev in s.go.values():
                ev.set()
    t.join(60)
    if t.is_alive():
        raise HarnessError('tool main thread did not finish: %s' % s.error)
    if s.error:
        raise HarnessError(s.error)
    r = box[0]
    if isinstance(r, BaseException):
        raise r
    return r, s


def explore_schedules(run_once, bound, max_execs=None):
    """Iterative-deepening-free DFS over schedules with a preemption bound.

    run_once(prefix) -> (observation, points) where points = [(enabled, chosen, running_still_enabled)].
    Yields (prefix_used, observation, points) for every execution.
    """
    stack = [[]]
    n = 0
    while stack:
        prefix = stack.pop()
        obs, points = run_once(prefix)
        n += 1
        yield prefix, obs, points
        if max_execs is not None and n >= max_execs:
            return
        choices = [p[1] for p in points]
        # preemptions used before point i
        used = 0
        cum = []
        for (enabled, c, still) in points:
            cum.append(used)
            if still and c != 0:
                used += 1
        for i in range(len(prefix), len(points)):
            enabled, c, still = points[i]
            for alt in range(1, len(enabled)):
                cost = cum[i] + (1 if still else 0)
                if cost > bound:
                    continue
                stack.append(choices[:i] + [alt])
