"""Gate scheduler for the -T worker pool: explores interleavings of the targets' I/O events.

The real main() runs in its own thread with the real ThreadPoolExecutor.  Every work item parks at *start*, and
every virtual resolve/connect/recv/select issued by a worker parks at a *gate*.  Exactly one in-flight target runs
at a time; the controller (the harness thread) waits for quiescence and then releases the target chosen by the
schedule.  A schedule is a list of indices into the canonically ordered enabled set (running target first, then
ascending submission index); index 0 everywhere is the non-preemptive default schedule.
"""
import concurrent.futures as _cf
import threading
import time as _time

from . import vnet
from .vnet import HarnessError


class DeadlockDetected(BaseException):
    """raised inside an audited thread that waits for a lock nobody can release any more"""


_ALL_LOCKS = []


class SchedLock:
    """Stands in for threading.Lock / RLock inside the audited code.  Waiting for a held lock is a scheduling event: the waiter is
    neither running nor enabled until the lock is released; when every unfinished worker waits, that is a deadlock - it is recorded on
    the World and the waiters are ended with DeadlockDetected so that the execution terminates."""

    def __init__(self, reentrant=False):
        self._m = threading.Lock()
        self._owner = None
        self._depth = 0
        self._reentrant = reentrant
        _ALL_LOCKS.append(self)

    def _try(self):
        me = threading.get_ident()
        with self._m:
            if self._depth == 0:
                self._owner, self._depth = me, 1
                return True
            if self._reentrant and self._owner == me:
                self._depth += 1
                return True
            return False

    def _reset(self):
        with self._m:
            self._owner, self._depth = None, 0
        self._released_at = None

    def _after_release(self, w):
        # virtual time: whoever takes the lock does so no earlier than the moment the previous holder let go of it
        at = getattr(self, '_released_at', None)
        if w is not None and at is not None:
            k = threading.get_ident()
            if w.clocks.get(k, 0.0) < at:
                w.clocks[k] = at

    def acquire(self, blocking=True, timeout=-1):
        w = vnet.current()
        if self._try():
            self._after_release(w)
            return True
        if not blocking:
            return False
        s = w.sched if w is not None else None
        label = s.by_thread.get(threading.get_ident()) if s is not None else None
        if s is not None and label is not None:
            ok = s.lock_wait(label, self)
            if ok:
                self._after_release(w)
            return ok
        # outside the worker pool (single-target runs, the tool's main thread): wait in real time, briefly
        limit = _time.time() + (timeout if timeout is not None and timeout >= 0 else 1.5)
        while _time.time() < limit:
            if self._try():
                return True
            _time.sleep(0.002)
        if timeout is not None and timeout >= 0:
            return False
        if w is not None:
            w.deadlock = (getattr(w, 'deadlock', None) or []) + ['thread outside the worker pool waits for a lock that is never released']
        raise DeadlockDetected('lock never released')

    def release(self):
        with self._m:
            if self._depth == 0:
                raise RuntimeError('release unlocked lock')
            self._depth -= 1
            if self._depth:
                return
            self._owner = None
        w = vnet.current()
        if w is not None:
            self._released_at = w.clock
        s = w.sched if w is not None else None
        if s is not None:
            s.lock_released(self)

    def locked(self):
        return self._depth > 0

    def __enter__(self):
        self.acquire()
        return self

    def __exit__(self, *a):
        self.release()


def reset_locks():
    for l in _ALL_LOCKS:
        l._reset()


class Scheduler:
    def __init__(self, prefix=(), gate_kinds=('resolve', 'connect', 'recv', 'select'), wall_limit=30.0, explore_main=False):
        self.prefix = list(prefix)
        self.gate_kinds = set(gate_kinds)
        self.cv = threading.Condition()
        self.parked = {}            # label -> kind
        self.go = {}                # label -> threading.Event
        self.by_thread = {}         # thread ident -> label
        self.submitted = 0
        self.finished = 0
        self.k_max = None
        self.all_submitted = False
        self.running = None
        self.points = []            # [(enabled labels, chosen index, running_still_enabled)]
        self.thread_items = {}      # thread ident -> [labels] (which items ran on which pool thread)
        self.completion_order = []
        self.wall_limit = wall_limit
        self.main_done = False
        self.error = None
        self.explore_main = explore_main   # offer 'the main thread collects a finished target later' as a schedule choice (else: at once)
        self.main_gated = False     # the tool collects its results through as_completed(): each collection is a scheduled event
        self.main_taken = 0         # futures the main thread has taken out of as_completed() so far
        self.main_busy = False      # released from its gate and not yet back asking for the next result
        self.blocked = {}           # label -> SchedLock waited for
        self.deadlock = []          # labels ended because nobody could release the lock they waited for

    # ---- locks of the audited code
    def lock_wait(self, label, lock):
        while True:
            ev = threading.Event()
            with self.cv:
                if lock._try():
                    return True
                self.blocked[label] = lock
                self.go[label] = ev
                self.cv.notify_all()
            if not ev.wait(self.wall_limit * 4):
                raise HarnessError('scheduler: %r never released from a lock wait' % (label,))
            if label in self.deadlock:
                raise DeadlockDetected('worker %r waits for a lock that no thread can release' % (label,))

    def lock_released(self, lock):
        with self.cv:
            for label, l in list(self.blocked.items()):
                if l is lock:
                    del self.blocked[label]
                    self.parked[label] = 'lock'        # enabled again: the schedule decides when it retries
            self.cv.notify_all()

    # ---- called from pool threads
    def _park(self, label, kind):
        ev = threading.Event()
        with self.cv:
            self.parked[label] = kind
            self.go[label] = ev
            self.cv.notify_all()
        if not ev.wait(self.wall_limit * 4):
            raise HarnessError('scheduler: %r never released' % (label,))

    def enter(self, label):
        ident = threading.get_ident()
        self.by_thread[ident] = label
        self.thread_items.setdefault(ident, []).append(label)
        self._park(label, 'start')

    def leave(self, label):
        with self.cv:
            self.by_thread.pop(threading.get_ident(), None)
            self.finished += 1
            self.completion_order.append(label)
            self.cv.notify_all()

    def gate(self, kind):
        label = self.by_thread.get(threading.get_ident())
        if label is None or kind not in self.gate_kinds:
            return
        self._park(label, kind)

    # ---- called from the tool's main thread
    MAIN = (-1, 'main-thread-collects-a-result', 0)

    def main_collect(self):
        """the main thread has a finished work item in hand and is about to process (print) it: a scheduled event like any other"""
        # taking the item and parking is ONE step under the scheduler's lock: between "taken" and "parked" the controller would see a main
        # thread that is neither busy nor waiting, conclude that the run is over, and leave it parked for ever (seen twice, under load only)
        ev = threading.Event()
        with self.cv:
            self.main_gated = True
            self.main_taken += 1
            self.main_busy = False
            self.parked[self.MAIN] = 'collect'
            self.go[self.MAIN] = ev
            self.cv.notify_all()
        if not ev.wait(self.wall_limit * 4):
            raise HarnessError('scheduler: %r never released' % (self.MAIN,))

    def main_back(self):
        with self.cv:
            self.main_busy = False
            self.cv.notify_all()

    def _main_quiet(self):
        if not self.main_gated or self.main_done or getattr(self, 'main_left_loop', False):
            return True
        return self.MAIN in self.parked or (self.main_taken >= self.finished and not self.main_busy)

    def signal_all_submitted(self):
        with self.cv:
            self.all_submitted = True
            self.cv.notify_all()

    def signal_main_done(self):
        with self.cv:
            self.main_done = True
            self.cv.notify_all()

    # ---- controller
    def _expected_parked(self):
        k = min(self.k_max or self.submitted, self.submitted)
        return min(self.submitted - self.finished, k)

    def control(self):
        deadline = _time.time() + self.wall_limit
        i = 0
        with self.cv:
            while True:
                # wait for quiescence
                while True:
                    if self.main_done and not self.all_submitted:
                        return          # the tool ended before handing work to the pool
                    nworkers = len([l for l in self.parked if l != self.MAIN])
                    if self.all_submitted and nworkers + len(self.blocked) == self._expected_parked() and self._main_quiet():
                        break
                    if self.all_submitted and self.finished >= self.submitted and self._main_quiet():
                        break
                    if not self.cv.wait(0.5) and _time.time() > deadline:
                        raise HarnessError('scheduler: no quiescence (parked=%r submitted=%d finished=%d k=%r)' % (
                            self.parked, self.submitted, self.finished, self.k_max))
                if self.finished >= self.submitted and self.MAIN not in self.parked:
                    return
                if not self.parked and self.blocked:
                    # every unfinished worker waits for a lock: deadlock.  End the waiters so that the execution terminates.
                    w = vnet.current()
                    for label in sorted(self.blocked, key=lambda l: l[0]):
                        self.deadlock.append(label)
                        self.go.pop(label).set()
                    self.blocked.clear()
                    deadline = _time.time() + self.wall_limit
                    continue
                if self.MAIN in self.parked and not self.explore_main:
                    # collection is not a choice in this exploration: the main thread takes a finished target at once
                    del self.parked[self.MAIN]
                    self.main_busy = True
                    self.go.pop(self.MAIN).set()
                    deadline = _time.time() + self.wall_limit
                    continue
                enabled = sorted(self.parked, key=lambda l: l[0])
                still = self.running in self.parked
                if still:
                    enabled.remove(self.running)
                    enabled.insert(0, self.running)
                if i < len(self.prefix):
                    c = self.prefix[i]
                    if c >= len(enabled):
                        raise HarnessError('schedule replay diverged at point %d: choice %d of %d' % (i, c, len(enabled)))
                else:
                    c = 0
                self.points.append((tuple(enabled), c, still))
                i += 1
                label = enabled[c]
                self.running = label
                del self.parked[label]
                if label == self.MAIN:
                    self.main_busy = True
                self.go.pop(label).set()
                deadline = _time.time() + self.wall_limit


class _Exec(_cf.ThreadPoolExecutor):
    def __init__(self, max_workers=None, **kw):
        w = vnet.current()
        self._sched = w.sched if w is not None else None
        if self._sched is not None:
            self._sched.k_max = max_workers
        super().__init__(max_workers=max_workers, **kw)

    def submit(self, fn, *args, **kw):
        s = self._sched
        if s is None:
            return super().submit(fn, *args, **kw)
        idx = s.submitted
        s.submitted += 1
        label = (idx,) + tuple(a for a in args[:2])

        def wrapped(*a, **k):
            s.enter(label)
            try:
                return fn(*a, **k)
            finally:
                s.leave(label)
        f = super().submit(wrapped, *args, **kw)
        # however the tool waits for its work items (as_completed, wait, Future.result, leaving the executor's with-block): the moment
        # it starts waiting is the moment everything has been handed over
        real_result, real_exception = f.result, f.exception

        def result(timeout=None):
            s.signal_all_submitted()
            return real_result(timeout)

        def exception(timeout=None):
            s.signal_all_submitted()
            return real_exception(timeout)
        f.result, f.exception = result, exception
        return f

    def map(self, fn, *iterables, timeout=None, chunksize=1):
        # as in the standard library: everything is submitted at once, results come back in the order of the arguments, and `timeout` is ONE
        # deadline counted from this call - measured on the virtual clock, since the peers' delays are virtual
        if self._sched is None:
            return super().map(fn, *iterables, timeout=timeout, chunksize=chunksize)
        w = vnet.current()
        fs = [self.submit(fn, *args) for args in zip(*iterables)]
        start = w.max_clock()

        def gen():
            try:
                for f in fs:
                    r = f.result()
                    if timeout is not None and w.max_clock() - start > timeout:
                        raise _cf.TimeoutError()
                    yield r
            finally:
                for f in fs:
                    if f.cancel():      # an item that never started will not start any more: the scheduler stops waiting for it
                        with self._sched.cv:
                            self._sched.finished += 1
                            self._sched.cv.notify_all()
        return gen()

    def shutdown(self, wait=True, **kw):
        if self._sched is not None and wait:
            self._sched.signal_all_submitted()
            with self._sched.cv:
                # the main thread now only waits for the workers (it left its collecting loop - normally, or through an exception)
                self._sched.main_left_loop = True
                self._sched.cv.notify_all()
        return super().shutdown(wait=wait, **kw)


def _as_completed(fs, timeout=None):
    w = vnet.current()
    if w is not None and w.sched is not None:
        with w.sched.cv:
            w.sched.main_gated = True
        w.sched.signal_all_submitted()
    if w is None:
        return _cf.as_completed(fs, timeout)
    # a deadline for the whole iteration, as in the standard library - measured on the virtual clock (the busiest worker's), since the
    # peers' delays are virtual: when a result arrives later than `timeout` after the call, the caller gets TimeoutError instead
    fs = list(fs)

    def gen():
        start, done = w.max_clock(), 0
        try:
            for f in _cf.as_completed(fs):
                if timeout is not None and w.max_clock() - start > timeout:
                    raise _cf.TimeoutError('%d (of %d) futures unfinished' % (len(fs) - done, len(fs)))
                done += 1
                if w.sched is not None:
                    w.sched.main_collect()
                yield f
                if w.sched is not None:
                    w.sched.main_back()
        finally:
            if w.sched is not None:
                w.sched.main_back()
    return gen()


class _Facade:
    def __init__(self, real, **over):
        self.__dict__['_real'] = real
        self.__dict__.update(over)

    def __getattr__(self, n):
        return getattr(self._real, n)


import concurrent as _concurrent  # noqa: E402

def _wait(fs, timeout=None, return_when=_cf.ALL_COMPLETED):
    w = vnet.current()
    if w is not None and w.sched is not None:
        w.sched.signal_all_submitted()
    return _cf.wait(fs, timeout, return_when)


futures_facade = _Facade(_cf, ThreadPoolExecutor=_Exec, as_completed=_as_completed, wait=_wait)
concurrent_facade = _Facade(_concurrent, futures=futures_facade)


class _ToolThread(threading.Thread):
    """A thread the audited code starts itself.  The gate scheduler owns the pool's workers and the main thread only: such a thread runs
    unscheduled, and a join with a time limit waits in real time.  The exploration of this execution is then not exhaustive over schedules -
    recorded in the world so that the evidence says so (a cap, never a silent claim)."""

    def start(self):
        w = vnet.current()
        if w is not None:
            w.tool_threads = getattr(w, 'tool_threads', 0) + 1
        return super().start()


threading_facade = _Facade(threading, Lock=SchedLock, RLock=(lambda: SchedLock(reentrant=True)), Thread=_ToolThread)
_REAL_LOCK_TYPES = (type(threading.Lock()), type(threading.RLock()))


def install(mods):
    mods['ssh_audit'].concurrent = concurrent_facade
    # locks of the audited code: created at run time through the facade; those created at import time (module / class level) are replaced
    for mod in mods.values():
        if isinstance(vars(mod).get('threading'), type(threading)):
            mod.threading = threading_facade
        owners = [mod] + [c for c in vars(mod).values() if isinstance(c, type) and c.__module__ == mod.__name__]
        for o in owners:
            for name, v in list(vars(o).items()):
                if isinstance(v, _REAL_LOCK_TYPES):
                    setattr(o, name, SchedLock(reentrant=isinstance(v, _REAL_LOCK_TYPES[1])))


def run_scheduled(run_cli, argv, world, prefix=(), gate_kinds=('resolve', 'connect', 'recv', 'select'), explore_main=False, **kw):
    """Run one CLI invocation under the gate scheduler.  Returns (result, scheduler)."""
    s = Scheduler(prefix, gate_kinds, explore_main=explore_main)
    world.sched = s
    box = []

    def body():
        try:
            box.append(run_cli(argv, world, **kw))
        except BaseException as e:   # noqa
            box.append(e)
        finally:
            s.signal_main_done()
    t = threading.Thread(target=body, name='tool-main')
    t.start()
    try:
        s.control()
    except HarnessError as e:
        s.error = str(e)
        # release everything so that threads can end
        with s.cv:
            for ev in s.go.values():
                ev.set()
    t.join(60)
    if t.is_alive():
        raise HarnessError('tool main thread did not finish: %s' % s.error)
    if s.error:
        raise HarnessError(s.error)
    r = box[0]
    if isinstance(r, BaseException):
        raise r
    return r, s


def explore_schedules(run_once, bound, max_execs=None):
    """Iterative-deepening-free DFS over schedules with a preemption bound.

    run_once(prefix) -> (observation, points) where points = [(enabled, chosen, running_still_enabled)].
    Yields (prefix_used, observation, points) for every execution.
    """
    stack = [[]]
    n = 0
    while stack:
        prefix = stack.pop()
        obs, points = run_once(prefix)
        n += 1
        yield prefix, obs, points
        if max_execs is not None and n >= max_execs:
            return
        choices = [p[1] for p in points]
        # preemptions used before point i
        used = 0
        cum = []
        for (enabled, c, still) in points:
            cum.append(used)
            if still and c != 0:
                used += 1
        for i in range(len(prefix), len(points)):
            enabled, c, still = points[i]
            for alt in range(1, len(enabled)):
                cost = cum[i] + (1 if still else 0)
                if cost > bound:
                    continue
                stack.append(choices[:i] + [alt])
