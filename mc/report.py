"""Parsers for what a user sees: text report, JSON report, multi-target output, policy output.

Only documented line shapes are relied on:
  (cat) name[ (size info)]<pad> -- [level] text
  <spaces>`- [level] text                      (continuation, non-verbose)
  (rec) <sign>name<pad>-- cat algorithm to verb [(notes)]
  (gen)/(fin)/(nfo)/(sec) lines, '# title' headers, 80-dash separator between targets.
"""
import json
import re

ANSI = re.compile(r'\x1b\[[0-9;]*m')
COLOR_LEVEL = {'31': 'fail', '33': 'warn', '32': 'good', '36': 'head', '91': 'fail', '93': 'warn', '92': 'good', '96': 'head'}
CATS = ('kex', 'key', 'enc', 'mac', 'aut')
SEPARATOR = '-' * 80

_ALG = re.compile(r'^\((kex|key|enc|mac|aut)\) (.*)$')
_NOTE = re.compile(r'^(.*?)\s+-- \[(fail|warn|info)\] (.*)$')
_CONT = re.compile(r'^\s+`- \[(fail|warn|info)\] (.*)$')
_SIZE = re.compile(r'^(\S+) \((\d+)-bit(?: cert/(\d+)-bit (.+?) CA)?\)$', re.S)      # the CA type is the peer's text: anything
_REC = re.compile(r'^\(rec\) ([-+!])(\S+)\s*-- (kex|key|enc|mac) algorithm to (remove|append|change)(?: \((.*)\))? ?$')


def strip_ansi(s):
    return ANSI.sub('', s)


def line_color_level(line):
    """Level encoded by the colour of a line ('fail','warn','good','head') or 'info' when uncoloured."""
    m = re.match(r'^\x1b\[0;(\d+)m', line)
    if not m:
        return 'info'
    return COLOR_LEVEL.get(m.group(1), '?')


def lines_with_levels(text):
    """[(line, colour level)] where the level is the colour in force at the start of the line (colours may span lines)."""
    out = []
    cur = 'info'
    for line in text.split('\n'):
        m = re.match(r'^\x1b\[0;(\d+)m', line)
        start = COLOR_LEVEL.get(m.group(1), '?') if m else cur
        out.append((line, start))
        # colour in force at the end of this line
        for mm in re.finditer(r'\x1b\[(0;(\d+)|0)m', line):
            cur = COLOR_LEVEL.get(mm.group(2), '?') if mm.group(2) else 'info'
    return out


class TextReport:
    def __init__(self, text):
        self.raw = text
        self.lines = [strip_ansi(l) for l in text.split('\n')]
        self.algs = {c: [] for c in CATS}        # cat -> [dict(name, size, casize, catype, notes=[(level,text)])]
        self.gen = {}                            # key -> value  (last wins) ; all in gen_all
        self.gen_all = []
        self.fin = []
        self.rec = []                            # (sign, name, cat, verb, notes)
        self.nfo = []
        self.sec = []
        self.headers = []
        self.other = []
        self.unknown_warning = None
        self._parse()

    def _parse(self):
        cur = None
        gen_cont = None
        for l in self.lines:
            if l.startswith('# '):
                self.headers.append(l[2:])
                cur = None
                gen_cont = None
                continue
            m = _ALG.match(l)
            if m:
                cat, rest = m.group(1), m.group(2)
                n = _NOTE.match(rest)
                if n:
                    namepart, level, text = n.group(1), n.group(2), n.group(3)
                    notes = [(level, text)]
                else:
                    namepart, notes = rest.rstrip(), []
                s = _SIZE.match(namepart)
                name, size, casize, catype = namepart, None, None, None
                if s:
                    name, size = s.group(1), int(s.group(2))
                    if s.group(3):
                        casize, catype = int(s.group(3)), s.group(4)
                # verbose mode repeats the full line for each note of the same algorithm occurrence
                if cur is not None and cur['cat'] == cat and cur['raw_namepart'] == namepart and cur.get('verbose_merge'):
                    cur['notes'].extend(notes)
                else:
                    cur = {'cat': cat, 'name': name, 'size': size, 'casize': casize, 'catype': catype,
                           'notes': notes, 'raw_namepart': namepart}
                    self.algs[cat].append(cur)
                gen_cont = None
                continue
            c = _CONT.match(l)
            if c and cur is not None:
                cur['notes'].append((c.group(1), c.group(2)))
                continue
            if l.startswith('(gen) '):
                k, _, v = l[6:].partition(': ')
                self.gen[k] = v
                self.gen_all.append((k, v))
                gen_cont = k if k == 'header' else None
                cur = None
                continue
            if l.startswith('(fin) '):
                self.fin.append(l[6:])
                continue
            if l.startswith('(rec) '):
                r = _REC.match(l)
                if r:
                    self.rec.append((r.group(1), r.group(2), r.group(3), r.group(4), r.group(5) or ''))
                else:
                    self.other.append(l)
                continue
            if l.startswith('(nfo) '):
                self.nfo.append(l[6:])
                continue
            if l.startswith('(sec) '):
                self.sec.append(l[6:])
                continue
            if l.startswith('!!! WARNING: unknown algorithm(s) found!: '):
                self.unknown_warning = l
                continue
            if gen_cont == 'header' and l.strip() != '':
                self.gen['header'] += '\n' + l
                continue
            if l.strip() != '':
                self.other.append(l)

    def merge_verbose(self):
        """In verbose mode every note is a full line; merge consecutive identical name parts."""
        for cat in CATS:
            merged = []
            for a in self.algs[cat]:
                if merged and merged[-1]['raw_namepart'] == a['raw_namepart'] and merged[-1].get('_open'):
                    merged[-1]['notes'].extend(a['notes'])
                else:
                    a['_open'] = True
                    merged.append(a)
            self.algs[cat] = merged
        return self

    def names(self, cat):
        return [a['name'] for a in self.algs[cat]]

    def has_alg_report(self):
        return any(self.algs[c] for c in CATS)

    def findings(self):
        """set of (cat, name, level, text) for every note shown."""
        out = []
        for cat in CATS:
            for a in self.algs[cat]:
                for lv, tx in a['notes']:
                    out.append((cat, a['name'], lv, tx))
        return out

    def levels(self):
        """severity levels of every tagged finding of the report: the notes of the algorithm lines, and any ' -- [fail] ' / ' -- [warn] '
        tag on a line of another section (security, general ...)"""
        out = set(lv for (_c, _n, lv, _t) in self.findings())
        for l in self.lines:
            if l.startswith('(') and not _ALG.match(l):
                m = re.search(r' -- \[(fail|warn)\] ', l)
                if m:
                    out.add(m.group(1))
        return out


def split_targets(stdout):
    """Split multi-target text output on the 80-dash separator line."""
    blocks, cur = [], []
    for l in stdout.split('\n'):
        if strip_ansi(l) == SEPARATOR:
            blocks.append('\n'.join(cur))
            cur = []
        else:
            cur.append(l)
    blocks.append('\n'.join(cur))
    return blocks


def parse_json(stdout):
    return json.loads(stdout)


def json_names(doc, cat):
    v = doc.get(cat)
    if v is None:
        return None
    out = []
    for e in v:
        out.append(e['algorithm'] if isinstance(e, dict) else e)
    return out


def json_findings(doc):
    out = []
    for cat in ('kex', 'key', 'enc', 'mac'):
        for e in doc.get(cat) or []:
            if not isinstance(e, dict):
                continue
            for lv in ('fail', 'warn', 'info'):
                for t in e.get('notes', {}).get(lv, []):
                    out.append((cat, e['algorithm'], lv, t))
    return out


class PolicyText:
    def __init__(self, text):
        self.raw = text
        t = strip_ansi(text)
        self.host = None
        self.policy = None
        self.result = None
        self.errors_block = ''
        m = re.search(r'^Host:   (.*)$', t, re.M)
        if m:
            self.host = m.group(1)
        m = re.search(r'^Client IP: (.*)$', t, re.M)
        self.client_ip = m.group(1) if m else None
        m = re.search(r'^Policy: \s*(.*)$', t, re.M)
        if m:
            self.policy = m.group(1)
        m = re.search(r'^Result: \s*(.*)$', t, re.M)
        if m:
            r = m.group(1)
            self.result = 'passed' if 'Passed' in r else ('failed' if 'Failed' in r else r)
        i = t.find('\nErrors:\n')
        if i >= 0:
            self.errors_block = t[i + 9:]
        self.error_fields = re.findall(r'^  \* (.*) did not match\.$', self.errors_block, re.M)
