"""Evidence accumulation (mergeable across worker processes), known-findings matching, replay artefacts."""
import collections
import hashlib
import json
import os
import time

ROOT = os.path.dirname(os.path.dirname(os.path.abspath(__file__)))
EVIDENCE_DIR = os.path.join(ROOT, 'evidence')
TOOL_THREADS_CAP = 'the audited code started threads of its own: they are not scheduled, schedule exploration is not exhaustive for this tree'
# evidence describes runs against /repo itself: a run pointed at a scratch copy (seed evaluation, regression over kept seeds) writes its
# file elsewhere, so that it can never replace what the registered commands produced
if os.path.realpath(os.environ.get('VERIF_REPO', '/repo')) != os.path.realpath('/repo'):
    import tempfile as _tf
    EVIDENCE_DIR = os.path.join(_tf.gettempdir(), 'verif-evidence-scratch-%d' % os.getuid())
REPLAY_DIR = os.path.join(ROOT, 'replays')
KNOWN_FILE = os.path.join(ROOT, 'known_findings.json')


def h64(*parts):
    m = hashlib.blake2b(digest_size=8)
    for p in parts:
        if not isinstance(p, bytes):
            p = repr(p).encode('utf-8', 'replace')
        m.update(p)
        m.update(b'\x00')
    return int.from_bytes(m.digest(), 'big')


_FD_EVENTS = frozenset(('socket', 'close', 'established', 'send', 'recv', 'recv-timeout', 'recv-rst', 'listen', 'connect', 'bind', 'accept'))


_CONN_EVENTS = frozenset(('resolve', 'connect', 'established', 'accept', 'close', 'bind'))


class Stats:
    """Counters for one check run; `merge` folds in a worker's partial."""

    def __init__(self):
        self.evaluations = 0
        self.transitions = 0
        self.states = set()
        self.nontrivial = set()
        self.outcomes = collections.Counter()
        self.samples = []
        self.violations = []          # dicts: {'sig':..., 'detail':..., 'replay':...}
        self.harness_errors = []
        self.extra = collections.Counter()
        self.caps = []

    def execution(self, world=None, outcome=None, root=None, nontrivial=None, detail='conn'):
        """Account one execution.  A *state* is a distinct node of the exploration: the root input together with a prefix of the
        environment event log.  detail='full' takes every prefix, 'conn' (default) the prefixes ending at connection-level events
        (resolve, connect, established, accept, close) plus the final one, 'light' only the final one.  Transitions = events executed."""
        self.evaluations += 1
        if world is not None and getattr(world, 'tool_threads', 0) and TOOL_THREADS_CAP not in self.caps:
            self.caps.append(TOOL_THREADS_CAP)
        if world is not None:
            # builtin hash: identical across the forked workers of one run (same hash seed), and fast
            hv = hash(('root', repr(root)))
            if detail != 'light':
                self.states.add(hv)
            for ev in world.log:
                hv = hash((hv, ev[0], ev[2:] if ev[0] in _FD_EVENTS else ev[1:]))
                if detail == 'full' or (detail == 'conn' and ev[0] in _CONN_EVENTS):
                    self.states.add(hv)
            self.states.add(hash((hv, repr(outcome))))
            self.transitions += len(world.log)
        else:
            self.states.add(h64('root', root, outcome))
            self.transitions += 1
        if outcome is not None:
            self.outcomes[outcome] += 1
        if nontrivial is not None:
            self.nontrivial.add(hash(repr(nontrivial)))

    def sample(self, s, cap=12):
        if len(self.samples) < cap:
            self.samples.append(s)

    def violation(self, sig, detail, replay=None):
        self.violations.append({'sig': sig, 'detail': detail, 'replay': replay})

    def merge(self, o):
        self.evaluations += o.evaluations
        self.transitions += o.transitions
        self.states |= o.states
        self.nontrivial |= o.nontrivial
        self.outcomes.update(o.outcomes)
        for s in o.samples:
            self.sample(s)
        self.violations.extend(o.violations)
        self.harness_errors.extend(o.harness_errors)
        self.extra.update(o.extra)
        self.caps.extend(o.caps)
        return self


def load_known():
    try:
        with open(KNOWN_FILE) as f:
            return json.load(f)
    except FileNotFoundError:
        return {'findings': [], 'fixed': []}


def write_replay(pid, violation):
    d = os.path.join(REPLAY_DIR, pid)
    os.makedirs(d, exist_ok=True)
    body = json.dumps(violation, sort_keys=True, default=repr, indent=1)
    name = hashlib.sha1(body.encode()).hexdigest()[:12] + '.json'
    path = os.path.join(d, name)
    with open(path, 'w') as f:
        f.write(body)
    return path


def finish(pid, tier, seed, stats, t0, rule, assumptions, exhaustive=True, traces_validated=0, extra=None,
           max_report=20):
    """Classify violations against known findings, write evidence, print verdict lines.  Returns exit status."""
    known = [k for k in load_known().get('findings', []) if k.get('property') == pid]
    known_hit = collections.OrderedDict()
    fresh = collections.OrderedDict()
    for v in stats.violations:
        k = next((k for k in known if k['signature'] == v['sig']), None)
        if k is not None:
            known_hit.setdefault(v['sig'], [k, 0])
            known_hit[v['sig']][1] += 1
        else:
            fresh.setdefault(v['sig'], []).append(v)
    for sig, (k, n) in known_hit.items():
        print('KNOWN-FINDING: property=%s %s [signature %s, %d occurrences this run]' % (pid, k.get('what', ''), sig, n))
    if os.environ.get('VERIF_LIST'):
        for sig, vs in sorted(fresh.items()):
            print('SIG %5d %s' % (len(vs), sig))
        max_report = 0
    reported = 0
    for sig, vs in fresh.items():
        if reported >= max_report:
            break
        path = write_replay(pid, vs[0])
        print('VIOLATION property=%s replay=%s' % (pid, path))
        print('  signature: %s (%d occurrences)' % (sig, len(vs)))
        d = vs[0]['detail']
        print('  detail: %s' % (d if isinstance(d, str) else json.dumps(d, default=repr))[:1500])
        reported += 1
    if TOOL_THREADS_CAP in stats.caps:
        print('LIMIT: property=%s %s' % (pid, TOOL_THREADS_CAP))
    for he in stats.harness_errors[:10]:
        print('HARNESS-ERROR: property=%s %s' % (pid, he))
    cov = {
        'states': max(1, len(stats.states)),
        'transitions': max(1, stats.transitions),
        'traces_validated_against_impl': traces_validated,
        'samples': stats.samples[:12] or ['(no samples recorded)'],
        'evaluations': stats.evaluations,
        'distinct_nontrivial': len(stats.nontrivial),
        'rule': rule,
        'exhaustive': bool(exhaustive and not stats.caps),
        'distinct_outcomes': len(stats.outcomes),
        'outcome_histogram': dict(collections.Counter({str(k): v for k, v in stats.outcomes.most_common(25)})),
        'caps_hit': sorted(set(stats.caps)),
        'known_findings_seen': {sig: n for sig, (k, n) in known_hit.items()},
        'harness_errors': len(stats.harness_errors),
    }
    for k, v in stats.extra.items():
        cov.setdefault('counters', {})[k] = v
    if extra:
        cov.update(extra)
    ev = {'property_id': pid, 'tier': tier, 'seed': int(seed), 'level': 'model_checking', 'coverage': cov,
          'assumptions': assumptions, 'wall_s': round(time.time() - t0, 3), 'violations': len(fresh)}
    os.makedirs(EVIDENCE_DIR, exist_ok=True)
    with open(os.path.join(EVIDENCE_DIR, pid + '.json'), 'w') as f:
        json.dump(ev, f, indent=1, sort_keys=True, default=repr)
    print('%s %s: executions=%d states=%d transitions=%d distinct_outcomes=%d nontrivial=%d violations=%d known=%d wall=%.1fs' % (
        pid, tier, stats.evaluations, len(stats.states), stats.transitions, len(stats.outcomes), len(stats.nontrivial),
        len(fresh), len(known_hit), time.time() - t0))
    if stats.harness_errors:
        return 2
    return 1 if fresh else 0
