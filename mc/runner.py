"""Run the real CLI (ssh-audit.py via runpy) in-process inside a virtual World."""
import copy
import importlib
import io
import os
import runpy
import signal
import sys
import threading
import types

from . import vnet

REPO = os.environ.get('VERIF_REPO', '/repo')
_SRC = os.path.join(REPO, 'src')
if _SRC not in sys.path:
    sys.path.insert(0, _SRC)

MODNAMES = ['algorithm', 'algorithms', 'auditconf', 'banner', 'builtin_policies', 'dheat', 'exitcodes', 'fingerprint',
            'gextest', 'globals', 'hostkeytest', 'kexdh', 'outputbuffer', 'policy', 'product', 'protocol', 'readbuf',
            'software', 'ssh1', 'ssh1_crc32', 'ssh1_kexdb', 'ssh1_publickeymessage', 'ssh2_kex', 'ssh2_kexdb',
            'ssh2_kexparty', 'ssh_audit', 'ssh_socket', 'timeframe', 'utils', 'writebuf']

M = {}
for _n in MODNAMES:
    M[_n] = importlib.import_module('ssh_audit.' + _n)
_f = os.path.realpath(M['ssh_audit'].__file__)
if not _f.startswith(os.path.realpath(_SRC) + os.sep):
    raise vnet.HarnessError('ssh_audit imported from %s, expected under %s' % (_f, _SRC))
vnet.install(M)
from . import sched as _sched  # noqa: E402
_sched.install(M)

ENTRY = os.path.join(REPO, 'ssh-audit.py')
_ENTRY_CODE = None

# CPU watchdog: the operation budget sees every loop that waits on the peer, but not a computation that never comes back to the
# environment (a regular expression that backtracks for ever on peer-chosen text, a loop over a peer-chosen count).  Process CPU
# time (ITIMER_VIRTUAL), not wall time, so that a loaded machine cannot turn a slow execution into a verdict; an ordinary audit
# uses a few milliseconds.  Only the process's main thread can be interrupted this way; gate-scheduled runs are not covered.
CPU_LIMIT_S = float(os.environ.get('VERIF_CPU_LIMIT', '30'))


def _cpu_alarm(signum, frame):
    raise vnet.Hang('cpu budget of %.0f s exhausted without returning to the environment (at %s:%d)'
                    % (CPU_LIMIT_S, frame.f_code.co_filename if frame else '?', frame.f_lineno if frame else 0))

_BASIC = (str, int, float, bool, bytes, type(None), list, dict, set, tuple)


def _is_plain(v, depth=0):
    if isinstance(v, (str, int, float, bool, bytes, type(None))):
        return True
    if depth > 6:
        return False
    if isinstance(v, (list, tuple, set)):
        return all(_is_plain(x, depth + 1) for x in v)
    if isinstance(v, dict):
        return all(_is_plain(k, depth + 1) and _is_plain(x, depth + 1) for k, x in v.items())
    return False


def _state_slots():
    """Yield (owner, name) for every plain-data module-level and class-level attribute, and mutable defaults."""
    for mn, mod in M.items():
        for name, v in list(vars(mod).items()):
            if name.startswith('__') or isinstance(v, (types.ModuleType, type, types.FunctionType)):
                continue
            if _is_plain(v):
                yield ('mod', mod, name)
        for cname, cls in list(vars(mod).items()):
            if isinstance(cls, type) and cls.__module__ == mod.__name__:
                for name, v in list(vars(cls).items()):
                    if name.startswith('__'):
                        continue
                    if _is_plain(v):
                        yield ('cls', cls, name)
                    f = v.__func__ if isinstance(v, (staticmethod, classmethod)) else v
                    if isinstance(f, types.FunctionType) and f.__defaults__:
                        if any(isinstance(d, (list, dict, set)) for d in f.__defaults__):
                            yield ('defaults', f, '__defaults__')
        for name, f in list(vars(mod).items()):
            if isinstance(f, types.FunctionType) and f.__module__ == mod.__name__ and f.__defaults__:
                if any(isinstance(d, (list, dict, set)) for d in f.__defaults__):
                    yield ('defaults', f, '__defaults__')


_SNAP = []
for _kind, _owner, _name in _state_slots():
    _SNAP.append((_kind, _owner, _name, copy.deepcopy(getattr(_owner, _name))))


def _slot_label(kind, owner, name):
    if kind == 'mod':
        return '%s.%s' % (owner.__name__, name)
    if kind == 'cls':
        return '%s.%s.%s' % (owner.__module__, owner.__name__, name)
    return '%s.%s.__defaults__' % (owner.__module__, owner.__qualname__)


def state_diff():
    """Labels of process-wide state slots whose value differs from the import-time snapshot."""
    out = []
    for kind, owner, name, snap in _SNAP:
        live = getattr(owner, name)
        if live != snap:
            out.append(_slot_label(kind, owner, name))
    return out


def _clear_function_caches():
    """functools.lru_cache / cache on functions and methods of the audited modules: a fresh process starts with empty ones.  (Without this a
    memo that survives from one *invocation* to the next inside a long-lived worker would look like a defect of the tool.)"""
    for mod in M.values():
        for v in list(vars(mod).values()):
            owners = [v]
            if isinstance(v, type) and v.__module__ == mod.__name__:
                owners = [getattr(x, '__func__', x) for x in vars(v).values()]
            for f in owners:
                cc = getattr(f, 'cache_clear', None)
                if callable(cc):
                    try:
                        cc()
                    except Exception:
                        pass


def reset_state():
    _clear_function_caches()
    for kind, owner, name, snap in _SNAP:
        live = getattr(owner, name)
        if live == snap:
            continue
        if kind == 'defaults':
            for lv, sv in zip(live, snap):
                if isinstance(lv, list):
                    lv[:] = copy.deepcopy(sv)
                elif isinstance(lv, (dict, set)):
                    lv.clear()
                    lv.update(copy.deepcopy(sv))
            continue
        if isinstance(live, list) and isinstance(snap, list):
            live[:] = copy.deepcopy(snap)
        elif isinstance(live, dict) and isinstance(snap, dict):
            live.clear()
            live.update(copy.deepcopy(snap))
        elif isinstance(live, set) and isinstance(snap, set):
            live.clear()
            live.update(snap)
        else:
            setattr(owner, name, copy.deepcopy(snap))


class Result:
    def __init__(self):
        self.hang = None
        self.exc = None

    def brief(self):
        return {'argv': self.argv, 'status': self.status, 'hang': self.hang, 'exc': self.exc,
                'stdout_head': self.stdout[:400]}


def norm_status(code):
    if code is None:
        return 0
    if isinstance(code, int):
        return code & 0xff
    return 1


def run_cli(argv, world=None, env=None, files=None, reset=True, keep_state=False, stdout_mode='capture'):
    """One CLI invocation.  argv excludes the program name.
    stdout_mode: 'capture' (text captured as is), 'closed' (the process was started with stdout and stderr closed: sys.stdout is None),
    'ascii' (stdout is a strict ASCII text stream, as under LANG=C / PYTHONIOENCODING=ascii)."""
    global _ENTRY_CODE
    if world is None:
        world = vnet.World()
    if reset:
        reset_state()
    _sched.reset_locks()          # a lock still held when an invocation ends dies with the process
    vnet.set_world(world)
    res = Result()
    res.argv = list(argv)
    old = (sys.argv, sys.stdout, sys.stderr)
    old_path = list(sys.path)
    old_env = dict(os.environ)
    out, err = io.StringIO(), io.StringIO()
    raw = None
    if stdout_mode == 'closed':
        out, err = None, None
    elif stdout_mode == 'ascii':
        raw = io.BytesIO()
        out = io.TextIOWrapper(raw, encoding='ascii', errors='strict', newline='', write_through=True)
    sys.argv = [ENTRY] + list(argv)
    sys.stdout, sys.stderr = out, err
    os.environ.pop('NO_COLOR', None)
    if env:
        os.environ.update(env)
    status = None
    armed = False
    if CPU_LIMIT_S > 0 and threading.current_thread() is threading.main_thread():
        signal.signal(signal.SIGVTALRM, _cpu_alarm)
        signal.setitimer(signal.ITIMER_VIRTUAL, CPU_LIMIT_S)
        armed = True
    try:
        if _ENTRY_CODE is None:
            with open(ENTRY, 'rb') as f:
                _ENTRY_CODE = compile(f.read(), ENTRY, 'exec')
        g = {'__name__': '__main__', '__file__': ENTRY, '__builtins__': __builtins__}
        try:
            exec(_ENTRY_CODE, g)
            status = 0
        except SystemExit as e:
            status = norm_status(e.code)
        except vnet.Hang as e:
            res.hang = str(e)
            status = -999
        except vnet.HarnessError:
            raise
        except _sched.DeadlockDetected as e:
            res.hang = 'deadlock: %s' % e
            status = -999
        except BaseException as e:   # an exception that escaped the CLI's own catch-all
            res.exc = '%s: %s' % (type(e).__name__, e)
            status = 1 if isinstance(e, KeyboardInterrupt) else -998
    finally:
        if armed:
            signal.setitimer(signal.ITIMER_VIRTUAL, 0)
        sys.argv, sys.stdout, sys.stderr = old
        sys.path[:] = old_path
        os.environ.clear()
        os.environ.update(old_env)
    res.status = status
    if stdout_mode == 'closed':
        res.stdout, res.stderr = '', ''
    elif stdout_mode == 'ascii':
        res.stdout = raw.getvalue().decode('ascii', 'replace')
        res.stderr = err.getvalue()
    else:
        res.stdout = out.getvalue()
        res.stderr = err.getvalue()
    res.world = world
    dl = getattr(world, 'deadlock', None) or (getattr(world.sched, 'deadlock', None) if getattr(world, 'sched', None) is not None else None)
    if dl and not res.hang:
        res.hang = 'deadlock: %s' % (dl,)
    res.clock = world.max_clock()
    res.ops = world.ops
    res.state_diff = state_diff()
    return res


def main_thread_cleanup():
    """Drop this thread's private DB copies (what process exit does for a real invocation)."""
    M['ssh2_kexdb'].SSH2_KexDB.DB_PER_THREAD.clear()
    M['ssh1_kexdb'].SSH1_KexDB.DB_PER_THREAD.clear()
