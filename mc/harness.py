"""Convenience layer shared by the property drivers."""
import copy
import json
import os
import socket

from . import peer, report, runner, vnet, wire

HOST = 'h1'
IP = '10.0.0.1'


def master_db():
    return runner.M['ssh2_kexdb'].SSH2_KexDB.MASTER_DB


def ssh1_db():
    return runner.M['ssh1_kexdb'].SSH1_KexDB.MASTER_DB


def db_names(cat):
    return list(master_db()[cat].keys())


def db_levels(cat, name):
    """(n_fail, n_warn, n_info) of the static DB entry."""
    e = master_db()[cat][name]
    return tuple(len([x for x in (e[i] if len(e) > i else []) if x is not None]) for i in (1, 2, 3))


def gss_base_names():
    return [n for n in db_names('kex') if n.startswith('gss-') and n.endswith('-*')]


def world_for(server, port=22, host=HOST, ip=IP, **kw):
    fam = socket.AF_INET6 if ':' in ip else socket.AF_INET
    return vnet.World(servers={(ip, port): server}, resolver={host: [(int(fam), ip)]}, **kw)


def audit(server, opts=('-n', '--skip-rate-test'), host=HOST, port=22, faults=None, world_kw=None, target=None, via_targets_file=False, stdout_mode='capture'):
    w = world_for(server, port=port, host=host, faults=faults, **(world_kw or {}))
    tgt = target if target is not None else (host if port == 22 else '%s:%d' % (host, port))
    if via_targets_file:      # the same single target as the only line of a -T file (the multi-target code path)
        path = tmp_path('single-target-%d.txt' % os.getpid())
        with open(path, 'w') as f:
            f.write(tgt + '\n')
        return runner.run_cli(list(opts) + ['-T', path, '--threads', '1'], w, stdout_mode=stdout_mode)
    return runner.run_cli(list(opts) + [tgt], w, stdout_mode=stdout_mode)


def client_audit(client, opts=('-n',), port=2222, world_kw=None, faults=None):
    w = vnet.World(clients=[client], faults=faults, **(world_kw or {}))
    argv = ['-c'] + list(opts)
    if port != 2222:
        argv += ['-p', str(port)]
    return runner.run_cli(argv, w)


def lookup(names, opts=('-n',)):
    return runner.run_cli(list(opts) + ['--lookup', ','.join(names)], vnet.World())


def text(res):
    return report.TextReport(res.stdout)


def brief(res, n=600):
    return {'argv': res.argv, 'status': res.status, 'hang': res.hang, 'exc': res.exc, 'stdout': res.stdout[:n],
            'stderr': res.stderr[:200]}


def tmp_path(name):
    """Scratch file private to this process, below a per-run directory that mc/main.py removes at exit."""
    root = os.environ.get('VERIF_TMP_ROOT') or '/tmp/verif-run-%d' % os.getpid()
    d = os.path.join(root, str(os.getpid()))
    os.makedirs(d, exist_ok=True)
    return os.path.join(d, name)


def pick(items, seed, n):
    """Deterministic seed-selected sample (order-independent)."""
    import hashlib
    items = list(items)
    if len(items) <= n:
        return items
    keyed = sorted(range(len(items)), key=lambda i: hashlib.sha1(('%d:%d' % (seed, i)).encode()).digest())
    return [items[i] for i in sorted(keyed[:n])]


def validate_traces(cases, stats, threads=8):
    """Replay cases on real loopback TCP + subprocess CLI (mc/realnet.py).  Returns the number of traces that agreed."""
    from . import realnet
    if os.environ.get('VERIF_NO_REALNET'):
        return 0
    agree, mism, skipped = realnet.validate_many(cases, threads=threads)
    stats.extra['traces_replayed_on_real_tcp'] += agree + len(mism)
    stats.extra['traces_not_reproducible_on_loopback'] += skipped
    for m in mism[:5]:
        # a disagreement means the environment model is wrong for this trace: reported, never turned into a property verdict
        print('TRACE-VALIDATION-MISMATCH: %s' % json.dumps(m, default=repr)[:900])
    stats.extra['trace_validation_mismatches'] += len(mism)
    return agree


def validate_multi_traces(cases, stats):
    """cases: list of (makers, extra_opts, threads).  Sequential (each spawns its own subprocess)."""
    from . import realnet
    if os.environ.get('VERIF_NO_REALNET'):
        return 0
    agree = 0
    for makers, opts, threads in cases:
        ok, info = realnet.validate_multi(makers, opts, threads)
        if not ok:
            ok, info = realnet.validate_multi(makers, opts, threads)
        stats.extra['traces_replayed_on_real_tcp'] += 1
        if ok:
            agree += 1
        else:
            stats.extra['trace_validation_mismatches'] += 1
            print('TRACE-VALIDATION-MISMATCH: %s' % json.dumps(info, default=repr)[:900])
    return agree


def db_version(desc):
    """Independent decoder of a version descriptor of the rating database (README / ssh2_kexdb.py header): an optional trailing 'C'
    marks a client-side version; prefix 'd' = Dropbear SSH, 'l1' = libssh, none = OpenSSH.  -> (product, version, is_client)"""
    is_client = desc.endswith('C')
    if is_client:
        desc = desc[:-1]
    if desc.startswith('d'):
        return 'Dropbear SSH', desc[1:], is_client
    if desc.startswith('l1'):
        return 'libssh', desc[2:], is_client
    return 'OpenSSH', desc, is_client


def audit_sequence(servers, opts=('-n', '--skip-rate-test'), threads=1, ports=None, hosts=None, lines=None):
    """Several targets in ONE invocation (-T file, one worker thread => list order).  -> (result, per-target outputs)
    Per-target outputs are text blocks, or JSON elements when -j is among the options."""
    from . import report as _r
    servers = list(servers)
    resolver, smap = {}, {}
    file_lines, lines = lines, []
    labels = []
    for i, s in enumerate(servers):
        h = hosts[i] if hosts else 'seq%d.example' % i
        ip = '10.9.%d.1' % (hash(h) % 200)
        ip = resolver[h][0][1] if h in resolver else '10.9.%d.1' % (len(resolver) + 1)
        port = ports[i] if ports else 22
        resolver[h] = [(int(socket.AF_INET), ip)]
        smap[(ip, port)] = s
        lines.append(h if port == 22 else '%s:%d' % (h, port))
        labels.append('%s:%d' % (h, port))
    w = vnet.World(servers=smap, resolver=resolver)
    path = tmp_path('sequence-%d.txt' % os.getpid())
    if file_lines is not None:
        lines = list(file_lines)       # the targets as the caller wants them written (e.g. without the port the -p option supplies)
    with open(path, 'w') as f:
        f.write(''.join(l + '\n' for l in lines))
    # under the gate scheduler (default, non-preemptive schedule): with free-running worker threads the order in which the tool
    # collects and prints finished targets would depend on OS scheduling
    from . import sched as _sched
    res, _s = _sched.run_scheduled(runner.run_cli, list(opts) + ['-T', path, '--threads', str(threads)], w, (), ('connect',))
    outs = None
    if '-j' in opts or '-jj' in opts:
        try:
            outs = json.loads(res.stdout)
        except ValueError:
            outs = None
    else:
        outs = _r.split_targets(res.stdout)
    return res, _in_list_order(outs, labels)


def _in_list_order(outs, labels):
    """The tool prints results in *completion* order (futures that are already done when the collecting loop starts come out of a set,
    in no particular order), so results are matched to targets by the label they carry, not by position.  Falls back to the printed
    order when labels are missing or ambiguous (e.g. the same target listed twice)."""
    import re
    if not isinstance(outs, list) or len(outs) != len(labels) or len(set(labels)) != len(labels):
        return outs
    found = {}
    for o in outs:
        if isinstance(o, dict):
            lab = o.get('target') or o.get('host')
        else:
            m = re.search(r'^(?:\x1b\[[0-9;]*m)?(?:\(gen\) target: |Host:\s+)(\S+?)(?:\x1b\[[0-9;]*m)?\s*$', o, re.M)
            lab = m.group(1) if m else None
        if lab is not None and ':' not in lab:
            lab += ':22'          # the text report leaves the default port out
        if lab is None or lab in found:
            return outs
        found[lab] = o
    if set(found) != set(labels):
        return outs
    return [found[l] for l in labels]
