"""Deterministic virtual environment: sockets, resolver, select, clock, randomness.

The tool under test reaches the outside only through module-level names `socket`,
`select`, `time`, `random`, `os.urandom`.  `install()` replaces those names inside the
ssh_audit modules by facades bound to the *current world* (a `World` instance).
"""
import collections
import errno
import ipaddress
import os as _os
import random as _random
import select as _select
import socket as _socket
import threading
import time as _time
import weakref


class Hang(BaseException):
    """Operation budget exhausted: the execution is considered hung / live-locked."""


class HarnessError(BaseException):
    """The harness itself is inconsistent (never a property verdict)."""


EOF = 'EOF'
RST = 'RST'
AGAIN = 'AGAIN'       # one receive call is answered with EAGAIN (a signal interrupted the wait, a spurious wake-up): nothing is lost, the data follows

_current = None           # the active World
_tls = threading.local()


def current():
    return _current


def set_world(w):
    global _current
    _current = w
    from . import wire as _wire
    _wire.EXTRA_PADDING = getattr(w, 'pad_extra', 0) if w is not None else 0


class World:
    def __init__(self, servers=None, resolver=None, clients=None, faults=None, budget=20000,
                 coalesce=False, segment=0, select_latency=0.01, pad_extra=0):
        self.servers = servers or {}       # (ip, port) -> server object with .accept(world, vsock) -> conn or raises
        self.resolver = resolver or {}     # host -> [(family, ip)] | Exception | callable(host, port, family)
        self.clients = list(clients or []) # scripted clients for client audits (objects with .connect(world, listener))
        self.faults = faults or {}         # site key -> fault tuple
        self.budget = budget
        self.coalesce = coalesce
        self.segment = segment
        self.pad_extra = pad_extra         # the peers' SSH-2 packets carry this much more random padding than the minimum (a multiple of 8; RFC 4253 allows up to 255 bytes)
        self.select_latency = select_latency
        self.ops = 0
        self.log = []                      # flat event log
        self.conns = []                    # one ConnRec per connection attempt (in order)
        self._sockets = []                 # weak references to every VSocket created (the tool's references decide their lifetime)
        self.nsockets = 0
        self.sites = []                    # fault sites seen (dicts)
        self.sched = None
        self.lock = threading.Lock()
        self._next_fd = 100
        self.clocks = {}
        self.listeners = {}
        self.resolves = []
        self.urandom_ctr = 0

    # -- bookkeeping
    def tick(self, what=''):
        self.ops += 1
        if self.ops > self.budget:
            raise Hang('operation budget %d exhausted at %s' % (self.budget, what))

    def gate(self, kind):
        if self.sched is not None:
            self.sched.gate(kind)

    @property
    def clock(self):
        return self.clocks.get(threading.get_ident(), 0.0)

    def advance(self, dt):
        k = threading.get_ident()
        self.clocks[k] = self.clocks.get(k, 0.0) + dt

    def max_clock(self):
        return max(self.clocks.values()) if self.clocks else 0.0

    def event(self, *ev):
        self.log.append(ev)

    def new_fd(self):
        with self.lock:
            self._next_fd += 1
            return self._next_fd

    def fault_for(self, key):
        return self.faults.get(key)

    # -- resolver
    def resolve(self, host, port, family, socktype):
        self.tick('getaddrinfo')
        self.gate('resolve')
        self.resolves.append((host, port, int(family), threading.get_ident()))
        self.event('resolve', host, port, int(family))
        ans = self.resolver.get(host, None)
        if callable(ans):
            ans = ans(host, port, family)
        if ans is None:
            try:
                ip = ipaddress.ip_address(host)
                ans = [(_socket.AF_INET if ip.version == 4 else _socket.AF_INET6, host)]
            except ValueError:
                ans = _socket.gaierror(-2, 'Name or service not known')
        if isinstance(ans, BaseException):
            raise ans
        out = []
        for fam, ip in ans:
            if family not in (0, fam):
                continue
            if fam == _socket.AF_INET6:
                out.append((_socket.AF_INET6, _socket.SOCK_STREAM, 6, '', (ip, port, 0, 0)))
            else:
                out.append((_socket.AF_INET, _socket.SOCK_STREAM, 6, '', (ip, port)))
        if not out and family != 0 and ans:
            raise _socket.gaierror(-9, 'Address family for hostname not supported')
        return out

    @property
    def sockets(self):
        return [s for s in (r() for r in self._sockets) if s is not None]

    def open_socket_count(self):
        return sum(1 for s in self.sockets if not s.closed)


class ConnRec:
    """What the environment saw of one connection attempt (kept after the socket object is gone)."""
    __slots__ = ('fd', 'family', 'addr', 'blocking', 'sent', 'established', 'conn_index')

    def __init__(self, sock, addr):
        self.fd = sock.fd
        self.family = sock.family
        self.addr = addr
        self.blocking = sock.blocking
        self.sent = sock.sent
        self.established = False


class VSocket:
    def __init__(self, world, family, stype):
        self.world = world
        self.family = family
        self.fd = world.new_fd()
        self.timeout = None
        self.blocking = True
        self.closed = False
        self.conn = None            # peer connection object once connected
        self.addr = None
        self.connect_result = None
        self.listening = False
        self.bound = None
        self.sent = bytearray()
        self.pending_accept = collections.deque()
        self.connect_error_pending = None
        world._sockets.append(weakref.ref(self))
        world.nsockets += 1
        world.event('socket', self.fd, int(family))

    def __del__(self):
        # a socket object that is garbage collected is closed by the interpreter
        try:
            if not self.closed:
                self.closed = True
                self.world.event('close', self.fd, 'gc')
                if self.conn is not None:
                    self.conn.tool_closed()
        except Exception:
            pass

    # -- options
    def settimeout(self, t):
        self.timeout = t
        self.blocking = t is None or t > 0

    def gettimeout(self):
        return self.timeout

    def setblocking(self, b):
        self.blocking = bool(b)
        self.timeout = None if b else 0.0

    def setsockopt(self, *a):
        pass

    def fileno(self):
        return -1 if self.closed else self.fd

    def __hash__(self):
        return id(self)

    def __eq__(self, o):
        return self is o

    # -- client side
    def _do_connect(self, addr):
        w = self.world
        w.tick('connect')
        w.gate('connect')
        if self.closed:
            raise OSError(errno.EBADF, 'Bad file descriptor')
        self.addr = addr
        ip, port = addr[0], addr[1]
        self.rec = ConnRec(self, addr)
        w.conns.append(self.rec)
        self.conn_index = self.rec.conn_index = len(w.conns) - 1
        srv = w.servers.get((ip, port))
        w.event('connect', self.fd, ip, port, int(self.family))
        if srv is None:
            return errno.ECONNREFUSED
        res = srv.accept(w, self)          # returns a conn object, or an errno int, or 'timeout'
        if isinstance(res, int):
            return res
        if res == 'timeout':
            return 'timeout'
        self.conn = res
        self.rec.established = True
        w.event('established', self.fd)
        return 0

    def connect(self, addr):
        r = self._do_connect(addr)
        if r == 0:
            return None
        if r == 'timeout':
            if self.timeout:
                self.world.advance(self.timeout)
                raise _socket.timeout('timed out')
            raise Hang('blocking connect with no timeout never completes')
        raise OSError(r, _os.strerror(r))

    def connect_ex(self, addr):
        r = self._do_connect(addr)
        if r == 0:
            return 0 if self.blocking else errno.EINPROGRESS
        if r == 'timeout':
            if not self.blocking:
                self.conn = None
                self.never_completes = True
                return errno.EINPROGRESS
            self.world.advance(self.timeout or 0)
            return errno.ETIMEDOUT
        if isinstance(r, int) and not self.blocking and getattr(self.world.servers.get((addr[0], addr[1])), 'async_refuse', False):
            self.connect_error_pending = r
            return errno.EINPROGRESS
        return r

    def send(self, data):
        w = self.world
        w.tick('send')
        if self.closed:
            raise OSError(errno.EBADF, 'Bad file descriptor')
        if self.conn is None:
            raise OSError(errno.EPIPE, 'Broken pipe')
        self.sent += data
        w.event('send', self.fd, len(data))
        return self.conn.from_tool(bytes(data))

    sendall = send

    def recv(self, size, flags=0):
        w = self.world
        w.tick('recv')
        w.gate('recv')
        if self.closed:
            raise OSError(errno.EBADF, 'Bad file descriptor')
        if self.connect_error_pending is not None:
            e = self.connect_error_pending
            self.connect_error_pending = None
            raise OSError(e, _os.strerror(e))      # maps to ConnectionRefusedError etc. by errno; EHOSTUNREACH stays a plain OSError
        if self.conn is None:
            if getattr(self, 'never_completes', False):
                if not self.blocking:
                    raise BlockingIOError(errno.EAGAIN, 'Resource temporarily unavailable')
            raise OSError(errno.ENOTCONN, 'Transport endpoint is not connected')
        r = self.conn.to_tool(size)
        while isinstance(r, tuple) and r and r[0] == 'delay':
            # the next bytes are d (virtual) seconds away
            d = r[1]
            if d == 'timeout':      # at the very moment the timeout this receive call waits under runs out (still in time)
                d = self.timeout if (self.blocking and self.timeout) else 0.0
            if not self.blocking:
                self.conn.pop_delay()
                w.advance(d)
                raise BlockingIOError(errno.EAGAIN, 'Resource temporarily unavailable')
            if self.timeout is None or d <= self.timeout:
                w.advance(d)
                self.conn.pop_delay()
                r = self.conn.to_tool(size)
                continue
            w.advance(self.timeout)
            self.conn.reduce_delay(self.timeout)
            w.event('recv-timeout', self.fd)
            raise _socket.timeout('timed out')
        if r is None:
            if not self.blocking:
                raise BlockingIOError(errno.EAGAIN, 'Resource temporarily unavailable')
            if self.timeout is None:
                raise Hang('blocking recv with no timeout on a silent peer')
            w.advance(self.timeout)
            w.event('recv-timeout', self.fd)
            raise _socket.timeout('timed out')
        if r is AGAIN:
            w.event('recv-again', self.fd)
            raise BlockingIOError(errno.EAGAIN, 'Resource temporarily unavailable')
        if r is RST:
            w.event('recv-rst', self.fd)
            self.saw_rst = True
            raise ConnectionResetError(errno.ECONNRESET, 'Connection reset by peer')
        w.event('recv', self.fd, len(r))
        return r

    def readable(self):
        if self.closed:
            return False
        if self.listening:
            return len(self.pending_accept) > 0
        if self.connect_error_pending is not None:
            return True
        if self.conn is None:
            return False
        return self.conn.has_pending()

    def shutdown(self, how):
        self.world.tick('shutdown')
        if self.closed:
            raise OSError(errno.EBADF, 'Bad file descriptor')
        if self.conn is None and not self.listening:
            raise OSError(errno.ENOTCONN, 'Transport endpoint is not connected')
        if self.conn is not None:
            # a connection the peer has aborted is in state CLOSE as soon as the RST has arrived, read or not: Linux answers ENOTCONN
            out = getattr(self.conn, 'out', None)
            if getattr(self, 'saw_rst', False) or (out and out[0] is RST):
                self.world.event('peer-reset-seen', self.fd)
                raise OSError(errno.ENOTCONN, 'Transport endpoint is not connected')
            self.conn.tool_closed()

    def close(self):
        if not self.closed:
            self.closed = True
            self.world.event('close', self.fd)
            if self.conn is not None:
                self.conn.tool_closed()

    def getpeername(self):
        if self.conn is None:
            raise OSError(errno.ENOTCONN, 'Transport endpoint is not connected')
        return self.addr

    # -- server side (client audits)
    def bind(self, addr):
        self.world.tick('bind')
        key = (int(self.family), addr[1])
        if key in self.world.listeners and not self.world.listeners[key].closed:
            raise OSError(errno.EADDRINUSE, 'Address already in use')
        if getattr(self.world, 'bind_fail', None) and int(self.family) in self.world.bind_fail:
            raise OSError(errno.EACCES, 'Permission denied')
        self.bound = addr
        self.world.listeners[key] = self
        self.world.event('bind', self.fd, addr[0], addr[1])

    def listen(self, backlog=0):
        self.listening = True
        self.world.event('listen', self.fd)

    def accept(self):
        w = self.world
        w.tick('accept')
        if not self.pending_accept:
            raise BlockingIOError(errno.EAGAIN, 'Resource temporarily unavailable')
        client = self.pending_accept.popleft()
        c = VSocket(w, self.family, _socket.SOCK_STREAM)
        c.conn = client.make_conn(w, c)
        c.addr = client.addr
        c.rec = ConnRec(c, client.addr)
        c.rec.established = True
        w.conns.append(c.rec)
        c.conn_index = c.rec.conn_index = len(w.conns) - 1
        w.event('accept', c.fd, client.addr[0], client.addr[1])
        return c, client.addr


# --------------------------------------------------------------------------- module facades
class _Facade:
    def __init__(self, real, **over):
        self.__dict__['_real'] = real
        self.__dict__.update(over)

    def __getattr__(self, n):
        return getattr(self._real, n)


def _f_socket(family=_socket.AF_INET, stype=_socket.SOCK_STREAM, proto=0, fileno=None):
    w = current()
    w.tick('socket')
    return VSocket(w, family, stype)


def _f_getaddrinfo(host, port, family=0, stype=0, proto=0, flags=0):
    return current().resolve(host, port, family, stype)


def _f_select(rl, wl, xl, timeout=None):
    w = current()
    w.tick('select')
    w.gate('select')
    # deliver pending scripted clients to listeners
    for cl in list(w.clients):
        if cl.try_connect(w):
            w.clients.remove(cl)
    by_fd = {s.fd: s for s in w.sockets if not s.closed}

    def sock_of(x):
        if isinstance(x, VSocket):
            return x
        return by_fd.get(x)
    r_ready = []
    for x in list(rl):
        s = sock_of(x)
        if s is None:
            raise ValueError('file descriptor cannot be a negative integer (-1)')
        if s.readable():
            r_ready.append(x)
    x_ready = []
    for x in list(xl):
        s = sock_of(x)
        if s is None:
            raise ValueError('file descriptor cannot be a negative integer (-1)')
    if r_ready or x_ready:
        w.advance(w.select_latency)
        return r_ready, [], x_ready
    if timeout is None:
        raise Hang('select() without timeout and nothing ready')
    w.advance(timeout)
    return [], [], []


def _f_time():
    w = current()
    w.tick('time')
    w.advance(1e-4)
    return 1.7e9 + w.clock


def _f_sleep(dt):
    w = current()
    w.tick('sleep')
    w.advance(max(dt, 0))


def _f_urandom(n):
    w = current()
    w.urandom_ctr += 1
    return bytes(((w.urandom_ctr * 37 + i) & 0xff) for i in range(n))


class _FakeSystemRandom:
    def randrange(self, a, b=None):
        if b is None:
            a, b = 0, a
        if b <= a:
            raise ValueError('empty range for randrange() (%d, %d, %d)' % (a, b, b - a))
        # the exponent is pinned to the low end, so the virtual run is cheap; remember how large a secret the tool asked for, since that
        # (times the square of the modulus size) is the work a real run would do
        try:
            w = current()
            w.max_random_range_bits = max(getattr(w, 'max_random_range_bits', 0), (b - a).bit_length())
        except Exception:
            pass
        return a

    def randint(self, a, b):
        return self.randrange(a, b + 1)

    def random(self):
        return 0.5


socket_facade = _Facade(_socket, socket=_f_socket, getaddrinfo=_f_getaddrinfo)
select_facade = _Facade(_select, select=_f_select)
def _f_monotonic():
    w = current()
    w.tick('time')
    w.advance(1e-4)
    return 1000.0 + w.clock


time_facade = _Facade(_time, time=_f_time, sleep=_f_sleep, monotonic=_f_monotonic, perf_counter=_f_monotonic)
random_facade = _Facade(_random, SystemRandom=_FakeSystemRandom)
os_facade = _Facade(_os, urandom=_f_urandom)


def install(mods):
    """mods: dict of imported ssh_audit modules by short name."""
    for name in ('ssh_socket', 'dheat'):
        m = mods[name]
        m.socket = socket_facade
        m.select = select_facade
    mods['dheat'].time = time_facade
    # any other audited module that looks at the clock does so through the virtual one as well
    import types as _types
    for m in mods.values():
        if isinstance(vars(m).get('time'), _types.ModuleType):
            m.time = time_facade
    mods['kexdh'].random = random_facade
    mods['kexdh'].os = os_facade
    mods['ssh_socket'].os = os_facade
    mods['dheat'].random = random_facade
