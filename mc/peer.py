"""Scripted peers: SSH-2 server, SSH-1 server, SSH-2 client; fault menu.

A peer connection is a generator-driven reactive machine.  The script yields requests:
   ('send', bytes, label[, tree])   emit bytes towards the tool (fault injection happens here)
   ('line',)                        wait for one line from the tool
   ('packet',)                      wait for one binary packet from the tool -> payload
   ('close',) / ('stall',) / ('reset',)
and is pumped lazily whenever the tool tries to read (or select()s).
"""
import collections
import errno
import struct

from . import wire
from .vnet import EOF, RST, AGAIN

# GEX selection styles
STRICT, ROUNDUP, OPENSSH, LENIENT, PREFER = 'strict', 'roundup', 'openssh', 'lenient', 'prefer'


class Conn:
    """One accepted connection on a scripted peer."""

    def __init__(self, world, owner, vsock, index, script):
        self.world = world
        self.owner = owner
        self.vsock = None   # (no back reference: the tool's references alone decide the socket's lifetime)
        self.index = index                 # index among this peer's connections
        self.inbuf = bytearray()
        self.raw_in = bytearray()          # everything the tool ever sent on this connection
        self.out = collections.deque()     # chunks / EOF / RST
        self.finished = False
        self.stalled = False
        self.tool_gone = False
        self.msg_counter = 0
        self.pending = None
        self.record = {'peer': owner.label, 'index': index, 'sent': [], 'events': [], 'gex_requests': [],
                       'kex_inits': 0, 'closed_by_tool': False, 'client_banner': None, 'client_kexinit': None,
                       'packets_in': []}
        owner.records.append(self.record)
        self.rst_known = False      # the peer's abort has reached the tool's sending side although received data is still unread
        self.gen = script(self)
        self._advance(None)

    # -- tool side interface
    def from_tool(self, data):
        if (self.out and self.out[0] is RST) or (self.rst_known and RST in self.out):
            raise ConnectionResetError(errno.ECONNRESET, 'Connection reset by peer')
        self.inbuf += data
        self.raw_in += data
        return len(data)

    def tool_closed(self):
        self.tool_gone = True
        self.record['closed_by_tool'] = True

    def has_pending(self):
        if not self.out:
            self.pump()
        # a delay in front of the next bytes: for select()-driven callers the wait simply passes
        while self.out and isinstance(self.out[0], tuple) and self.out[0][0] == 'delay':
            d = self.out.popleft()[1]
            self.world.advance(d if not isinstance(d, str) else 0.0)
        return bool(self.out)

    def pop_delay(self):
        self.out.popleft()

    def reduce_delay(self, dt):
        d = self.out.popleft()[1] - dt
        self.out.appendleft(('delay', d))

    def to_tool(self, size):
        if not self.out:
            self.pump()
        if not self.out:
            return None
        head = self.out[0]
        if head is EOF:
            return b''
        if head is RST:
            return RST
        if head is AGAIN:
            self.out.popleft()
            return AGAIN
        if isinstance(head, tuple) and head[0] == 'delay':
            return head
        if self.world.coalesce:
            buf = b''
            while self.out and isinstance(self.out[0], bytes) and len(buf) < size:
                c = self.out.popleft()
                take = c[:size - len(buf)]
                buf += take
                if len(take) < len(c):
                    self.out.appendleft(c[len(take):])
            return buf
        c = self.out.popleft()
        if len(c) > size:
            self.out.appendleft(c[size:])
            c = c[:size]
        return c

    # -- script driving
    def pump(self):
        if self.finished or self.stalled:
            return
        if self.pending is not None:
            v = self._try_satisfy(self.pending)
            if v is None:
                return
            self.pending = None
            self._advance(v)

    def _try_satisfy(self, req):
        if req[0] == 'line':
            i = self.inbuf.find(b'\n')
            if i < 0:
                return None
            line = bytes(self.inbuf[:i + 1])
            del self.inbuf[:i + 1]
            return line
        if req[0] == 'packet':
            r = wire.read_packet(bytes(self.inbuf))
            if r is None:
                return None
            payload, rest, info = r
            consumed = len(self.inbuf) - len(rest)
            self.record['packets_in'].append({'type': payload[0] if payload else None, 'len': consumed,
                                              'problems': info.get('problems', []), 'payload': payload})
            del self.inbuf[:consumed]
            return payload
        raise ValueError(req)

    def _advance(self, value):
        while True:
            try:
                req = self.gen.send(value)
            except StopIteration:
                self._finish(EOF)
                return
            value = None
            kind = req[0]
            if kind == 'send':
                stop = self._emit(req[1], req[2], req[3] if len(req) > 3 else None)
                if stop:
                    return
            elif kind in ('line', 'packet'):
                v = self._try_satisfy(req)
                if v is None:
                    self.pending = req
                    return
                value = v
            elif kind == 'close':
                self._finish(EOF)
                return
            elif kind == 'reset':
                self._finish(RST)
                return
            elif kind == 'reset_known':
                self._finish(RST)
                self.rst_known = True
                return
            elif kind == 'again':
                self.out.append(AGAIN)
            elif kind == 'stall':
                self.stalled = True
                self.record['events'].append('stall')
                return
            else:
                raise ValueError(req)

    def _finish(self, marker):
        self.finished = True
        self.out.append(marker)
        self.record['events'].append('close' if marker is EOF else 'reset')

    def _queue(self, data):
        if not data:
            return
        seg = self.world.segment
        if seg:
            for i in range(0, len(data), seg):
                self.out.append(data[i:i + seg])
        else:
            self.out.append(data)

    def _emit(self, data, label, tree):
        """Apply the fault planned for this site (if any).  Returns True if the script must stop."""
        key = (self.owner.label, self.index, self.msg_counter)
        self.msg_counter += 1
        site = {'key': key, 'label': label, 'len': len(data),
                'fields': wire.length_fields(tree) if tree is not None else [],
                'packet': tree is not None}
        self.world.sites.append(site)
        fault = self.world.fault_for(key)
        self.record['sent'].append((label, len(data), fault))
        if fault is None:
            self._queue(data)
            return False
        kind = fault[0]
        self.record['events'].append(('fault', key, fault))
        if kind == 'then_more':      # the message with the inner fault applied, then (in a segment of its own) a well-formed MSG_IGNORE of n data bytes:
            stop = self._emit_fault(data, site, tree, tuple(fault[1]))      # a peer that keeps talking after its malformed message
            if not stop:
                self._queue(wire.packet(wire.S([wire.Raw(bytes([2]), 'type'), wire.L(b'\x00' * fault[2], 'data')], 'ignore')))
            return stop
        return self._emit_fault(data, site, tree, fault)

    def _emit_fault(self, data, site, tree, fault):
        kind = fault[0]
        if kind == 'debug_then':     # a well-formed MSG_DEBUG first, then the message with the inner fault applied (two deviations at one site)
            self._queue(wire.packet(wire.debug_tree()))
            fault = tuple(fault[1])
            kind = fault[0]
        if kind == 'trunc_close':
            self._queue(data[:fault[1]])
            self._finish(EOF)
            return True
        if kind == 'trunc_stall':
            self._queue(data[:fault[1]])
            self.stalled = True
            return True
        if kind == 'notice_close':   # what a busy or unwilling server says instead of its identification string, then it hangs up
            self._queue(NOTICES[fault[1]] + b'\r\n')
            self._finish(EOF)
            return True
        if kind == 'reset':
            self._finish(RST)
            return True
        if kind == 'then_reset':
            # the whole message, then an abortive close that the tool's *sending* side sees at once (ECONNRESET on the next send),
            # while the bytes already received stay readable - what a TCP stack does when the RST overtakes the application
            self._queue(data)
            self._finish(RST)
            self.rst_known = True
            return True
        if kind == 'garbage':
            n, seed = fault[1], fault[2]
            x = (seed * 2654435761 + 12345) & 0xffffffff
            buf = bytearray()
            for _ in range(n):
                x = (x * 1103515245 + 12345) & 0x7fffffff
                buf.append((x >> 16) & 0xff)
            self._queue(bytes(buf))
            return False
        if kind == 'bytes':          # replace by literal bytes
            self._queue(bytes.fromhex(fault[1]))
            return False
        if kind == 'len':            # set a length field to a wrong value
            idx, mode = fault[1], fault[2]
            true = site['fields'][idx][2]
            val = mode if isinstance(mode, int) else {'zero': 0, 'minus1': true - 1, 'plus1': true + 1, 'huge31': 0x7fffffff, 'huge32': 0xffffffff}[mode]
            self._queue(wire.serialize(tree, {idx: val}))
            return False
        if kind == 'type':           # wrong message type byte (offset 5 of a packet)
            b = bytearray(data)
            b[5] = fault[1]
            self._queue(bytes(b))
            return False
        if kind == 'ssh1_drop':      # a correctly framed SSH-1 packet (length, padding, CRC all consistent) whose body lost its last k bytes
            import struct as _st
            ln = _st.unpack('>I', data[:4])[0]
            padlen = 8 - ln % 8
            body = data[4 + padlen:4 + padlen + ln - 4]
            keep = body[1:len(body) - fault[1]] if fault[1] < len(body) else b''
            self._queue(wire.serialize(wire.ssh1_packet_tree(body[0], keep)))
            return False
        if kind == 'flip':           # flip one byte
            b = bytearray(data)
            b[fault[1]] ^= fault[2]
            self._queue(bytes(b))
            return False
        if kind == 'emptypayload':   # a correctly framed packet whose payload is empty
            self._queue(bytes.fromhex('0000000c0b') + b'\x00' * 11)
            return False
        if kind == 'padoverrun':     # padding length larger than the packet length (block size still fine)
            self._queue(bytes.fromhex('0000000cc8') + b'\x00' * 11)
            return False
        if kind == 'debug':          # interleave MSG_DEBUG packets before the message
            for _ in range(fault[1]):
                self._queue(wire.packet(wire.debug_tree()))
            self._queue(data)
            return False
        if kind == 'dup':
            self._queue(data)
            self._queue(data)
            return False
        if kind == 'prelines':       # extra text lines before (only meaningful before the banner)
            for i in range(fault[1]):
                self._queue(b'extra line %d\r\n' % i)
            self._queue(data)
            return False
        if kind == 'split':
            self.out.append(data[:fault[1]])
            self.out.append(data[fault[1]:])
            return False
        if kind == 'split_again':    # the message in two segments with one receive call in between answered EAGAIN
            self.out.append(data[:fault[1]])
            self.out.append(AGAIN)
            self.out.append(data[fault[1]:])
            return False
        if kind == 'late_then':      # d seconds of silence, then the message with the inner fault applied
            self.out.append(('delay', fault[1] if fault[1] == 'timeout' else float(fault[1])))
            return self._emit_fault(data, site, tree, fault[2])
        if kind == 'late':           # the whole message after d seconds of silence
            self.out.append(('delay', fault[1]))
            self._queue(data)
            return False
        if kind == 'split_late':     # the first k bytes at once, the rest d seconds later
            self.out.append(data[:fault[1]])
            self.out.append(('delay', fault[2]))
            self.out.append(data[fault[1]:])
            return False
        if kind == 'drip':           # n pieces, each after d seconds
            n, d = fault[1], fault[2]
            step = max(1, (len(data) + n - 1) // n)
            for i in range(0, len(data), step):
                self.out.append(('delay', d))
                self.out.append(data[i:i + step])
            return False
        if kind == 'again':          # EAGAIN before the message
            for _ in range(fault[1]):
                self.out.append(AGAIN)
            self._queue(data)
            return False
        if kind == 'seg1':
            for i in range(len(data)):
                self.out.append(data[i:i + 1])
            return False
        raise ValueError('unknown fault %r' % (fault,))


def faults_for_site(site, level='full', trunc_step=1):
    """The fault menu for one emitted message."""
    n = site['len']
    out = [('trunc_close', 0), ('trunc_stall', 0), ('reset',), ('then_reset',)]
    if level == 'message':
        ks = sorted(set([1, n // 2, n - 1]) - {0, n})
    else:
        ks = range(1, n, trunc_step)
    for k in ks:
        if 0 < k < n:
            out.append(('trunc_close', k))
            out.append(('trunc_stall', k))
    for sz in (1, 7, 64):
        out.append(('garbage', sz, n))
    out.append(('dup',))
    if site['packet']:
        for idx, _name, true in site['fields']:
            for mode in ('zero', 'minus1', 'plus1', 'huge31', 'huge32'):
                if mode == 'zero' and true == 0:
                    continue        # not a deviation
                out.append(('len', idx, mode))
        for t in (0, 1, 2, 3, 21, 255):      # 3 = SSH_MSG_UNIMPLEMENTED, what a peer answers to a message it does not know
            out.append(('type', t))
        for d in (1, 2, 3):
            out.append(('debug', d))
        out.append(('emptypayload',))
        out.append(('padoverrun',))
        out.append(('debug_then', ('len', 0, 'plus1')))
        # the packet length replaced by small values that keep the block-size rule (negative payload length) while the peer keeps talking
        for small in (4, 12):
            out.append(('then_more', ('len', 0, small), 64))
        out.append(('then_more', ('padoverrun',), 256))
        out.append(('debug_then', ('emptypayload',)))
    elif site['label'] in ('banner', 'pre_banner'):
        out.append(('prelines', 1))
        out.append(('prelines', 3))
        for i in range(len(NOTICES)):
            out.append(('notice_close', i))
    elif site['label'] == 'ssh1_pubkey':
        for k in (1, 4, 8, 12, 40, 10 ** 6):
            out.append(('ssh1_drop', k))
        for off in sorted(set([0, 3, 4, n // 2, n - 5, n - 1])):
            if 0 <= off < n:
                out.append(('flip', off, 0x01))
                out.append(('flip', off, 0x80))
    if level != 'message':
        out.append(('seg1',))
        for k in range(1, n):
            out.append(('split', k))
    return out


# texts real servers (sshd, tcp wrappers, load balancers) send in place of the identification string before closing the connection
NOTICES = [b'Exceeded MaxStartups', b'Not allowed at this time', b'Too many connections', b'Protocol mismatch.', b'Invalid SSH identification string.',
           b'ssh_exchange_identification: Connection closed by remote host', b'421 Service not available, closing connection']


# --------------------------------------------------------------------------- GEX policies
class GexPolicy:
    def __init__(self, sizes, style=STRICT, g=2):
        self.sizes = sorted(sizes)
        self.style = style
        self.g = g

    def choose(self, mn, pref, mx):
        s = self.sizes
        if self.style == STRICT:
            c = [x for x in s if mn <= x <= mx]
            return c[0] if c else None
        if self.style == ROUNDUP:
            c = [x for x in s if x >= mn]
            return c[0] if c else None
        if self.style == LENIENT:
            # RFC 4419 section 3 read literally: the smallest group at least as large as the preferred size, else the largest known;
            # the requested minimum and maximum are not enforced
            c = [x for x in s if x >= pref]
            return (min(c) if c else max(s)) if s else None
        if self.style == PREFER:
            # within the requested range: the smallest group at least as large as the preferred size, else the largest one; none in range: refused
            c = [x for x in s if mn <= x <= mx]
            if not c:
                return None
            ge = [x for x in c if x >= pref]
            return min(ge) if ge else max(c)
        if self.style == OPENSSH:
            # dh.c choose_dh(): best = smallest size >= wantbits within [min,max]; else largest within range;
            # else fall back to a built-in group chosen by max.
            c = [x for x in s if mn <= x <= mx]
            if c:
                ge = [x for x in c if x >= pref]
                return min(ge) if ge else max(c)
            if mx < 3072:
                return 2048
            if mx < 6144:
                return 4096
            return 8192
        raise ValueError(self.style)


# --------------------------------------------------------------------------- server
DEFAULT_KEX = ['curve25519-sha256']
DEFAULT_KEY = ['ssh-ed25519']
DEFAULT_ENC = ['aes256-ctr']
DEFAULT_MAC = ['hmac-sha2-256']

GEX_NAMES = ('diffie-hellman-group-exchange-sha1', 'diffie-hellman-group-exchange-sha256')
RSA_FAMILY = ('ssh-rsa', 'rsa-sha2-256', 'rsa-sha2-512')


class Server:
    """A scripted SSH server bound to (ip, port) in a World."""

    def __init__(self, label='srv', banner=b'SSH-2.0-OpenSSH_9.6', pre_banner=(), kex=None, key=None,
                 enc=None, mac=None, enc_c2s=None, mac_c2s=None, comp=('none',), comp_c2s=None,
                 lang=(), host_keys=None, gex=None, ssh1=None, eager_kexinit=False, line_end=b'\r\n',
                 conn_behaviour=None, follows=0, reserved=0, async_refuse=False, kexinit_override=None,
                 versions_differ=False):
        self.label = label
        self.banner = banner
        self.pre_banner = list(pre_banner)
        self.kex = list(DEFAULT_KEX if kex is None else kex)
        self.key = list(DEFAULT_KEY if key is None else key)
        self.enc = list(DEFAULT_ENC if enc is None else enc)
        self.mac = list(DEFAULT_MAC if mac is None else mac)
        self.enc_c2s = self.enc if enc_c2s is None else list(enc_c2s)
        self.mac_c2s = self.mac if mac_c2s is None else list(mac_c2s)
        self.comp = list(comp)
        self.comp_c2s = self.comp if comp_c2s is None else list(comp_c2s)
        self.lang = list(lang)
        self.host_keys = host_keys or {}     # alg name -> blob tree
        self.gex = gex
        self.ssh1 = ssh1                     # dict(cmask, amask, host_bits) or None
        self.eager_kexinit = eager_kexinit
        self.line_end = line_end
        self.conn_behaviour = conn_behaviour  # callable(index) -> 'normal'|'refuse'|'timeout'|'silent'|'close'|'exceeded'|errno
        self.follows = follows
        self.reserved = reserved
        self.async_refuse = async_refuse
        self.kexinit_override = kexinit_override
        self.versions_differ = versions_differ   # SSH-1.99 style: answer an SSH-2 client with the text error
        self.reply_f = None                      # body of the mpint / string f of KEXDH_REPLY / GEX_REPLY (None: 32 bytes 0x07)
        self.records = []
        self.nconn = 0

    def kexinit_tree(self):
        if self.kexinit_override is not None:
            return self.kexinit_override
        return wire.kexinit_tree(self.kex, self.key, self.enc_c2s, self.enc, self.mac_c2s, self.mac,
                                 self.comp_c2s, self.comp, self.lang, self.lang, self.follows, self.reserved)

    def accept(self, world, vsock):
        idx = self.nconn
        self.nconn += 1
        beh = self.conn_behaviour(idx) if self.conn_behaviour else 'normal'
        f = world.fault_for((self.label, idx, -1))
        world.sites.append({'key': (self.label, idx, -1), 'label': 'connect', 'len': 0, 'fields': [], 'packet': False})
        if f is not None:
            beh = f[0]
        if beh == 'refuse':
            self.records.append({'peer': self.label, 'index': idx, 'refused': True, 'sent': [], 'events': ['refuse'],
                                 'gex_requests': [], 'kex_inits': 0, 'closed_by_tool': True, 'packets_in': []})
            return errno.ECONNREFUSED
        if isinstance(beh, int):
            self.records.append({'peer': self.label, 'index': idx, 'refused': True, 'sent': [], 'events': ['errno'],
                                 'gex_requests': [], 'kex_inits': 0, 'closed_by_tool': True, 'packets_in': []})
            return beh
        if beh == 'timeout':
            self.records.append({'peer': self.label, 'index': idx, 'refused': True, 'sent': [], 'events': ['timeout'],
                                 'gex_requests': [], 'kex_inits': 0, 'closed_by_tool': True, 'packets_in': []})
            return 'timeout'
        if isinstance(beh, tuple) and beh[0] == 'notice':       # one of NOTICES instead of the identification string, then closed
            text = NOTICES[beh[1]]

            def script_notice(c, text=text):
                yield ('send', text + b'\r\n', 'notice')
                yield ('close',)
            return Conn(world, self, vsock, idx, script_notice)
        script = {'normal': self.script, 'silent': self.script_silent, 'close': self.script_close,
                  'exceeded': self.script_exceeded, 'reset': self.script_reset}[beh]
        return Conn(world, self, vsock, idx, script)

    # -- scripts
    def script_silent(self, c):
        yield ('stall',)

    def script_close(self, c):
        yield ('close',)

    def script_reset(self, c):
        # accepted, then aborted (RST): the tool's next receive fails with ECONNRESET
        yield ('reset',)

    def script_exceeded(self, c):
        yield ('send', b'Exceeded MaxStartups\r\n', 'exceeded')
        yield ('close',)

    def script(self, c):
        rec = c.record
        for l in self.pre_banner:
            yield ('send', l + self.line_end, 'pre_banner')
        yield ('send', self.banner + self.line_end, 'banner')
        if self.ssh1 is not None and self.banner.startswith(b'SSH-1.') and not self.versions_differ:    # 'always': accepts no version at all
            yield from self.script_ssh1(c)
            return
        kt = None
        if self.eager_kexinit:
            kt = wire.packet_tree(self.kexinit_tree())
            yield ('send', wire.serialize(kt), 'kexinit', kt)
        line = yield ('line',)
        rec['client_banner'] = line
        if self.ssh1 is not None:
            # SSH-1.99 server: speak SSH-1 to an SSH-1 client, tell an SSH-2 client off when so configured.
            if line.startswith(b'SSH-1.') and self.versions_differ != 'always':
                yield from self.script_ssh1(c, banner_done=True)
                return
            if self.versions_differ:
                yield ('send', b'Protocol major versions differ.\n', 'versions_differ')
                yield ('close',)
                return
        if kt is None:
            kt = wire.packet_tree(self.kexinit_tree())
            yield ('send', wire.serialize(kt), 'kexinit', kt)
        payload = yield ('packet',)
        try:
            ck = wire.parse_kexinit(payload)
        except Exception:
            yield ('close',)
            return
        rec['client_kexinit'] = ck
        ckex = wire.names_of(ck['kex'])
        ckey = wire.names_of(ck['key'])
        kex_alg = next((k for k in ckex if k in self.kex), None)
        key_alg = next((k for k in ckey if self._blob_for(k) is not None), None)
        rec['negotiated'] = (kex_alg, key_alg)
        if kex_alg is None:
            yield ('close',)
            return
        while True:
            payload = yield ('packet',)
            t = payload[0] if payload else -1
            if t == wire.MSG_GEX_REQUEST and kex_alg in GEX_NAMES:
                mn, pref, mx = struct.unpack('>III', payload[1:13]) if len(payload) >= 13 else (0, 0, 0)
                # one moduli policy for every group-exchange algorithm, or a dict {algorithm: policy}
                gexp = self.gex.get(kex_alg) if isinstance(self.gex, dict) else self.gex
                bits = gexp.choose(mn, pref, mx) if gexp else None
                rec['gex_requests'].append((mn, pref, mx, bits))
                if bits is None:
                    yield ('close',)
                    return
                gt = wire.packet_tree(wire.gex_group_tree(self._gex_prime(bits), gexp.g))
                yield ('send', wire.serialize(gt), 'gex_group', gt)
            elif t == wire.MSG_GEX_INIT and kex_alg in GEX_NAMES:
                rec['kex_inits'] += 1
                blob = self._blob_for(key_alg)
                if blob is None:
                    yield ('close',)
                    return
                rt = wire.packet_tree(wire.kexdh_reply_tree(blob, wire.MSG_GEX_REPLY, **({'f': self.reply_f} if self.reply_f is not None else {})))
                yield ('send', wire.serialize(rt), 'gex_reply', rt)
            elif t == wire.MSG_KEXDH_INIT and kex_alg not in GEX_NAMES:
                rec['kex_inits'] += 1
                blob = self._blob_for(key_alg)
                if blob is None:
                    yield ('close',)
                    return
                rt = wire.packet_tree(wire.kexdh_reply_tree(blob, wire.MSG_KEXDH_REPLY, **({'f': self.reply_f} if self.reply_f is not None else {})))
                yield ('send', wire.serialize(rt), 'kexdh_reply', rt)
            else:
                yield ('close',)
                return

    def _gex_prime(self, bits):
        return wire.modulus_with_bits(bits)

    def _blob_for(self, alg):
        if alg is None:
            return None
        if alg in self.host_keys:
            return self.host_keys[alg]
        if alg in RSA_FAMILY:
            for a in RSA_FAMILY:
                if a in self.host_keys:
                    return self.host_keys[a]
        return None

    def script_ssh1(self, c, banner_done=False):
        if not banner_done:
            line = yield ('line',)
            c.record['client_banner'] = line
        p = self.ssh1
        data = wire.ssh1_pubkey_payload(p.get('cmask', 0x48), p.get('amask', 0x0c), p.get('host_bits', 1024),
                                        p.get('server_bits', 768))
        t = wire.ssh1_packet_tree(p.get('ptype', wire.SSH1_SMSG_PUBLIC_KEY), data, bad_crc=p.get('bad_crc', False))
        yield ('send', wire.serialize(t), 'ssh1_pubkey')
        while True:
            yield ('packet',)


def _ca_tree(ca, ca_bits):
    if ca == 'ed25519':
        return wire.ed25519_blob_tree(b'\x44' * 32)
    if ca == 'rsa':
        return wire.rsa_blob_tree(ca_bits)
    if ca == 'sk-ed25519':      # a FIDO security-key CA (sk-ssh-ed25519@openssh.com; legal since OpenSSH 8.2)
        return wire.sk_ed25519_blob_tree()
    if ca == 'sk-ecdsa':
        return wire.sk_ecdsa_blob_tree(256)
    if isinstance(ca, int):
        return wire.ecdsa_blob_tree(ca)
    return ca


def standard_host_keys(key_algs, rsa_bits=3072, ca='ed25519', ca_bits=3072, cert_host_bits=None, ca_by_alg=None, cert_fields=None):
    """Build host-key blobs for every algorithm in key_algs that the tool probes.  ca_by_alg {algorithm: (ca, ca_bits)} gives single
    certificates a CA of their own."""
    out = {}
    default_ca_tree = _ca_tree(ca, ca_bits)
    for a in key_algs:
        ca_tree = _ca_tree(*ca_by_alg[a]) if ca_by_alg and a in ca_by_alg else default_ca_tree
        if a in RSA_FAMILY:
            out[a] = wire.rsa_blob_tree(rsa_bits)
        elif a == 'ssh-ed25519':
            out[a] = wire.ed25519_blob_tree()
        elif a == 'ssh-ed448':
            out[a] = wire.ed448_blob_tree()
        elif a in ('ecdsa-sha2-nistp256', 'ecdsa-sha2-nistp384', 'ecdsa-sha2-nistp521'):
            out[a] = wire.ecdsa_blob_tree(int(a[len('ecdsa-sha2-nistp'):]))
        elif a == 'ssh-dss':
            out[a] = wire.dss_blob_tree()
        elif a in ('ssh-rsa-cert-v01@openssh.com', 'rsa-sha2-256-cert-v01@openssh.com', 'rsa-sha2-512-cert-v01@openssh.com'):
            out[a] = wire.rsa_cert_tree(cert_host_bits or rsa_bits, ca_tree, fields=cert_fields)
        elif a == 'ssh-ed25519-cert-v01@openssh.com':
            out[a] = wire.ed25519_cert_tree(ca_tree, fields=cert_fields)
        elif a == 'sk-ssh-ed25519@openssh.com':
            out[a] = wire.sk_ed25519_blob_tree()
        elif a == 'sk-ssh-ed25519-cert-v01@openssh.com':
            out[a] = wire.sk_ed25519_cert_tree(ca_tree)
    return out


# --------------------------------------------------------------------------- client (for -c audits)
class Client:
    def __init__(self, label='cli', banner=b'SSH-2.0-OpenSSH_9.6', kex=None, key=None, enc=None, mac=None,
                 enc_s2c=None, mac_s2c=None, comp=('none',), addr=('192.0.2.77', 40000), family=4,
                 pre_banner=(), line_end=b'\r\n'):
        self.label = label
        self.banner = banner
        self.kex = list(DEFAULT_KEX if kex is None else kex)
        self.key = list(DEFAULT_KEY if key is None else key)
        self.enc = list(DEFAULT_ENC if enc is None else enc)
        self.mac = list(DEFAULT_MAC if mac is None else mac)
        self.enc_s2c = self.enc if enc_s2c is None else list(enc_s2c)
        self.mac_s2c = self.mac if mac_s2c is None else list(mac_s2c)
        self.comp = list(comp)
        self.addr = addr
        self.family = family
        self.pre_banner = list(pre_banner)
        self.line_end = line_end
        self.records = []

    def try_connect(self, world):
        import socket as _s
        if world.clock < getattr(self, 'arrive_at', 0.0):
            return False          # the client has not dialled yet (virtual time)
        fam = int(_s.AF_INET if self.family == 4 else _s.AF_INET6)
        for (f, _port), lst in world.listeners.items():
            if f == fam and lst.listening and not lst.closed:
                lst.pending_accept.append(self)
                return True
        return False

    def make_conn(self, world, vsock):
        return Conn(world, self, vsock, 0, self.script)

    def kexinit_tree(self):
        return wire.kexinit_tree(self.kex, self.key, self.enc, self.enc_s2c, self.mac, self.mac_s2c,
                                 self.comp, self.comp)

    def script(self, c):
        for l in self.pre_banner:
            yield ('send', l + self.line_end, 'pre_banner')
        yield ('send', self.banner + self.line_end, 'banner')
        kt = wire.packet_tree(self.kexinit_tree())
        yield ('send', wire.serialize(kt), 'kexinit', kt)
        line = yield ('line',)
        c.record['client_banner'] = line
        payload = yield ('packet',)
        try:
            c.record['client_kexinit'] = wire.parse_kexinit(payload)
        except Exception:
            pass
        while True:
            yield ('packet',)
