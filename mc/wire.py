"""Independent SSH wire codec (RFC 4251 s5, RFC 4253 s6-7, RFC 4419, SSH-1.5 framing + CRC).

Nothing in here imports ssh_audit.  Messages are built as *trees* so that the fault
injector can address every length field by name and every byte offset of the
serialised form.
"""
import struct
import zlib

MSG_DEBUG = 4
MSG_KEXINIT = 20
MSG_KEXDH_INIT = 30
MSG_KEXDH_REPLY = 31
MSG_GEX_GROUP = 31
MSG_GEX_INIT = 32
MSG_GEX_REPLY = 33
MSG_GEX_REQUEST = 34
MSG_GEX_REQUEST_OLD = 30
SSH1_SMSG_PUBLIC_KEY = 2


# --------------------------------------------------------------------------- trees
class Raw:
    __slots__ = ('data', 'name')

    def __init__(self, data, name=''):
        self.data = bytes(data)
        self.name = name


class L:
    """A 4-byte big-endian length followed by the child."""
    __slots__ = ('child', 'name')

    def __init__(self, child, name=''):
        if isinstance(child, (bytes, bytearray)):
            child = Raw(child)
        self.child = child
        self.name = name


class S:
    __slots__ = ('items', 'name')

    def __init__(self, items, name=''):
        self.items = [Raw(i) if isinstance(i, (bytes, bytearray)) else i for i in items]
        self.name = name


def serialize(node, overrides=None, _ctr=None, _path=''):
    """Serialise a tree.  overrides: {length-field index (pre-order): value to write instead}."""
    if _ctr is None:
        _ctr = [0]
    if isinstance(node, Raw):
        return node.data
    if isinstance(node, S):
        return b''.join(serialize(i, overrides, _ctr) for i in node.items)
    if isinstance(node, L):
        idx = _ctr[0]
        _ctr[0] += 1
        body = serialize(node.child, overrides, _ctr)
        n = len(body)
        if overrides and idx in overrides:
            n = overrides[idx] & 0xffffffff
        return struct.pack('>I', n) + body
    raise TypeError(node)


def length_fields(node, _out=None, _prefix=''):
    """[(index, dotted name, true length)] for every L node in pre-order."""
    if _out is None:
        _out = []
    if isinstance(node, S):
        for i in node.items:
            length_fields(i, _out, _prefix)
    elif isinstance(node, L):
        idx = len(_out)
        name = (_prefix + '.' if _prefix else '') + (node.name or 'len%d' % idx)
        _out.append([idx, name, None])
        start = len(_out)
        length_fields(node.child, _out, name)
        _out[idx][2] = len(serialize(node.child))
        del start
    return _out


# --------------------------------------------------------------------------- primitives
def u32(n):
    return struct.pack('>I', n & 0xffffffff)


def u64(n):
    return struct.pack('>Q', n & 0xffffffffffffffff)


def sstring(b):
    return u32(len(b)) + b


def mpint_bytes(n):
    """RFC 4251 mpint body (two's complement, minimal, big-endian) without the length."""
    if n == 0:
        return b''
    ln = (n.bit_length() + 8) // 8 if n > 0 else ((-n - 1).bit_length() + 8) // 8
    return n.to_bytes(ln, 'big', signed=True)


def mpint(n):
    return sstring(mpint_bytes(n))


def decode_mpint_body(b):
    return int.from_bytes(b, 'big', signed=True) if b else 0


def ssh1_mpint(n):
    bits = n.bit_length()
    return struct.pack('>H', bits) + n.to_bytes((bits + 7) // 8, 'big')


def namelist_bytes(names):
    """names: list of bytes/str -> comma-joined bytes."""
    return b','.join(n if isinstance(n, bytes) else n.encode('utf-8') for n in names)


def modulus_with_bits(bits, fill=0):
    """An odd integer with exactly `bits` significant bits (deterministic)."""
    if bits <= 0:
        return 0
    if bits == 1:
        return 1
    n = (1 << (bits - 1)) | 1
    if fill and bits > 16:
        n |= ((0x5DEECE66D * (fill + 1)) & ((1 << (bits - 9)) - 1)) << 4
    return n


# --------------------------------------------------------------------------- SSH-2 messages
def kexinit_tree(kex, key, enc_c2s, enc_s2c, mac_c2s, mac_s2c, comp_c2s, comp_s2c,
                 lang_c2s=(), lang_s2c=(), follows=0, reserved=0, cookie=b'\x11' * 16):
    lists = [('kex', kex), ('key', key), ('enc_c2s', enc_c2s), ('enc_s2c', enc_s2c),
             ('mac_c2s', mac_c2s), ('mac_s2c', mac_s2c), ('comp_c2s', comp_c2s),
             ('comp_s2c', comp_s2c), ('lang_c2s', lang_c2s), ('lang_s2c', lang_s2c)]
    items = [Raw(bytes([MSG_KEXINIT]), 'type'), Raw(cookie, 'cookie')]
    for nm, v in lists:
        body = v if isinstance(v, (bytes, bytearray)) else namelist_bytes(v)
        items.append(L(Raw(body), nm))
    items.append(Raw(bytes([follows]), 'follows'))
    items.append(Raw(u32(reserved), 'reserved'))
    return S(items, 'kexinit')


def rsa_blob_tree(bits=None, n=None, e=65537, typ=b'ssh-rsa'):
    if n is None:
        n = modulus_with_bits(bits)
    return S([L(typ, 'type'), L(mpint_bytes(e), 'e'), L(mpint_bytes(n), 'n')], 'rsa_key')


def ed25519_blob_tree(pk=b'\x42' * 32, typ=b'ssh-ed25519'):
    return S([L(typ, 'type'), L(pk, 'pk')], 'ed25519_key')


def ed448_blob_tree(pk=b'\x43' * 57):
    return S([L(b'ssh-ed448', 'type'), L(pk, 'pk')], 'ed448_key')


ECDSA_FIELD_BYTES = {256: 32, 384: 48, 521: 66}


def ecdsa_blob_tree(curve=256):
    name = b'nistp%d' % curve
    flen = ECDSA_FIELD_BYTES[curve]
    q = b'\x04' + b'\x31' * flen + b'\x32' * flen
    return S([L(b'ecdsa-sha2-' + name, 'type'), L(name, 'curve'), L(q, 'Q')], 'ecdsa_key')


def sk_ecdsa_blob_tree(curve=256, app=b'ssh:'):
    # PROTOCOL.u2f: string "sk-ecdsa-sha2-nistp256@openssh.com", string curve name, ec_point Q, string application
    name = b'nistp%d' % curve
    flen = ECDSA_FIELD_BYTES[curve]
    return S([L(b'sk-ecdsa-sha2-' + name + b'@openssh.com', 'type'), L(name, 'curve'), L(b'\x04' + b'\x31' * flen + b'\x32' * flen, 'Q'), L(app, 'application')], 'sk_ecdsa_key')


def dss_blob_tree(pbits=1024):
    p = modulus_with_bits(pbits)
    q = modulus_with_bits(160)
    return S([L(b'ssh-dss', 'type'), L(mpint_bytes(p), 'p'), L(mpint_bytes(q), 'q'),
              L(mpint_bytes(2), 'g'), L(mpint_bytes(modulus_with_bits(pbits - 1)), 'y')], 'dss_key')


def cert_blob_tree(cert_type, key_fields, ca_tree, cert_kind=2, sig_type=b'ssh-ed25519', fields=None):
    """OpenSSH certificate (PROTOCOL.certkeys).  key_fields: list of L nodes for the public key part.
    fields: values of the free-form parts {nonce, serial, key_id, principals (list), valid_after, valid_before, critical, extensions, reserved}"""
    fl = fields or {}
    items = [L(cert_type, 'type'), L(fl.get('nonce', b'\x99' * 32), 'nonce')]
    items += key_fields
    items += [Raw(u64(fl.get('serial', 7)), 'serial'), Raw(u32(cert_kind), 'cert_kind'), L(fl.get('key_id', b'host-key-id'), 'key_id'),
              L(b''.join(sstring(x) for x in fl.get('principals', [b'host.example'])), 'principals'), Raw(u64(fl.get('valid_after', 0)), 'valid_after'),
              Raw(u64(fl.get('valid_before', 0xffffffffffffffff)), 'valid_before'), L(fl.get('critical', b''), 'critical'), L(fl.get('extensions', b''), 'extensions'),
              L(fl.get('reserved', b''), 'reserved'), L(ca_tree, 'ca_key'),
              L(S([L(sig_type, 'sigtype'), L(b'\x55' * 64, 'sigblob')]), 'signature')]
    return S(items, 'cert')


def rsa_cert_tree(host_bits, ca_tree, cert_type=b'ssh-rsa-cert-v01@openssh.com', cert_kind=2, fields=None):
    n = modulus_with_bits(host_bits)
    return cert_blob_tree(cert_type, [L(mpint_bytes(65537), 'e'), L(mpint_bytes(n), 'n')], ca_tree, cert_kind, fields=fields)


def ed25519_cert_tree(ca_tree, cert_kind=2, pk=b'\x42' * 32, fields=None):
    return cert_blob_tree(b'ssh-ed25519-cert-v01@openssh.com', [L(pk, 'pk')], ca_tree, cert_kind, fields=fields)


def sk_ed25519_blob_tree(pk=b'\x45' * 32, app=b'ssh:'):
    # PROTOCOL.u2f: string "sk-ssh-ed25519@openssh.com", string public key, string application
    return S([L(b'sk-ssh-ed25519@openssh.com', 'type'), L(pk, 'pk'), L(app, 'application')], 'sk_ed25519_key')


def sk_ed25519_cert_tree(ca_tree, cert_kind=2, app=b'ssh:', pk=b'\x45' * 32):
    return cert_blob_tree(b'sk-ssh-ed25519-cert-v01@openssh.com', [L(pk, 'pk'), L(app, 'application')], ca_tree, cert_kind)


def kexdh_reply_tree(hostkey_tree, msg=MSG_KEXDH_REPLY, f=b'\x07' * 32, sig_type=b'ssh-ed25519'):
    sig = S([L(sig_type, 'sigtype'), L(b'\x66' * 64, 'sigblob')])
    return S([Raw(bytes([msg]), 'type'), L(hostkey_tree, 'hostkey'), L(f, 'f'), L(sig, 'sig')], 'kexdh_reply')


def gex_group_tree(p, g=2):
    return S([Raw(bytes([MSG_GEX_GROUP]), 'type'), L(mpint_bytes(p), 'p'), L(mpint_bytes(g), 'g')], 'gex_group')


def debug_tree(text=b'dbg'):
    return S([Raw(bytes([MSG_DEBUG]), 'type'), Raw(b'\x00', 'always'), L(text, 'msg'), L(b'', 'lang')], 'debug')


EXTRA_PADDING = 0      # set per World (vnet.set_world): peers frame their packets with more than the minimum padding


def packet_tree(payload_tree, block=8):
    payload = serialize(payload_tree)
    padlen = -(len(payload) + 5) % block
    if padlen < 4:
        padlen += block
    while EXTRA_PADDING and padlen + block <= min(255, 4 + EXTRA_PADDING + block - 1) and padlen < EXTRA_PADDING:
        padlen += block
    return S([L(S([Raw(bytes([padlen]), 'padlen'), payload_tree, Raw(b'\x00' * padlen, 'padding')]), 'packet_length')],
             'packet')


def packet(payload):
    if not isinstance(payload, (Raw, L, S)):
        payload = Raw(payload)
    return serialize(packet_tree(payload))


# --------------------------------------------------------------------------- SSH-1
def ssh1_pubkey_payload(cmask, amask, host_bits=1024, server_bits=768, flags=2, cookie=b'\x01' * 8):
    sn = modulus_with_bits(server_bits)
    hn = modulus_with_bits(host_bits)
    return (cookie + u32(server_bits) + ssh1_mpint(65537) + ssh1_mpint(sn) +
            u32(host_bits) + ssh1_mpint(65537) + ssh1_mpint(hn) + u32(flags) + u32(cmask) + u32(amask))


def ssh1_packet_tree(ptype, data, bad_crc=False):
    body = bytes([ptype]) + data
    length = len(body) + 4
    padlen = 8 - length % 8
    pad = b'\x00' * padlen
    # SSH-1 CRC is the plain CRC-32 *without* the final/initial inversion used by zlib.
    crc = ssh1_crc(pad + body)
    if bad_crc:
        crc ^= 1
    # Length field is not an "L" of what follows (padding is excluded), so model it raw but named.
    return S([Raw(u32(length), 'length'), Raw(pad, 'padding'), Raw(body, 'body'), Raw(u32(crc), 'crc')], 'ssh1_packet')


_CRC_TABLE = None


def ssh1_crc(data):
    """CRC-32 (poly 0xedb88320) with zero initial value and no final xor, per SSH-1.5."""
    global _CRC_TABLE
    if _CRC_TABLE is None:
        t = []
        for i in range(256):
            c = i
            for _ in range(8):
                c = (c >> 1) ^ 0xedb88320 if c & 1 else c >> 1
            t.append(c)
        _CRC_TABLE = t
    crc = 0
    for b in data:
        crc = (crc >> 8) ^ _CRC_TABLE[(crc ^ b) & 0xff]
    return crc


def ssh1_crc_via_zlib(data):
    """Same value through zlib: crc32 with init/final inversion undone."""
    return (zlib.crc32(data, 0xffffffff) ^ 0xffffffff) & 0xffffffff


# --------------------------------------------------------------------------- decoding what the tool sends
class WireError(Exception):
    pass


def split_banner(stream):
    """-> (banner line without line end or None, rest)"""
    i = stream.find(b'\n')
    if i < 0:
        return None, stream
    line = stream[:i]
    if line.endswith(b'\r'):
        line = line[:-1]
    return line, stream[i + 1:]


def read_packet(stream, check=True):
    """Parse one SSH-2 binary packet from the head of stream -> (payload, rest, info) or None if incomplete."""
    if len(stream) < 5:
        return None
    plen = struct.unpack('>I', stream[:4])[0]
    if len(stream) < 4 + plen:
        return None
    padlen = stream[4]
    payload = stream[5:4 + plen - padlen]
    padding = stream[4 + plen - padlen:4 + plen]
    info = {'packet_length': plen, 'padlen': padlen, 'total': 4 + plen}
    if check:
        problems = []
        if (4 + plen) % 8 != 0:
            problems.append('total length %d not a multiple of 8' % (4 + plen))
        if padlen < 4:
            problems.append('padding %d < 4' % padlen)
        if plen - padlen - 1 < 0 or len(padding) != padlen:
            problems.append('inconsistent length fields')
        if plen - padlen - 1 < 1:
            problems.append('empty payload')
        info['problems'] = problems
    return payload, stream[4 + plen:], info


def parse_packets(stream):
    out = []
    while stream:
        r = read_packet(stream)
        if r is None:
            out.append(('INCOMPLETE', stream, {}))
            break
        payload, stream, info = r
        out.append((payload[0] if payload else -1, payload, info))
    return out


class Reader:
    def __init__(self, b):
        self.b = b
        self.i = 0

    def take(self, n):
        if self.i + n > len(self.b):
            raise WireError('short read')
        v = self.b[self.i:self.i + n]
        self.i += n
        return v

    def u32(self):
        return struct.unpack('>I', self.take(4))[0]

    def string(self):
        return self.take(self.u32())

    def done(self):
        return self.i == len(self.b)


def parse_kexinit(payload):
    r = Reader(payload)
    if r.take(1)[0] != MSG_KEXINIT:
        raise WireError('not KEXINIT')
    d = {'cookie': r.take(16)}
    for nm in ('kex', 'key', 'enc_c2s', 'enc_s2c', 'mac_c2s', 'mac_s2c', 'comp_c2s', 'comp_s2c', 'lang_c2s', 'lang_s2c'):
        d[nm] = r.string()
    d['follows'] = r.take(1)[0]
    d['reserved'] = r.u32()
    if not r.done():
        raise WireError('trailing bytes in KEXINIT')
    return d


def names_of(listbytes):
    """Independent decode of a name-list into the non-empty names as text (UTF-8, replacement)."""
    return [x for x in listbytes.decode('utf-8', 'replace').split(',') if x.strip() != '']


def fingerprint_sha256(blob):
    import base64
    import hashlib
    return 'SHA256:' + base64.b64encode(hashlib.sha256(blob).digest()).decode().rstrip('=')


def fingerprint_md5(blob):
    import hashlib
    h = hashlib.md5(blob).hexdigest()
    return 'MD5:' + ':'.join(h[i:i + 2] for i in range(0, 32, 2))
