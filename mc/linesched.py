"""Line-level scheduler: explores thread interleavings *inside* a small critical section.

Worker bodies run in real threads under sys.settrace; every 'line' event in the traced source files is a scheduling point.
Exactly one thread runs at a time (baton passing through per-thread semaphores); the controller picks the next thread from a
schedule (list of indices into the canonically ordered enabled set: the running thread first if still alive, then ascending ids).
Schedules are enumerated by the same preemption-bounded DFS as mc/sched.py.
"""
import sys
import threading

from .vnet import HarnessError


class LineExecution:
    def __init__(self, bodies, files, prefix=(), wall=20.0, repeat_cap=None):
        self.bodies = bodies
        self.files = tuple(files)
        self.prefix = list(prefix)
        self.n = len(bodies)
        self.sem = [threading.Semaphore(0) for _ in bodies]
        self.parked = threading.Semaphore(0)      # signalled by a worker when it parks or finishes
        self.alive = [True] * self.n
        self.results = [None] * self.n
        self.errors = [None] * self.n
        self.points = []
        self.trace = []
        self.wall = wall
        # repeat_cap=k: a thread offers a scheduling point at a given source line only the first k times it reaches it, so that a long
        # loop contributes its first iterations (and every line after it) instead of thousands of equivalent points
        self.repeat_cap = repeat_cap
        self.seen = [dict() for _ in bodies]

    def _tracer_for(self, tid):
        def local(frame, event, arg):
            if event == 'line':
                if self.repeat_cap is not None:
                    k = (frame.f_code, frame.f_lineno)
                    c = self.seen[tid].get(k, 0) + 1
                    self.seen[tid][k] = c
                    if c > self.repeat_cap:
                        return local
                self.trace.append((tid, frame.f_code.co_name, frame.f_lineno))
                self.parked.release()
                if not self.sem[tid].acquire(timeout=self.wall):
                    raise HarnessError('line scheduler: thread %d never resumed' % tid)
            return local

        def glob(frame, event, arg):
            if event == 'call' and frame.f_code.co_filename.endswith(self.files):
                return local
            return None
        return glob

    def _run_body(self, tid):
        # park before the first instruction
        self.parked.release()
        self.sem[tid].acquire()
        sys.settrace(self._tracer_for(tid))
        try:
            self.results[tid] = self.bodies[tid]()
        except BaseException as e:       # noqa
            self.errors[tid] = e
        finally:
            sys.settrace(None)
            self.alive[tid] = False
            self.parked.release()

    def run(self):
        threads = [threading.Thread(target=self._run_body, args=(i,), daemon=True) for i in range(self.n)]
        for t in threads:
            t.start()
        for _ in range(self.n):              # all parked at start
            if not self.parked.acquire(timeout=self.wall):
                raise HarnessError('line scheduler: threads did not start')
        running = None
        i = 0
        while any(self.alive):
            enabled = [t for t in range(self.n) if self.alive[t]]
            still = running in enabled
            if still:
                enabled.remove(running)
                enabled.insert(0, running)
            if i < len(self.prefix):
                c = self.prefix[i]
                if c >= len(enabled):
                    raise HarnessError('line schedule replay diverged at point %d' % i)
            else:
                c = 0
            self.points.append((tuple(enabled), c, still))
            i += 1
            running = enabled[c]
            self.sem[running].release()
            if not self.parked.acquire(timeout=self.wall):
                raise HarnessError('line scheduler: thread %d neither parked nor finished' % running)
        for t in threads:
            t.join(self.wall)
        return self.results, self.errors


def explore(make_bodies, files, bound, check, max_execs=None, repeat_cap=None):
    """make_bodies() -> list of callables (fresh shared state per execution).  check(results, errors, trace) -> list of problems.
    Yields (prefix, problems, n_points)."""
    stack = [[]]
    n = 0
    while stack:
        prefix = stack.pop()
        ex = LineExecution(make_bodies(), files, prefix, repeat_cap=repeat_cap)
        results, errors = ex.run()
        n += 1
        yield prefix, check(results, errors, ex.trace), ex.points, ex.trace
        if max_execs is not None and n >= max_execs:
            return
        choices = [p[1] for p in ex.points]
        used, cum = 0, []
        for (enabled, c, still) in ex.points:
            cum.append(used)
            if still and c != 0:
                used += 1
        for j in range(len(prefix), len(ex.points)):
            enabled, c, still = ex.points[j]
            for alt in range(1, len(enabled)):
                if cum[j] + (1 if still else 0) > bound:
                    continue
                stack.append(choices[:j] + [alt])
