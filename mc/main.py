"""Entry point: ./check <ID> --tier quick|thorough [--replay <file>]"""
import argparse
import importlib
import os
import sys
import time

HERE = os.path.dirname(os.path.abspath(__file__))
sys.path.insert(0, os.path.dirname(HERE))


def main():
    ap = argparse.ArgumentParser()
    ap.add_argument('pid')
    ap.add_argument('--tier', default=os.environ.get('VERIF_TIER_DEFAULT', 'quick'), choices=['quick', 'thorough'])
    ap.add_argument('--replay', default=None)
    a = ap.parse_args()
    seed = int(os.environ.get('VERIF_SEED', '0') or 0)
    mod = importlib.import_module('props.' + a.pid.lower())
    if a.replay:
        return mod.replay(a.replay)
    return mod.run(a.tier, seed)


if __name__ == '__main__':
    import shutil
    import tempfile
    t0 = time.time()
    root = tempfile.mkdtemp(prefix='verif-run-')
    os.environ['VERIF_TMP_ROOT'] = root
    try:
        try:
            rc = main()
        except Exception as e:
            # an exception from inside the audited code that escaped a check's own handling: report it in the interface's terms
            from mc import par, evidence
            site = par.tool_site(e)
            if site is None:
                raise
            import traceback
            pid = sys.argv[1].upper()
            path = evidence.write_replay(pid, {'sig': 'tool-raised:%s:%s' % (type(e).__name__, site),
                                               'detail': {'exception': '%s: %s' % (type(e).__name__, e), 'traceback_tail': traceback.format_exc()[-1500:]}, 'replay': None})
            print('VIOLATION property=%s replay=%s' % (pid, path))
            print('  signature: tool-raised:%s:%s (the audited code raised while a check called it directly)' % (type(e).__name__, site))
            rc = 1
    finally:
        shutil.rmtree(root, ignore_errors=True)
    sys.stdout.flush()
    sys.exit(rc)
