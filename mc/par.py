"""Fork-based sharding of an enumeration over all cores."""
import multiprocessing
import os
import traceback

from .evidence import Stats

NPROC = int(os.environ.get('VERIF_PROCS', '0')) or min(16, os.cpu_count() or 1)
# once this many violations that are not listed as known findings have been collected, the remaining work of a family is abandoned: the
# verdict is settled, and on a tree that breaks a property in most executions (an endless reconnect loop ...) every further execution only
# costs time.  The evidence then says that the family was cut short.  0 disables.
FAILFAST = int(os.environ.get('VERIF_FAILFAST', '1500'))
_known_sigs = None


def _unknown_violations(stats):
    global _known_sigs
    if _known_sigs is None:
        from .evidence import load_known
        _known_sigs = set(f.get('signature') for f in load_known().get('findings', []) if isinstance(f, dict))
    return sum(1 for v in stats.violations if v['sig'] not in _known_sigs)


# address-space limit of one worker process.  A tree on which some input makes the tool build a value that doubles with every received
# segment would otherwise have the kernel kill the worker (and a fork pool waits for a killed worker for ever); with the limit the tool
# gets a MemoryError, which the runner reports like any other exception.
WORKER_AS_LIMIT = int(os.environ.get('VERIF_WORKER_MEM_MB', '4096')) << 20


def _limit_worker():
    try:
        import resource
        resource.setrlimit(resource.RLIMIT_AS, (WORKER_AS_LIMIT, WORKER_AS_LIMIT))
    except Exception:
        pass


_ABORT = None      # shared flag (set by pmap before the pool is forked): the family has been abandoned, remaining chunks return at once


def _run_chunk(args):
    func, chunk, extra = args
    st = Stats()
    if _ABORT is not None and _ABORT.value:
        return st
    try:
        func(chunk, st, *extra)
    except BaseException as e:  # a crash of the harness itself must not be silent
        site = tool_site(e)
        if site is not None:
            # raised inside the audited code while the check drove one of its entry points directly: that is an observation about
            # the code under test (on the unchanged tree these calls all return), not a defect of the harness
            st.violation('tool-raised:%s:%s:%s' % (type(e).__name__, site, getattr(func, '__name__', '?')),
                         {'exception': '%s: %s' % (type(e).__name__, e), 'traceback_tail': traceback.format_exc()[-1200:]})
        else:
            st.harness_errors.append('worker crashed: %s\n%s' % (e, traceback.format_exc()[-1500:]))
    return st


def tool_site(e):
    """'file.py:function' if the innermost frame of the exception lies in the audited source tree, else None"""
    if isinstance(e, (KeyboardInterrupt, SystemExit, MemoryError)) or type(e).__name__ in ('Hang', 'HarnessError'):
        return None
    frames = traceback.extract_tb(e.__traceback__)
    if not frames:
        return None
    inner = frames[-1]
    fn = inner.filename.replace('\\', '/')
    if '/ssh_audit/' in fn or fn.endswith('/ssh-audit.py'):
        return '%s:%s' % (fn.rsplit('/', 1)[-1], inner.name)
    return None


def pmap(func, items, extra=(), chunk=None, procs=None, stats=None):
    """func(list_of_items, stats, *extra).  Items are split into chunks and run on a fork pool; stats merged."""
    stats = stats if stats is not None else Stats()
    items = list(items)
    procs = procs or NPROC
    if not items:
        return stats
    if chunk is None:
        chunk = max(1, min(2000, len(items) // (procs * 8) + 1))
    chunks = [items[i:i + chunk] for i in range(0, len(items), chunk)]
    if procs == 1 or len(chunks) == 1:
        for c in chunks:
            stats.merge(_run_chunk((func, c, extra)))
        return stats
    global _ABORT
    ctx = multiprocessing.get_context('fork')
    _ABORT = ctx.Value('i', 0)
    # (no pool.terminate() in mid-flight: with tasks still queued it can wait for ever for its own feeder thread; the workers are told
    # through the shared flag to return at once, and the pool is closed the ordinary way)
    with ctx.Pool(procs, initializer=_limit_worker) as pool:
        done = 0
        for st in pool.imap_unordered(_run_chunk, [(func, c, extra) for c in chunks]):
            stats.merge(st)
            done += 1
            if FAILFAST and not _ABORT.value and done < len(chunks) and _unknown_violations(stats) >= FAILFAST:
                stats.caps.append('%s: abandoned after %d of %d chunks with %d violations collected (VERIF_FAILFAST)' % (
                    getattr(func, '__name__', '?'), done, len(chunks), _unknown_violations(stats)))
                _ABORT.value = 1
        pool.close()
        pool.join()
    _ABORT = None
    return stats
