"""Fork-based sharding of an enumeration over all cores."""
import multiprocessing
import os
import traceback

from .evidence import Stats

NPROC = int(os.environ.get('VERIF_PROCS', '0')) or min(16, os.cpu_count() or 1)


def _run_chunk(args):
    func, chunk, extra = args
    st = Stats()
    try:
        func(chunk, st, *extra)
    except BaseException as e:  # a crash of the harness itself must not be silent
        site = tool_site(e)
        if site is not None:
            # raised inside the audited code while the check drove one of its entry points directly: that is an observation about
            # the code under test (on the unchanged tree these calls all return), not a defect of the harness
            st.violation('tool-raised:%s:%s:%s' % (type(e).__name__, site, getattr(func, '__name__', '?')),
                         {'exception': '%s: %s' % (type(e).__name__, e), 'traceback_tail': traceback.format_exc()[-1200:]})
        else:
            st.harness_errors.append('worker crashed: %s\n%s' % (e, traceback.format_exc()[-1500:]))
    return st


def tool_site(e):
    """'file.py:function' if the innermost frame of the exception lies in the audited source tree, else None"""
    if isinstance(e, (KeyboardInterrupt, SystemExit, MemoryError)) or type(e).__name__ in ('Hang', 'HarnessError'):
        return None
    frames = traceback.extract_tb(e.__traceback__)
    if not frames:
        return None
    inner = frames[-1]
    fn = inner.filename.replace('\\', '/')
    if '/ssh_audit/' in fn or fn.endswith('/ssh-audit.py'):
        return '%s:%s' % (fn.rsplit('/', 1)[-1], inner.name)
    return None


def pmap(func, items, extra=(), chunk=None, procs=None, stats=None):
    """func(list_of_items, stats, *extra).  Items are split into chunks and run on a fork pool; stats merged."""
    stats = stats if stats is not None else Stats()
    items = list(items)
    procs = procs or NPROC
    if not items:
        return stats
    if chunk is None:
        chunk = max(1, min(2000, len(items) // (procs * 8) + 1))
    chunks = [items[i:i + chunk] for i in range(0, len(items), chunk)]
    if procs == 1 or len(chunks) == 1:
        for c in chunks:
            stats.merge(_run_chunk((func, c, extra)))
        return stats
    ctx = multiprocessing.get_context('fork')
    with ctx.Pool(procs) as pool:
        for st in pool.imap_unordered(_run_chunk, [(func, c, extra) for c in chunks]):
            stats.merge(st)
    return stats
