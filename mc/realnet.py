"""Conformance twin: replay explored traces outside the model.

The same scripted peer (mc/peer.py, same fault plan) is served over a *real* loopback TCP socket, and the *real* CLI runs
in a subprocess (fresh interpreter, real sockets, real clock with -t 1, real randomness).  Exit status and stdout must equal
what the virtual environment produced for the same argv.  A mismatch means the environment model is wrong, never the tool.
"""
import concurrent.futures
import errno
import os
import select
import socket
import struct
import subprocess
import threading
import time

from . import peer, runner, vnet
from .vnet import EOF, RST

REPO = runner.REPO
PY = '/venv/bin/python'


class _TwinWorld:
    """The part of World that peer.Conn needs."""

    def __init__(self, faults, coalesce=False, segment=0):
        self.faults = faults or {}
        self.sites = []
        self.coalesce = coalesce
        self.segment = segment
        self.lock = threading.Lock()

    def fault_for(self, key):
        return self.faults.get(key)


def _serve_conn(conn, sock, deadline):
    """Pump one peer.Conn over a real socket until either side is done."""
    sock.setblocking(False)
    try:
        while time.time() < deadline:
            # flush what the script wants to send
            progressed = False
            conn.pump()
            while conn.out:
                head = conn.out[0]
                if head is EOF:
                    # orderly close: FIN, then drain whatever the tool still sends so that the kernel does not answer with RST
                    try:
                        sock.shutdown(socket.SHUT_WR)
                    except OSError:
                        pass
                    _drain(sock, deadline)
                    return
                if head is RST:
                    time.sleep(0.15)     # let what was sent before reach (and be read by) the tool: an abortive close may discard undelivered data
                    sock.setsockopt(socket.SOL_SOCKET, socket.SO_LINGER, struct.pack('ii', 1, 0))
                    sock.close()
                    return
                conn.out.popleft()
                sock.setblocking(True)
                try:
                    sock.sendall(head)
                except OSError:
                    return
                sock.setblocking(False)
                if conn.world.segment or len(conn.out) > 0:
                    time.sleep(0.02)      # keep separately emitted chunks in separate TCP segments
                progressed = True
            r, _, _ = select.select([sock], [], [], 0.05)
            if r:
                try:
                    data = sock.recv(65536)
                except (BlockingIOError, InterruptedError):
                    continue
                except OSError:
                    return
                if not data:
                    conn.tool_closed()
                    return
                conn.from_tool(data)
    finally:
        try:
            sock.close()
        except OSError:
            pass


def _drain(sock, deadline):
    sock.setblocking(False)
    while time.time() < deadline:
        r, _, _ = select.select([sock], [], [], 0.2)
        if r:
            try:
                d = sock.recv(65536)
            except OSError:
                return
            if not d:
                return


class TwinServer:
    def __init__(self, server, faults, segment=0, wall=30.0):
        self.server = server
        self.world = _TwinWorld(faults, segment=segment)
        self.lsock = socket.socket(socket.AF_INET, socket.SOCK_STREAM)
        self.lsock.setsockopt(socket.SOL_SOCKET, socket.SO_REUSEADDR, 1)
        self.lsock.bind(('127.0.0.1', 0))
        self.lsock.listen(64)
        self.port = self.lsock.getsockname()[1]
        self.deadline = time.time() + wall
        self.stop = False
        self.threads = []
        self.accepted = 0
        self.t = threading.Thread(target=self._accept_loop, daemon=True)
        self.t.start()

    def _accept_loop(self):
        self.lsock.settimeout(0.2)
        while not self.stop and time.time() < self.deadline:
            try:
                s, _addr = self.lsock.accept()
            except socket.timeout:
                continue
            except OSError:
                return
            self.accepted += 1
            res = self.server.accept(self.world, None)
            if isinstance(res, int) or res == 'timeout':
                # a refusal cannot be produced on an accepted socket; callers do not validate such plans
                s.close()
                continue
            th = threading.Thread(target=_serve_conn, args=(res, s, self.deadline), daemon=True)
            th.start()
            self.threads.append(th)

    def close(self):
        self.stop = True
        try:
            self.lsock.close()
        except OSError:
            pass
        for th in self.threads:
            th.join(2)


def _free_port():
    s = socket.socket()
    s.bind(('127.0.0.1', 0))
    p = s.getsockname()[1]
    s.close()
    return p


def run_real_cli(argv, timeout=60):
    env = dict(os.environ)
    env.pop('NO_COLOR', None)
    env['PYTHONIOENCODING'] = 'utf-8'
    p = subprocess.run([PY, os.path.join(REPO, 'ssh-audit.py')] + list(argv), capture_output=True, timeout=timeout, env=env)
    # decode by hand: text mode would translate lone carriage returns in the tool's output into newlines
    return p.returncode & 0xff, p.stdout.decode('utf-8', 'replace'), p.stderr.decode('utf-8', 'replace')


def refusal_plan(faults):
    return any(f[0] in ('refuse', 'timeout') for f in (faults or {}).values())


def real_server_case(make_server, opts, faults=None, segment=0):
    """Real half: twin server + real CLI subprocess.  -> (argv, port, status, stdout, stderr) or None when not reproducible."""
    faults = {tuple(k): tuple(v) for k, v in (faults or {}).items()}
    if refusal_plan(faults):
        return None
    tw = TwinServer(make_server(), faults, segment=segment)
    try:
        argv = [o.replace('{port}', str(tw.port)) for o in opts]
        if not any('127.0.0.1' in o for o in argv):
            argv = argv + ['-t', '1', '--skip-rate-test', '127.0.0.1:%d' % tw.port]
        rs, rout, rerr = run_real_cli(argv)
    finally:
        tw.close()
    return argv, tw.port, rs, rout, rerr, tw.accepted


def model_server_case(make_server, argv, port, faults=None, segment=0):
    faults = {tuple(k): tuple(v) for k, v in (faults or {}).items()}
    w = vnet.World(servers={('127.0.0.1', port): make_server()}, faults=faults, segment=segment)
    return runner.run_cli(argv, w)


def real_client_case(make_client, opts):
    port = _free_port()
    argv = ['-c', '-p', str(port), '-t', '5'] + list(opts)
    cli_real = make_client()
    world = _TwinWorld({})

    def dial():
        deadline = time.time() + 20
        while time.time() < deadline:
            try:
                s = socket.create_connection(('127.0.0.1', port), timeout=1)
                break
            except OSError:
                time.sleep(0.05)
        else:
            return
        conn = peer.Conn(world, cli_real, None, 0, cli_real.script)
        _serve_conn(conn, s, time.time() + 15)
    th = threading.Thread(target=dial, daemon=True)
    th.start()
    rs, rout, rerr = run_real_cli(argv)
    th.join(5)
    return argv, port, rs, rout, rerr, 1


def model_client_case(make_client, argv):
    cli = make_client()
    cli.addr = ('127.0.0.1', 40000)
    return runner.run_cli(argv, vnet.World(clients=[cli]))


def _norm(s):
    out = []
    for l in s.strip().split('\n'):
        l = l.rstrip()
        if l.startswith('(gen) client IP: '):
            l = '(gen) client IP: <ip>'
        out.append(l)
    return '\n'.join(out)


def validate_many(cases, threads=8, retries=1):
    """cases: list of dicts {kind: 'server'|'client', make: callable, opts: [...], faults: {...}, segment: int, label: str}
    The real halves run concurrently (each in its own subprocess); the model halves run afterwards, one at a time.
    -> (n_agree, mismatches[list of info], n_skipped)"""
    def real(c):
        try:
            if c.get('kind', 'server') == 'client':
                return real_client_case(c['make'], c['opts'])
            return real_server_case(c['make'], c['opts'], c.get('faults'), c.get('segment', 0))
        except subprocess.TimeoutExpired:
            return ('timeout',)

    def model(c, r):
        if c.get('kind', 'server') == 'client':
            return model_client_case(c['make'], r[0])
        return model_server_case(c['make'], r[0], r[1], c.get('faults'), c.get('segment', 0))
    agree, mism, skipped = 0, [], 0
    pending = list(cases)
    for attempt in range(retries + 1):
        with concurrent.futures.ThreadPoolExecutor(max_workers=threads) as ex:
            reals = list(ex.map(real, pending))
        again = []
        for c, r in zip(pending, reals):
            if r is None:
                skipped += 1
                continue
            if r == ('timeout',):
                again.append(c)
                c['_last'] = {'error': 'real CLI timed out', 'label': c.get('label')}
                continue
            m = model(c, r)
            nconn = len(m.world.conns)
            if m.status == r[2] and _norm(m.stdout) == _norm(r[3]) and (nconn == r[5] or c.get('kind') == 'client'):
                agree += 1
            else:
                c['_last'] = {'label': c.get('label'), 'argv': r[0], 'model_status': m.status, 'real_status': r[2], 'model_connections': nconn, 'real_connections': r[5],
                              'model_stdout': m.stdout[-300:], 'real_stdout': r[3][-300:], 'real_stderr': r[4][-200:]}
                again.append(c)
        pending = again
        if not pending:
            break
    for c in pending:
        mism.append(c['_last'])
    return agree, mism, skipped


def validate_multi(makers, extra_opts=(), threads=1):
    """Several twin servers on 127.0.0.1:<port_i>, real CLI with -T file --threads N; model run with the same file.
    With one worker thread the block order is deterministic and stdout must be equal; otherwise blocks are compared as a multiset.
    -> (agree, info)"""
    import tempfile
    twins = [TwinServer(mk(), getattr(mk, 'faults', {}) or {}) for mk in makers]
    fd, path = tempfile.mkstemp(prefix='verif-targets-', suffix='.txt')
    try:
        with os.fdopen(fd, 'w') as f:
            for tw in twins:
                f.write('127.0.0.1:%d\n' % tw.port)
        argv = list(extra_opts) + ['-n', '-t', '1', '--skip-rate-test', '-T', path, '--threads', str(threads)]
        rs, rout, rerr = run_real_cli(argv)
        for tw in twins:
            tw.close()
        servers = {}
        faults = {}
        for mk, tw in zip(makers, twins):
            servers[('127.0.0.1', tw.port)] = mk()
            faults.update(getattr(mk, 'faults', {}) or {})
        w = vnet.World(servers=servers, faults=faults)
        m = runner.run_cli(argv, w)
    finally:
        for tw in twins:
            tw.close()
        try:
            os.unlink(path)
        except OSError:
            pass
    sep = '-' * 80
    if threads == 1:
        ok = m.status == rs and _norm(m.stdout) == _norm(rout)
    elif '-j' in argv or '-jj' in argv:
        # completion order is up to the real scheduler: compare the array elements as a multiset
        import json
        try:
            a, b = json.loads(m.stdout), json.loads(rout)
            ok = m.status == rs and sorted(json.dumps(x, sort_keys=True) for x in a) == sorted(json.dumps(x, sort_keys=True) for x in b)
        except ValueError:
            ok = False
    else:
        ok = m.status == rs and sorted(_norm(b) for b in m.stdout.split(sep)) == sorted(_norm(b) for b in rout.split(sep))
    return ok, {'argv': argv, 'model_status': m.status, 'real_status': rs, 'model_stdout': m.stdout[-300:], 'real_stdout': rout[-300:], 'real_stderr': rerr[-200:]}
