"""Reference parser for SSH identification strings, written from RFC 4253 section 4.2.

   SSH-protoversion-softwareversion SP comments CR LF
A line is an identification string iff it starts with "SSH-<digit>.<digits>-"; softwareversion is the run of non-space
characters after the second dash; comments is whatever follows the first run of spaces (surrounding blanks trimmed, inner
runs of blanks collapsed - the tool's documented normalisation).  Characters outside printable US-ASCII are replaced by '?'
for display and make the string non-conforming.
"""
import re

_RX = re.compile(r'^SSH-(\d)\.(\d+)-([^ ]*)(?: +(.*?))? *$')


def printable(s):
    return ''.join(c if 32 <= ord(c) <= 126 else '?' for c in s)


def decode_line(raw):
    """bytes of one line (without its line ending) -> text as a reader would see it"""
    return raw.decode('utf-8', 'replace')


def parse(text):
    """-> None or dict(protocol=(maj,min), software, comments, valid_ascii)"""
    shown = printable(text)
    m = _RX.match(shown)
    if m is None:
        return None
    comments = m.group(4)
    if comments is not None:
        comments = re.sub(r' +', ' ', comments.strip()) or None
    return {'protocol': (int(m.group(1)), int(m.group(2))), 'software': m.group(3), 'comments': comments,
            'valid_ascii': shown == text}


def render(p):
    r = 'SSH-%d.%d-%s' % (p['protocol'][0], p['protocol'][1], p['software'])
    if p['comments']:
        r += ' ' + p['comments']
    return r


def scan(lines):
    """lines: list of text lines in arrival order -> (banner dict or None, header lines)"""
    header = []
    for l in lines:
        if l.strip() == '':
            continue
        p = parse(l)
        if p is not None:
            return p, header
        header.append(l)
    return None, header
