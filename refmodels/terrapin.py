"""Reference rule for Terrapin (CVE-2023-48795) exposure, written from the property statement / the advisory.

exposed set V = ChaCha20-Poly1305 ciphers  U  (CBC-mode ciphers U encrypt-then-MAC MACs, if both are offered)
"""
import re

TERRAPIN_NOTE = 'vulnerable to the Terrapin attack'


def is_chacha(name):
    return name.startswith('chacha20-poly1305')


def is_cbc(name):
    # "-cbc" as a whole token of the name: aes128-cbc, 3des-cbc, cast128-12-cbc@ssh.com, des-cbc-ssh1, rijndael-cbc@lysator.liu.se
    # (\Z, not $: a name may end in a line feed, and `$` would match in front of it)
    return re.search(r'-cbc(\Z|[@-])', name) is not None


def is_etm(name):
    # the encrypt-then-MAC MACs are the ones OpenSSH defines: <mac>-etm@openssh.com, to the last octet
    return name.endswith('-etm@openssh.com')


def exposed(ciphers, macs):
    """-> (ordered list of exposed ciphers, ordered list of exposed macs)"""
    chacha = [c for c in ciphers if is_chacha(c)]
    cbc = [c for c in ciphers if is_cbc(c)]
    etm = [m for m in macs if is_etm(m)]
    if cbc and etm:
        return chacha + cbc, etm
    return chacha, []


def marker_present(kex_names, client_audit):
    return ('kex-strict-c-v00@openssh.com' if client_audit else 'kex-strict-s-v00@openssh.com') in kex_names
