"""Reference model of the documented policy matching rules (written from the property statement and the README).

A policy is a dict with optional keys: banner, compressions, host_keys, optional_host_keys, kex, ciphers, macs,
hostkey_sizes {type: {hostkey_size, ca_key_type, ca_key_size}}, dh_modulus_sizes {type: size}, subset (bool), larger (bool).
A peer is a dict: banner (str), compressions, key, kex, ciphers, macs (lists as decoded from the wire),
host_keys {type: {hostkey_size, ca_key_type, ca_key_size}}, dh {type: size}.
The result is a list of errors (field, expected_required, expected_optional, actual) - order and multiplicity are not specified.
"""

MARKERS = ('kex-strict-s-v00@openssh.com', 'kex-strict-c-v00@openssh.com')


def _size_bad(expected, actual, larger):
    return actual < expected if larger else actual != expected


def evaluate(pol, peer):
    errs = []
    subset = bool(pol.get('subset'))
    larger = bool(pol.get('larger'))
    if pol.get('banner') is not None and peer['banner'] != pol['banner']:
        errs.append(('Banner', [pol['banner']], None, [peer['banner']]))
    if pol.get('compressions') is not None and peer['compressions'] != pol['compressions']:
        errs.append(('Compression', pol['compressions'], None, peer['compressions']))
    hk = pol.get('host_keys')
    opt = pol.get('optional_host_keys')
    if hk is not None:
        if subset:
            bad = any(k not in hk for k in peer['key'])
        else:
            bad = [k for k in peer['key'] if k not in (opt or [])] != hk
        if bad:
            errs.append(('Host keys', hk, opt, peer['key']))
    for t in sorted(pol.get('hostkey_sizes') or {}):
        if t not in peer['host_keys']:
            continue        # sizes are only compared for key types the peer presents
        e, a = pol['hostkey_sizes'][t], peer['host_keys'][t]
        if _size_bad(e['hostkey_size'], a['hostkey_size'], larger):
            errs.append(('Host key (%s) sizes' % t, [str(e['hostkey_size'])], None, [str(a['hostkey_size'])]))
        if e.get('ca_key_type') and e.get('ca_key_size', 0) > 0:
            if a['ca_key_type'] != e['ca_key_type']:
                errs.append(('CA signature type', [e['ca_key_type']], None, [a['ca_key_type']]))
            elif _size_bad(e['ca_key_size'], a['ca_key_size'], larger):
                errs.append(('CA signature size (%s)' % a['ca_key_type'], [str(e['ca_key_size'])], None, [str(a['ca_key_size'])]))
    for field, pk, label in (('kex', 'kex', 'Key exchanges'), ('ciphers', 'ciphers', 'Ciphers'), ('macs', 'macs', 'MACs')):
        want = pol.get(field)
        if want is None:
            continue
        got = peer[pk]
        if subset:
            bad = any(x not in want for x in got)
            if field == 'kex' and any(m in want and m not in got for m in MARKERS):
                bad = True
        else:
            bad = got != want
        if bad:
            errs.append((label, want, None, got))
    for t in sorted(pol.get('dh_modulus_sizes') or {}):
        if t in peer['dh'] and _size_bad(pol['dh_modulus_sizes'][t], peer['dh'][t], larger):
            errs.append(('Group exchange (%s) modulus sizes' % t, [str(pol['dh_modulus_sizes'][t])], None, [str(peer['dh'][t])]))
    return errs


def canon(errs):
    """Set of (field, expected_required, expected_optional, actual) with None optional as ['']."""
    out = set()
    for f, er, eo, a in errs:
        out.add((f, tuple(er if er is not None else ['']), tuple(eo if eo is not None else ['']), tuple(a)))
    return out


def policy_text_old_format(pol, name='refmodel policy (deprecated directives)'):
    """Same policy written with the deprecated per-type directives (hostkey_size_*, cakey_size_*, dh_modulus_size_*).
    Only expressible when every CA type is the one the old format implies (ssh-rsa for RSA certificates, ssh-ed25519 otherwise)."""
    base = dict(pol)
    hs = base.pop('hostkey_sizes', None)
    dh = base.pop('dh_modulus_sizes', None)
    text = policy_text(base, name)
    lines = []
    for t, v in (hs or {}).items():
        # the cakey directive must follow the hostkey directive of the same type
        lines.append('hostkey_size_%s = %d' % (t, v['hostkey_size']))
        if v.get('ca_key_type') and v.get('ca_key_size'):
            lines.append('cakey_size_%s = %d' % (t, v['ca_key_size']))
    for t, v in (dh or {}).items():
        lines.append('dh_modulus_size_%s = %d' % (t, v))
    return text + '\n'.join(lines) + '\n'


def old_format_expressible(pol):
    for t, v in (pol.get('hostkey_sizes') or {}).items():
        if v.get('ca_key_type') and v.get('ca_key_size'):
            implied = 'ssh-rsa' if t in ('ssh-rsa-cert-v01@openssh.com', 'rsa-sha2-256-cert-v01@openssh.com', 'rsa-sha2-512-cert-v01@openssh.com') else 'ssh-ed25519'
            if v['ca_key_type'] != implied:
                return False
        elif v.get('ca_key_type') or v.get('ca_key_size'):
            return False
    return True


def policy_text(pol, name='refmodel policy', client=False):
    import json
    lines = ['name = "%s"' % name, 'version = 1']
    if client:
        lines.append('client policy = true')
    lines.append('allow_algorithm_subset_and_reordering = %s' % ('true' if pol.get('subset') else 'false'))
    lines.append('allow_larger_keys = %s' % ('true' if pol.get('larger') else 'false'))
    if pol.get('banner') is not None:
        lines.append('banner = "%s"' % pol['banner'].replace('"', '\\"'))
    for key, label in (('compressions', 'compressions'), ('host_keys', 'host keys'), ('optional_host_keys', 'optional host keys'),
                       ('kex', 'key exchanges'), ('ciphers', 'ciphers'), ('macs', 'macs')):
        if pol.get(key) is not None:
            lines.append('%s = %s' % (label, ', '.join(pol[key])))
    if pol.get('hostkey_sizes') is not None:
        d = {}
        for t, v in pol['hostkey_sizes'].items():
            d[t] = {'hostkey_size': v['hostkey_size']}
            if v.get('ca_key_type') and v.get('ca_key_size'):
                d[t]['ca_key_type'] = v['ca_key_type']
                d[t]['ca_key_size'] = v['ca_key_size']
        lines.append('host_key_sizes = %s' % json.dumps(d))
    if pol.get('dh_modulus_sizes') is not None:
        lines.append('dh_modulus_sizes = %s' % json.dumps(pol['dh_modulus_sizes']))
    return '\n'.join(lines) + '\n'
