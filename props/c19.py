"""C19 - a standard audit's footprint on the target is small and bounded (connection-log monitor over the C09/C11/C12 families)."""
import gc
import itertools
import json
import os
import time

from mc import evidence, explore, harness as H, par, peer as P, report, runner, vnet
from props import faultspace as F

PID = 'C19'
# '<errno>-async': the non-blocking connect of a rate-check connection fails later with that error (reported by the next recv): the
# error numbers the tool's handler names - refused, reset, broken pipe, timed out
ASYNC_ERRNO = {'refuse-async': 'refuse', 'etimedout-async': 110, 'econnreset-async': 104, 'epipe-async': 32}
RATE_BEHAVIOURS = ['normal', 'exceeded', 'silent', 'close', 'refuse', 'refuse-async', 'timeout', 'etimedout-async', 'econnreset-async', 'epipe-async', 'reset']


def judge(res, arch, plan, rate, st, detail):
    probs = F.judge_c19(res, arch, plan, rate)
    if any(s == 'socket-left-open' for s, _ in probs):
        gc.collect()
        probs = F.judge_c19(res, arch, plan, rate)
    for sig, what in probs:
        st.violation('%s:%s' % ('rate' if rate else 'norate', sig), dict(detail, what=what, status=res.status))


def work_faults(chunk, st):
    for arch, short, plan, rate in chunk:
        sc = F.scenario(arch, short, rate=rate)
        res = explore.run_plan(sc, plan)
        st.execution(res.world, outcome=(arch, rate, len(res.world.conns)), root=(arch, short, plan, rate), nontrivial=(arch, plan, rate) if plan else None)
        judge(res, arch, plan, rate, st, {'arch': arch, 'short': short, 'plan': plan, 'rate': rate})
        if plan and st.evaluations % 1500 == 1:
            st.sample({'arch': arch, 'plan': plan, 'rate_test': rate, 'connections': len(res.world.conns)})


def work_zoo(chunk, st):
    from props import zoo
    for e in map(zoo.get, chunk):
        for opts in (['-n'], ['-n', '-j']):
            res = zoo.audit(e, opts + (['-1'] if e['ssh1'] and not e['versions_differ'] else []))
            arch = 'E' if e['versions_differ'] else 'A'
            st.execution(res.world, outcome=('zoo', len(res.world.conns)), root=('zoo', e['name'], tuple(opts)), nontrivial=('zoo', e['name'], tuple(opts)))
            judge(res, arch, [], False, st, {'peer': e['name'], 'opts': opts})
    st.sample({'zoo_peers': list(chunk[:3])}, cap=3)


def work_multi_skip(chunk, st):
    # several targets in one invocation: the per-target bounds hold for each of them, with the rate check skipped and (one worker) with it on
    HK = runner.M['hostkeytest'].HostKeyTest
    for task in chunk:
        kexes, nkeys, skip, fmt = task[:4]
        layout = task[4] if len(task) > 4 else 'two-hosts'
        servers = [rate_server('normal', list(kexes), nkeys) for _ in range(2)]
        opts = ['-n'] + (['--skip-rate-test'] if skip else []) + (['-j'] if fmt == 'json' else [])
        if layout == 'one-host-two-ports':      # two services of one machine: each is bounded on its own, and each is actually audited
            res, outs = H.audit_sequence(servers, opts=opts, hosts=['gw.example', 'gw.example'], ports=[22, 2222])
        else:
            res, outs = H.audit_sequence(servers, opts=opts)
        st.execution(res.world, outcome=('multi', skip, layout, len(res.world.conns)), root=('multi', kexes, nkeys, skip, fmt, layout), nontrivial=('multi', kexes, nkeys, skip, fmt, layout))
        d = {'kex': list(kexes), 'host_keys': nkeys, 'skip_rate_test': skip, 'fmt': fmt, 'status': res.status, 'layout': layout}
        if res.hang or res.exc:
            st.violation('multi-target:hang-or-exception', dict(d, hang=res.hang, exc=res.exc))
            continue
        for i, srv in enumerate(servers):
            probed = len(set(t for t in srv.key if t in HK.HOST_KEY_TYPES))
            gex = len(set(k for k in srv.kex if k in P.GEX_NAMES))
            dh = any(k.startswith(('diffie-hellman', 'ecdh', 'curve25519', 'sntrup')) for k in srv.kex)
            cap = 1 + probed + 9 * gex + (0 if skip or not dh else 38 + 3 + 20)
            n = len(srv.records)
            if n == 0:
                st.violation('multi-target:a-listed-service-was-never-contacted', dict(d, target=i))
            if n > cap:
                st.violation('multi-target:too-many-connections:%s' % ('rate-check-skipped' if skip else 'rate-check-on'), dict(d, target=i, connections=n, bound=cap))
        leaked = [s.fd for s in res.world.sockets if not s.closed]
        if leaked:
            gc.collect()
            leaked = [s.fd for s in res.world.sockets if not s.closed]
        if leaked:
            st.violation('multi-target:socket-left-open', dict(d, fds=leaked[:5]))
    st.sample({'multi_target': [list(chunk[0][0]), chunk[0][1]], 'skip_rate_test': chunk[0][2]}, cap=3)


def work_degenerate(chunk, st):
    # degenerate group-exchange groups handed to the host-key probe: the probe fails, the next connection must start afresh
    for _t, plabel, g in chunk:
        p = eval(plabel) if isinstance(plabel, str) else plabel
        for pattern in ('always', 'first-only'):
            srv = F._srv_D2(g=eval(g) if isinstance(g, str) else g, p=p)
            if pattern == 'first-only':
                good = F._srv_D2()
                seen = [0]

                def prime(bits, srv=srv, good=good, p=p, seen=seen):
                    seen[0] += 1
                    return p if seen[0] == 1 else good._gex_prime(bits)
                srv._gex_prime = prime
            res = H.audit(srv, opts=['-n', '--skip-rate-test'])
            res.peer = srv
            st.execution(res.world, outcome=('D2p', pattern, len(res.world.conns)), root=('D2p', plabel, g, pattern), nontrivial=('D2p', plabel, g, pattern))
            judge(res, 'D2', [], False, st, {'arch': 'D2', 'gex_group': {'p': plabel, 'g': g}, 'pattern': pattern})


# ---- rate-phase behaviours
RATE_ALPHABET = ['normal', 'close', 'exceeded', 'refuse', 'silent']


def rate_server(beh, kexes, nkeys):
    keys = ['ssh-ed25519', 'rsa-sha2-512', 'ecdsa-sha2-nistp256'][:nkeys]
    pre = 1 + len(keys) + 9 * len([k for k in kexes if 'group-exchange' in k])

    def cb(i, counter=[0]):
        return 'normal'
    srv = P.Server(label='R', kex=kexes, key=keys, host_keys=P.standard_host_keys(keys), gex=P.GexPolicy([2048, 4096], P.STRICT),
                   banner=b'SSH-2.0-OpenSSH_8.9p1', async_refuse=(beh in ASYNC_ERRNO or (isinstance(beh, tuple) and any(b in ASYNC_ERRNO for b in beh))))
    state = {'audit_done': False}

    def conn_behaviour(i):
        # connections of the audit proper speak SSH; the rate check's connections never send anything, so the server
        # cannot tell them apart up front - switch behaviour once the probes are over (decided by the harness below)
        if not state['audit_done']:
            return 'normal'
        if isinstance(beh, tuple):          # a repeating pattern of per-connection answers
            state['n'] = state.get('n', -1) + 1
            b = beh[state['n'] % len(beh)]
            return ASYNC_ERRNO.get(b, b)
        return ASYNC_ERRNO.get(beh, beh)
    srv.conn_behaviour = conn_behaviour
    srv._state = state
    return srv


class RateWorld(vnet.World):
    """Flips the server into its rate-phase behaviour when the tool starts the rate check (first non-blocking connect)."""
    pass


def run_rate(beh, kexes, nkeys, mode, latency):
    srv = rate_server(beh, kexes, nkeys)
    w = H.world_for(srv, select_latency=latency)
    orig = vnet.VSocket.setblocking

    def hook(self, b, _orig=orig):
        if not b:
            srv._state['audit_done'] = True
        return _orig(self, b)
    vnet.VSocket.setblocking = hook
    try:
        argv = ['-n']
        path = None
        if mode == 'policy':
            path = H.tmp_path('c19-policy.txt')
            with open(path, 'w') as f:
                f.write('name = "p"\nversion = 1\nciphers = aes256-ctr\n')
            argv += ['-P', path]
        elif mode == 'make':
            path = H.tmp_path('c19-made-%d.txt' % os.getpid())
            if os.path.exists(path):
                os.unlink(path)
            argv += ['-M', path]
        elif mode == 'skip':
            argv += ['--skip-rate-test']
        elif mode == 'verbose':
            argv += ['-v']
        elif mode == 'debug-batch':
            argv += ['-d', '-b']
        argv.append(H.HOST)
        res = runner.run_cli(argv, w)
    finally:
        vnet.VSocket.setblocking = orig
    res.peer = srv
    return res, srv


def work_rate(chunk, st):
    for beh, kexes, nkeys, mode, latency in chunk:
        res, srv = run_rate(beh, list(kexes), nkeys, mode, latency)
        w = res.world
        detail = {'rate_behaviour': beh if isinstance(beh, str) else list(beh), 'kex': list(kexes), 'host_keys': nkeys, 'mode': mode, 'select_latency': latency}
        btag = beh if isinstance(beh, str) else 'pattern'
        st.execution(w, outcome=(btag, mode, res.status, min(len(w.conns), 99)), root=(beh, kexes, nkeys, mode, latency), nontrivial=(beh, kexes, nkeys, mode, latency))
        if res.hang:
            st.violation('rate:%s:hang' % btag, dict(detail, hang=res.hang, connections=len(w.conns)))
            continue
        if res.exc or res.status not in (0, 2, 3):
            st.violation('rate:%s:status-%s' % (btag, res.status), dict(detail, exc=res.exc, stdout=res.stdout[-300:]))
            continue
        dh = any(k.startswith('diffie-hellman') or k.startswith('curve25519') or k.startswith('ecdh') for k in kexes)
        # split the connection log at the first non-blocking socket
        rate_conns = [c for c in w.conns if not c.blocking]
        audit_conns = [c for c in w.conns if c.blocking]
        gexn = len([k for k in kexes if 'group-exchange' in k])
        cap_audit = 1 + nkeys + 9 * gexn
        if len(audit_conns) > cap_audit:
            st.violation('rate:%s:too-many-audit-connections' % btag, dict(detail, n=len(audit_conns), cap=cap_audit))
        if mode == 'skip':
            if rate_conns:
                st.violation('rate:%s:rate-check-ran-although-skipped' % btag, dict(detail, n=len(rate_conns)))
        else:
            # "at most a few dozen short-lived ones": 38 completed + 3 in flight, and attempts bounded likewise
            if len(rate_conns) > 38 + 3 + 3:
                st.violation('rate:%s:too-many-rate-connections' % btag, dict(detail, n=len(rate_conns)))
        live, peak = set(), 0
        for ev in w.log:
            if ev[0] == 'established':
                live.add(ev[1])
                peak = max(peak, len(live))
            elif ev[0] in ('close', 'recv-rst', 'peer-reset-seen'):      # a connection the peer has aborted no longer exists on the target
                live.discard(ev[1])
        if peak > 3:
            st.violation('rate:%s:too-many-concurrent' % btag, dict(detail, peak=peak))
        gc.collect()
        leaked = [s.fd for s in w.sockets if not s.closed]
        if leaked:
            st.violation('rate:%s:socket-left-open' % btag, dict(detail, n=len(leaked)))
        for r in srv.records:
            if r['index'] >= len(audit_conns) and r.get('packets_in'):
                st.violation('rate:%s:data-sent-on-rate-connection' % btag, dict(detail, conn=r['index']))
        if res.clock > 5.0 * (len(audit_conns) + 2) + 2.5:
            st.violation('rate:%s:too-slow' % btag, dict(detail, clock=res.clock))
        st.sample(dict(detail, audit_connections=len(audit_conns), rate_connections=len(rate_conns), peak_concurrent=peak), cap=10)


# ---- a server that answers some of the audit's connections with a notice (MaxStartups, tcp wrappers, a load balancer's text) in place
# of its identification string and hangs up: which connections, by position (all / every other / the first k / all but the first / every
# third).  The bounds are per phase whatever is refused: a handshake that never completes is ONE connection (two with the SSH-1 fallback),
# and the probes stay within one per host-key type and nine per group-exchange method
THROTTLE_PATTERNS = {'always': lambda i: True, 'even': lambda i: i % 2 == 0, 'odd': lambda i: i % 2 == 1, 'first': lambda i: i < 1, 'first-two': lambda i: i < 2,
                     'all-but-first': lambda i: i >= 1, 'every-third': lambda i: i % 3 == 2, 'second-only': lambda i: i == 1}


def throttle_tasks():
    out = []
    for pat in THROTTLE_PATTERNS:
        for notice in range(len(P.NOTICES)):
            for kexes in (('curve25519-sha256',), ('diffie-hellman-group14-sha256', 'diffie-hellman-group-exchange-sha256'), ('diffie-hellman-group-exchange-sha1', 'diffie-hellman-group-exchange-sha256', 'curve25519-sha256')):
                for nkeys in (1, 3):
                    for mode in ('standard', 'json', 'policy'):
                        out.append((pat, notice, kexes, nkeys, mode))
    return out


def work_throttle(chunk, st):
    for pat, notice, kexes, nkeys, mode in chunk:
        keys = ['ssh-ed25519', 'rsa-sha2-512', 'ecdsa-sha2-nistp256'][:nkeys]
        srv = P.Server(label='TH', kex=list(kexes), key=keys, host_keys=P.standard_host_keys(keys), gex=P.GexPolicy([2048, 4096], P.STRICT), banner=b'SSH-2.0-OpenSSH_8.9p1')
        f = THROTTLE_PATTERNS[pat]
        srv.conn_behaviour = lambda i, f=f, notice=notice: ('notice', notice) if f(i) else 'normal'
        opts = ['-n', '--skip-rate-test'] + {'standard': [], 'json': ['-j'], 'policy': ['-P', 'Hardened OpenSSH Server v9.6 (version 1)']}[mode]
        if mode == 'policy' and 'Hardened OpenSSH Server v9.6 (version 1)' not in runner.M['builtin_policies'].BUILTIN_POLICIES:
            opts = opts[:2] + ['-P', sorted(k for k, v in runner.M['builtin_policies'].BUILTIN_POLICIES.items() if v['server_policy'])[0]]
        res = H.audit(srv, opts=opts)
        res.peer = srv
        n = len(res.world.conns)
        root = ('throttle', pat, notice, kexes, nkeys, mode)
        st.execution(res.world, outcome=('throttle', pat, res.status, n), root=root, nontrivial=root)
        d = {'connections_answered_with_a_notice': pat, 'notice': P.NOTICES[notice].decode(), 'kex': list(kexes), 'host_keys': nkeys, 'mode': mode, 'connections': n}
        judge(res, 'A', [], False, st, d)
        if f(0) and n > 1 and not res.hang:
            st.violation('throttle:handshake-never-completed-but-%s-connections' % ('2-4' if n <= 4 else 'many'), dict(d, status=res.status))
        if not f(0):
            # per phase: connections after the first one, against the probes the offer allows
            HK = runner.M['hostkeytest'].HostKeyTest
            allowed = len(set(t for t in keys if t in HK.HOST_KEY_TYPES)) + 9 * len(set(k for k in kexes if k in P.GEX_NAMES))
            if n - 1 > allowed:
                st.violation('throttle:more-probe-connections-than-probes', dict(d, allowed=allowed))
    st.sample({'throttled_connections': chunk[0][0], 'notice': P.NOTICES[chunk[0][1]].decode()}, cap=4)


def check_no_dos_without_option(st):
    """The denial-of-service and rate-flood features run only when explicitly requested."""
    src = open(runner.M['ssh_audit'].__file__).read()
    # dynamic: under every ordinary option set the connection pattern stays that of a standard audit
    for opts in ([], ['-b'], ['-v'], ['-j'], ['-l', 'warn'], ['-2'], ['-4'], ['-t', '3'], ['-d'], ['--skip-rate-test']):
        srv = P.Server(label='N', kex=['curve25519-sha256', 'diffie-hellman-group14-sha256'], key=['ssh-ed25519'], host_keys=P.standard_host_keys(['ssh-ed25519']))
        w = H.world_for(srv)
        res = runner.run_cli(['-n'] + opts + [H.HOST], w)
        st.execution(w, outcome=('opts', tuple(opts), len(w.conns)), root=('opts', tuple(opts)), nontrivial=('opts', tuple(opts)))
        kexinits = sum(1 for r in srv.records for pk in r.get('packets_in', []) if pk['type'] in (30, 32, 34))
        if len(w.conns) > 2 + 38 + 6 or kexinits > 1:
            st.violation('dos-pattern-without-option:%s' % ' '.join(opts), {'opts': opts, 'connections': len(w.conns), 'kex_requests': kexinits})


def run(tier, seed):
    t0 = time.time()
    st = evidence.Stats()
    tasks = []
    if tier == 'quick':
        spec = [('A', True, 'message', 1), ('B', True, 'message', 1), ('C', True, 'message', 1), ('D1', True, 'message', 1), ('D2', True, 'message', 1),
                ('E', True, 'message', 1), ('E2', True, 'message', 1), ('F', True, 'message', 1), ('G', True, 'message', 1), ('DUP', True, 'message', 1), ('DUP', False, 'message', 1)]
    else:
        spec = [(a, s, 'full', 2) for a in ('A', 'B', 'C', 'D1', 'D2', 'E', 'E1', 'E2', 'F', 'G', 'DUP') for s in (True, False)
                if not (s is False and a in ('A', 'D1', 'D2', 'E', 'E1', 'E2', 'F', 'G'))]
    for arch, short, level, step in spec:
        sc = F.scenario(arch, short)
        base, plans = explore.first_level_tasks(sc, level=level, trunc_step=step)
        tasks.append((arch, short, [], False))
        tasks += [(arch, short, p, False) for p in plans]
        if arch in ('B', 'C', 'D1') and short:
            tasks.append((arch, short, [], True))
            tasks += [(arch, short, p, True) for p in plans if p[0][1][0] in ('trunc_close', 'trunc_stall', 'reset', 'refuse', 'timeout') and (p[0][1] + [0, 0])[1] == 0]
    par.pmap(work_faults, tasks, stats=st)
    rate_tasks = []
    for beh in RATE_BEHAVIOURS:
        for kexes in (('curve25519-sha256',), ('diffie-hellman-group14-sha256', 'diffie-hellman-group-exchange-sha256'), ('sntrup761x25519-sha512@openssh.com',)):
            for nkeys in (1, 3):
                for mode in ('standard', 'policy', 'make', 'skip', 'verbose', 'debug-batch'):
                    for latency in ((0.01, 0.05, 0.2) if tier != 'quick' else (0.01, 0.1)):
                        rate_tasks.append((beh, kexes, nkeys, mode, latency))
    import itertools as _it
    for n in (2, 3):
        for pat in _it.product(RATE_ALPHABET, repeat=n):
            if len(set(pat)) < 2:
                continue
            if tier == 'quick' and n == 3 and pat[0] != 'normal':
                continue
            for latency in ((0.01,) if tier == 'quick' else (0.01, 0.05)):
                rate_tasks.append((pat, ('curve25519-sha256',), 1, 'standard', latency))
    for pat in (('normal', 'etimedout-async'), ('etimedout-async', 'normal', 'normal'), ('normal', 'normal', 'econnreset-async'), ('normal', 'epipe-async'), ('exceeded', 'etimedout-async'),
                ('normal', 'reset'), ('silent', 'etimedout-async')):
        for latency in (0.01, 0.1):
            rate_tasks.append((pat, ('curve25519-sha256',), 1, 'standard', latency))
    par.pmap(work_rate, rate_tasks, stats=st)
    mt = [(k, n, skip, f) for k in (('curve25519-sha256',), ('diffie-hellman-group14-sha256', 'diffie-hellman-group-exchange-sha256')) for n in (1, 3)
          for skip in (True, False) for f in ('text', 'json')]
    mt += [t + ('one-host-two-ports',) for t in mt]
    par.pmap(work_multi_skip, mt, stats=st, chunk=2)
    par.pmap(work_throttle, throttle_tasks(), stats=st, chunk=12)
    from props import c09
    par.pmap(work_degenerate, c09.degenerate_gex_tasks(), stats=st, procs=1)
    from props import zoo
    par.pmap(work_zoo, zoo.names(tier), stats=st, chunk=6)
    from props import delivery as _DL
    par.pmap(_DL.work, _DL.tasks(tier), extra=(('connections',),), stats=st, chunk=12)
    from props import decor as _DC
    par.pmap(_DC.work, _DC.tasks(tier), extra=(('footprint',),), stats=st, chunk=8)
    check_no_dos_without_option(st)
    vcases = []
    for arch, short, plan, rate in H.pick([t for t in tasks if not t[3] and t[0] != 'G'], seed, 20 if tier == 'quick' else 100):
        a = F.ARCHETYPES[arch]
        vcases.append({'label': 'C19 %s %s' % (arch, plan), 'opts': ['-n'] + a['opts'], 'make': (lambda a=a, short=short: a['make'](short)),
                       'faults': {tuple(k): tuple(f) for k, f in plan}})
    validated = H.validate_traces(vcases, st)
    return evidence.finish(
        PID, tier, seed, st, t0,
        rule='servers answering connections (all / every other / the first k / all but the first / every third) with one of %d notices instead of an identification string x 3 kex sets x {1,3} host keys x {text, JSON, policy}: one connection when the handshake never completes, probes within one per key type and nine per group-exchange method; ' % len(P.NOTICES) + 'connection-log monitor over: (a) the C09 fault space (every archetype, %s faults, with the rate check skipped; message-level close/stall/'
             'reset/refuse faults again with the rate check on for B, C, D1); (b) rate-phase behaviours %s (and every repeating pattern of 2-3 different '
             'per-connection answers over {banner, close, MaxStartups, refuse, silent}) x 3 kex sets x {1,3} host keys x {standard, '
             '-P, -M, --skip-rate-test} x select latencies; (c) ordinary option sets never produce a flood pattern; (d) two targets in one -T invocation with the rate check skipped and on; (e) degenerate group-exchange groups; (f) the cooperative peers of props/zoo.py (every host-key type, certificate, GEX policy, SSH-1). Bounds: connections <= initial + '
             'probed host-key types + 9 per GEX algorithm (+ 38 completed, 3 concurrent for the rate check; 0 when skipped or no DH kex), key-exchange '
             'requests only on probe connections and one exchange per connection, every socket closed at exit' % (
                 'message-level' if tier == 'quick' else 'all (truncation every 2nd byte)', RATE_BEHAVIOURS),
        assumptions=['the virtual clock advances by select_latency per productive select() and by the timeout otherwise', 'sockets still referenced after a gc.collect() count as left open'],
        exhaustive=True, traces_validated=validated)


def replay(path):
    v = json.load(open(path))
    d = v['detail']
    st = evidence.Stats()
    if 'rate_behaviour' in d:
        rb = d['rate_behaviour']
        work_rate([(tuple(rb) if isinstance(rb, list) else rb, tuple(d['kex']), d['host_keys'], d['mode'], d['select_latency'])], st)
    else:
        work_faults([(d['arch'], d['short'], d['plan'], d['rate'])], st)
    for x in st.violations:
        print('replayed:', x['sig'], json.dumps(x['detail'])[:500])
    return 1 if st.violations else 0
