"""C05 - a policy made from a target passes on that target and fails on any drift; built-in policies pass on matching peers."""
import copy
import itertools
import json
import os
import time

from mc import evidence, harness as H, par, peer as P, report, runner, wire

PID = 'C05'

KEX_VARIANTS = [
    ['curve25519-sha256'],
    ['curve25519-sha256', 'diffie-hellman-group-exchange-sha256'],
    ['gss-gex-sha1-dZuIebMjgUqaxvbF7hDbAw==', 'curve25519-sha256', 'gss-group14-sha256-a+b/c0=='],
    ['curve25519-sha256@libssh.org', 'kex+odd/name@example.org', 'kex-strict-s-v00@openssh.com'],
    ['sntrup761x25519-sha512@openssh.com', 'ext-info-s'],
    ['diffie-hellman-group-exchange-sha1', 'curve25519-sha256', 'diffie-hellman-group-exchange-sha256'],
]
GEX1, GEX256 = 'diffie-hellman-group-exchange-sha1', 'diffie-hellman-group-exchange-sha256'
GEX_PAIRS = [(2048, 3072), (3072, 3072), (1024, 4096), (4096, 2048)]     # (sha1, sha256) moduli of a server offering both
ENC_VARIANTS = [['aes256-ctr'], ['chacha20-poly1305@openssh.com', 'aes128-ctr', 'aes128-cbc'], ['aes256-gcm@openssh.com', 'enc+odd/name@example.org']]
MAC_VARIANTS = [['hmac-sha2-256'], ['umac-128-etm@openssh.com', 'hmac-sha2-512', 'hmac-sha1']]
KEY_CONFIGS = [
    ('ed', ['ssh-ed25519'], {}),
    ('rsa2048', ['rsa-sha2-512', 'ssh-rsa'], {'rsa_bits': 2048}),
    ('rsa3072ed', ['ssh-ed25519', 'rsa-sha2-256'], {'rsa_bits': 3072}),
    ('rsa4096', ['rsa-sha2-512'], {'rsa_bits': 4096}),
    ('rsacert', ['ssh-rsa-cert-v01@openssh.com', 'ssh-ed25519'], {'rsa_bits': 3072, 'ca': 'rsa', 'ca_bits': 4096}),
    ('edcert-edca', ['ssh-ed25519-cert-v01@openssh.com'], {'ca': 'ed25519'}),
    ('edcert-rsaca', ['ssh-ed25519-cert-v01@openssh.com', 'ssh-ed25519'], {'ca': 'rsa', 'ca_bits': 2048}),
    ('edcert-ecca', ['ssh-ed25519-cert-v01@openssh.com'], {'ca': 256}),
    # several certificates, each signed by a CA of another kind (they are measured one after the other)
    ('twocerts-rsaca-edca', ['rsa-sha2-512-cert-v01@openssh.com', 'ssh-ed25519-cert-v01@openssh.com'], {'rsa_bits': 3072, 'ca': 'rsa', 'ca_bits': 4096, 'ca_by_alg': {'ssh-ed25519-cert-v01@openssh.com': ('ed25519', 256)}}),
    ('twocerts-ecca-edca', ['ssh-rsa-cert-v01@openssh.com', 'ssh-ed25519-cert-v01@openssh.com', 'ssh-ed25519'], {'rsa_bits': 2048, 'ca': 384, 'ca_by_alg': {'ssh-ed25519-cert-v01@openssh.com': ('ed25519', 256)}}),
    ('twocerts-edca-rsaca', ['rsa-sha2-256-cert-v01@openssh.com', 'ssh-ed25519-cert-v01@openssh.com'], {'rsa_bits': 4096, 'ca': 'ed25519', 'ca_by_alg': {'ssh-ed25519-cert-v01@openssh.com': ('rsa', 2048)}}),
    # several algorithm names of the RSA certificate family, each backed by a certificate of its own
    ('rsacerts-2-cas', ['rsa-sha2-256-cert-v01@openssh.com', 'rsa-sha2-512-cert-v01@openssh.com'], {'rsa_bits': 3072, 'ca': 'rsa', 'ca_bits': 4096, 'ca_by_alg': {'rsa-sha2-512-cert-v01@openssh.com': ('ed25519', 256)}}),
    ('rsacerts-3-cas', ['rsa-sha2-512-cert-v01@openssh.com', 'ssh-rsa-cert-v01@openssh.com', 'rsa-sha2-256-cert-v01@openssh.com', 'ssh-ed25519'],
     {'rsa_bits': 4096, 'ca': 'rsa', 'ca_bits': 3072, 'ca_by_alg': {'ssh-rsa-cert-v01@openssh.com': (384, 384), 'rsa-sha2-256-cert-v01@openssh.com': ('rsa', 2048)}}),
]
GEX_SIZES = [1024, 2048, 3072, 4096]
# values of the free-form parts of a host certificate (none of them is a recorded attribute; all of them are the peer's to choose)
CERT_FIELD_SETS = {
    'id-empty': {'key_id': b''}, 'id-utf8': {'key_id': 'h\u00f4te-web-01'.encode()}, 'id-latin1': {'key_id': b'h\xf4te'}, 'id-0x80': {'key_id': b'\x80'}, 'id-0xff': {'key_id': b'\xff\xff\xff'},
    'id-nul-tab': {'key_id': b'a\x00b\tc'}, 'id-long': {'key_id': b'k' * 300}, 'id-punct': {'key_id': b'# , = + / @'},
    'principals-none': {'principals': []}, 'principals-many-nonascii': {'principals': [b'a.example', 'b\u00fccher.example'.encode(), b'\xff']},
    'serial-max': {'serial': 2 ** 64 - 1}, 'serial-zero': {'serial': 0}, 'validity-inverted': {'valid_after': 2 ** 63, 'valid_before': 1},
    'critical-and-extensions': {'critical': b'\x00\x00\x00\x03abc\x00\x00\x00\x00', 'extensions': b'\x00\x00\x00\x01\xe9\x00\x00\x00\x00'}, 'nonce-short-0xff': {'nonce': b'\xff'},
    'reserved-nonempty': {'reserved': b'\x80\x81'},
}
INSERT = {'kex': 'diffie-hellman-group14-sha256', 'key': 'ssh-dss', 'enc': 'aes192-ctr', 'mac': 'hmac-md5'}
FIELD = {'kex': 'Key exchanges', 'key': 'Host keys', 'enc': 'Ciphers', 'mac': 'MACs'}


def peers(tier):
    out = []
    for (kn, keys, kw), kexv, encv, macv in itertools.product(KEY_CONFIGS, range(len(KEX_VARIANTS)), range(len(ENC_VARIANTS)), range(len(MAC_VARIANTS))):
        ngex = sum(1 for k in KEX_VARIANTS[kexv] if 'group-exchange' in k)
        gexs = [None] if ngex == 0 else (GEX_SIZES if ngex == 1 else [{GEX1: a, GEX256: b} for a, b in GEX_PAIRS])
        for g in gexs:
            spec = {'kn': kn, 'kex': KEX_VARIANTS[kexv], 'key': keys, 'enc': ENC_VARIANTS[encv], 'mac': MAC_VARIANTS[macv], 'hk': kw, 'gex': g}
            out.append(spec)
    if tier == 'quick':
        out = [s for i, s in enumerate(out) if i % 3 == 0]
    # group exchange as the *first* usable key exchange (so the host-key probes run over it), served from a moduli file that ignores the
    # requested minimum (round-up style): every measured attribute is still recorded and its drift detected
    for (kn, keys, kw) in KEY_CONFIGS[1:5]:
        for g in (768, 1024, 2048):
            out.append({'kn': kn + '-gexfirst', 'kex': ['kex+odd/name@example.org', 'diffie-hellman-group-exchange-sha256', 'curve25519-sha256'], 'key': keys,
                        'enc': ENC_VARIANTS[0], 'mac': MAC_VARIANTS[0], 'hk': kw, 'gex': g, 'gex_style': P.LENIENT})
    for kn, keys, kw in (KEY_CONFIGS[4], KEY_CONFIGS[6], KEY_CONFIGS[8]):
        for label in sorted(CERT_FIELD_SETS):
            out.append({'kn': '%s-%s' % (kn, label), 'kex': KEX_VARIANTS[0], 'key': keys, 'enc': ENC_VARIANTS[0], 'mac': MAC_VARIANTS[0], 'hk': dict(kw, cert_fields=label), 'gex': None})
    # group exchange as the ONLY key exchange the host-key probes can use (alone; between a post-quantum method and the strict-KEX marker)
    for (kn, keys, kw) in KEY_CONFIGS[1:5]:
        for kexl in (['diffie-hellman-group-exchange-sha256'], ['sntrup761x25519-sha512@openssh.com', 'diffie-hellman-group-exchange-sha256', 'kex-strict-s-v00@openssh.com'],
                     ['diffie-hellman-group-exchange-sha1', 'diffie-hellman-group-exchange-sha256']):
            out.append({'kn': kn + '-gexonly', 'kex': kexl, 'key': keys, 'enc': ENC_VARIANTS[0], 'mac': MAC_VARIANTS[0], 'hk': kw,
                        'gex': 2048 if len([k for k in kexl if 'group-exchange' in k]) == 1 else {GEX1: 2048, GEX256: 3072}})
    # names at the length RFC 4251 allows at most (64), one below and one above, in every list
    for n in (63, 64, 65):
        nm = lambda c: (c + '-' + 'x' * 80)[:n - 12] + '@example.org'
        out.append({'kn': 'names-of-%d-characters' % n, 'kex': ['curve25519-sha256', nm('kex')], 'key': ['ssh-ed25519', nm('key')], 'enc': [nm('enc'), 'aes256-ctr'],
                    'mac': ['hmac-sha2-256', nm('mac'), 'hmac-sha2-512'], 'hk': {}, 'gex': None})
    # names with every punctuation character RFC 4251 allows in a name (printable US-ASCII without the comma), one character per name,
    # spread over the four lists: what -M writes, -P reads back as the same names
    punct = [c for c in map(chr, range(33, 127)) if not c.isalnum() and c != ',']
    for k in range(0, len(punct), 8):
        grp = punct[k:k + 8]
        nm = lambda c, i: '%s%s%s-%d@pq.example.org' % (c, grp[i % len(grp)], 'x' if i % 2 else '256', i)
        out.append({'kn': 'punctuation-%d' % k, 'kex': ['curve25519-sha256', nm('kex', 0), nm('mlkem', 1)], 'key': ['ssh-ed25519', nm('key', 2), nm('hk', 3)],
                    'enc': [nm('enc', 4), 'aes256-ctr', nm('aes', 5)], 'mac': ['hmac-sha2-256', nm('mac', 6), nm('hmac', 7)], 'hk': {}, 'gex': None})
    # legal but unusual shapes: an empty name-list (AEAD-only server without MACs, GSSAPI-only server without host keys, ...)
    for cat in ('kex', 'key', 'enc', 'mac'):
        spec = {'kn': 'empty-' + cat, 'kex': ['curve25519-sha256'], 'key': ['ssh-ed25519'], 'enc': ['aes256-gcm@openssh.com'],
                'mac': ['hmac-sha2-256'], 'hk': {}, 'gex': None}
        spec[cat] = []
        out.append(spec)
    return out


def make_server(spec):
    hkw = dict(spec['hk'])
    if isinstance(hkw.get('cert_fields'), str):
        hkw['cert_fields'] = CERT_FIELD_SETS[hkw['cert_fields']]
    hk = P.standard_host_keys(spec['key'], **hkw)
    g = spec.get('gex')
    style = spec.get('gex_style', P.STRICT)
    gex = ({a: P.GexPolicy([v], style) for a, v in g.items()} if isinstance(g, dict) else P.GexPolicy([g], style)) if g else None
    return P.Server(kex=spec['kex'], key=spec['key'], enc=spec['enc'], mac=spec['mac'], enc_c2s=spec.get('enc_c2s'), mac_c2s=spec.get('mac_c2s'),
                    host_keys=hk, gex=gex, banner=b'SSH-2.0-dropbear_2022.83')


def make_client(spec):
    return P.Client(kex=spec['kex'], key=spec['key'], enc=spec.get('enc_c2s', spec['enc']), mac=spec.get('mac_c2s', spec['mac']),
                    enc_s2c=spec['enc'], mac_s2c=spec['mac'], banner=b'SSH-2.0-OpenSSH_9.6')


def perturbations(spec, role):
    out = []
    for cat in ('kex', 'key', 'enc', 'mac'):
        lst = spec[cat]
        for i in range(len(lst) + 1):
            s = copy.deepcopy(spec)
            s[cat] = lst[:i] + [INSERT[cat]] + lst[i:]
            out.append(('insert:%s' % cat, FIELD[cat], s))
        if len(lst) > 1:
            for i in range(len(lst)):
                s = copy.deepcopy(spec)
                s[cat] = lst[:i] + lst[i + 1:]
                out.append(('delete:%s' % cat, FIELD[cat], s))
            for i in range(len(lst) - 1):
                if lst[i] != lst[i + 1]:
                    s = copy.deepcopy(spec)
                    s[cat] = lst[:i] + [lst[i + 1], lst[i]] + lst[i + 2:]
                    out.append(('swap:%s' % cat, FIELD[cat], s))
    if role == 'server':
        probing = any(k in ('curve25519-sha256', 'curve25519-sha256@libssh.org', 'diffie-hellman-group-exchange-sha256') for k in spec['kex'])
        hk = spec['hk']
        if probing and 'rsa_bits' in hk and any('rsa' in k for k in spec['key']):
            for nb in (hk['rsa_bits'] + 1024, hk['rsa_bits'] - 1024, hk['rsa_bits'] - 1, hk['rsa_bits'] + 8):
                s = copy.deepcopy(spec)
                s['hk']['rsa_bits'] = nb
                out.append(('hostkey-size' if abs(nb - hk['rsa_bits']) > 8 else 'hostkey-size-by-a-few-bits', 'Host key (', s))
        if probing and hk.get('ca') == 'rsa':
            for nb in (hk['ca_bits'] + 1024, hk['ca_bits'] - 1024, hk['ca_bits'] - 1, hk['ca_bits'] - 15):
                s = copy.deepcopy(spec)
                s['hk']['ca_bits'] = nb
                out.append(('ca-size' if abs(nb - hk['ca_bits']) > 15 else 'ca-size-by-a-few-bits', 'CA signature size', s))
            s = copy.deepcopy(spec)
            s['hk'] = dict(hk, ca='ed25519')
            out.append(('ca-type', 'CA signature type', s))
        if probing and hk.get('ca') == 'ed25519':
            s = copy.deepcopy(spec)
            s['hk'] = dict(hk, ca='rsa', ca_bits=4096)
            out.append(('ca-type', 'CA signature type', s))
            # the same curve behind a FIDO authenticator is another kind of CA key
            s = copy.deepcopy(spec)
            s['hk'] = dict(hk, ca='sk-ed25519')
            out.append(('ca-type-plain-to-security-key', 'CA signature type', s))
        # the certificate behind ONE algorithm name changes its CA (the other certificates stay as they are)
        for alg, (ca, cab) in sorted((hk.get('ca_by_alg') or {}).items()) if probing else ():
            if ca == 'rsa':
                for nb in (cab + 1024, cab - 1024):
                    s = copy.deepcopy(spec)
                    s['hk']['ca_by_alg'][alg] = ('rsa', nb)
                    out.append(('ca-size-of-one-certificate', 'CA signature size', s))
            s = copy.deepcopy(spec)
            s['hk']['ca_by_alg'][alg] = ('rsa', 4096) if ca != 'rsa' else ('ed25519', 256)
            out.append(('ca-type-of-one-certificate', 'CA signature type', s))
        if isinstance(spec.get('gex'), dict):
            for alg in sorted(spec['gex']):
                for g in GEX_SIZES:
                    if g != spec['gex'][alg]:
                        s = copy.deepcopy(spec)
                        s['gex'][alg] = g
                        out.append(('modulus-size-one-of-two', 'Group exchange (%s)' % alg, s))
        elif spec.get('gex'):
            for g in GEX_SIZES:
                if g != spec['gex']:
                    s = copy.deepcopy(spec)
                    s['gex'] = g
                    out.append(('modulus-size', 'Group exchange (', s))
            # (a server that hands out groups by rounding up / leniently: a strict one answers exact requests only, and the tool asks for
            # round sizes - a group of 3071 bits is then never seen at all, which is the probe sequence's reach and C12's subject)
            if spec.get('gex_style', P.STRICT) != P.STRICT and spec['gex'] >= 1024:
                for g in (spec['gex'] - 1, spec['gex'] - 2, spec['gex'] - 3, spec['gex'] - 7):
                    s = copy.deepcopy(spec)
                    s['gex'] = g
                    out.append(('modulus-size-by-a-few-bits', 'Group exchange (', s))
    return out


def audit(spec, role, extra, stdout_mode='capture'):
    if role == 'server':
        return H.audit(make_server(spec), opts=['-n', '--skip-rate-test'] + extra, stdout_mode=stdout_mode)
    return H.client_audit(make_client(spec), opts=['-n'] + extra)


def true_sizes(spec):
    """what the scripted peer really presents: {host key type: (size, CA type, CA size)} for the types the tool measures, {gex alg: modulus}"""
    hk = spec['hk']
    probing = any(k in runner.M['hostkeytest'].HostKeyTest.KEX_TO_DHGROUP if hasattr(runner.M['hostkeytest'].HostKeyTest, 'KEX_TO_DHGROUP') else False for k in spec['kex']) or \
        any(k in ('curve25519-sha256', 'curve25519-sha256@libssh.org', 'sntrup761x25519-sha512@openssh.com') or 'group-exchange' in k for k in spec['kex'])
    keys = {}
    for a in spec['key']:
        ca, ca_bits = (hk.get('ca_by_alg') or {}).get(a, (hk.get('ca', 'ed25519'), hk.get('ca_bits', 3072)))
        cat, cas = ('ssh-ed25519', 256) if ca == 'ed25519' else ('ssh-rsa', ca_bits) if ca == 'rsa' else ('ecdsa-sha2-nistp%d' % ca, ca)
        if a in P.RSA_FAMILY:
            keys[a] = (hk.get('rsa_bits', 3072), None, None)
        elif a == 'ssh-ed25519':
            keys[a] = (256, None, None)
        elif a in ('ssh-rsa-cert-v01@openssh.com', 'rsa-sha2-256-cert-v01@openssh.com', 'rsa-sha2-512-cert-v01@openssh.com'):
            keys[a] = (hk.get('rsa_bits', 3072), cat, cas)
        elif a == 'ssh-ed25519-cert-v01@openssh.com':
            keys[a] = (256, cat, cas)
    g = spec.get('gex')
    dh = {}
    for k in spec['kex']:
        if k in (GEX1, GEX256) and g:
            dh[k] = g[k] if isinstance(g, dict) else g
    return keys, dh


def recorded_sizes_problems(spec, text):
    import re
    probs = []
    keys, dh = true_sizes(spec)
    m = re.search(r'^host_key_sizes = (.*)$', text, re.M)
    rec = json.loads(m.group(1)) if m else {}
    for a, (size, cat, cas) in keys.items():
        r = rec.get(a)
        if r is None:
            continue        # whether a type is measured at all is C11's business; what is recorded must be true
        if r.get('hostkey_size') != size:
            probs.append(('host-key-size', {a: r}, size))
        if cat is not None and (r.get('ca_key_type') != cat or r.get('ca_key_size') != cas):
            probs.append(('ca-details', {a: r}, [cat, cas]))
    m = re.search(r'^dh_modulus_sizes = (.*)$', text, re.M)
    rec = json.loads(m.group(1)) if m else {}
    for k, v in dh.items():
        if k in rec and rec[k] != v:
            probs.append(('modulus-size', {k: rec[k]}, v))
    return probs


def name_class(spec):
    names = spec['kex'] + spec['enc'] + spec['mac'] + spec['key']
    tags = []
    if any('=' in n for n in names):
        tags.append('equals-sign')
    return '+'.join(tags) or 'plain'


def check_peer(task, st):
    spec, role = task
    path = H.tmp_path('c05-%d.policy' % os.getpid())
    if os.path.exists(path):
        os.unlink(path)
    r0 = audit(spec, role, ['-M', path])
    st.execution(r0.world, outcome=('make', r0.status), root=('make', json.dumps(spec, sort_keys=True), role))
    if not os.path.exists(path) or r0.status != 0:
        st.violation('make-policy-failed:%s' % role, {'spec': spec, 'role': role, 'status': r0.status, 'stdout': r0.stdout[-300:]})
        return
    if role == 'server':
        for what, got, want in recorded_sizes_problems(spec, open(path).read()):
            st.violation('made-policy-records-wrong-%s' % what, {'spec': spec, 'recorded': got, 'true': want})
    r1 = audit(spec, role, ['-P', path, '-j'])
    st.execution(r1.world, outcome=('same', r1.status), root=('same', json.dumps(spec, sort_keys=True), role), nontrivial=('same', json.dumps(spec, sort_keys=True), role))
    ok = False
    if r1.status == 0:
        try:
            d = json.loads(r1.stdout)
            ok = d.get('passed') is True and d.get('errors') == []
        except ValueError:
            ok = False
    if not ok:
        last = [l for l in r1.stdout.strip().split('\n') if l.strip()][-1:] or ['']
        kind = 'policy-does-not-load' if 'Error while loading policy file' in r1.stdout else 'fails-on-same-peer'
        st.violation('%s:%s:%s' % (kind, role, name_class(spec)), {'spec': spec, 'role': role, 'status': r1.status, 'stdout': r1.stdout[:600], 'policy_file': open(path).read()[-600:]})
        return
    # the verdict document is the same whatever output options accompany -j (indentation, minimum level, verbosity)
    for oo in (['-jj'], ['-j', '-l', 'warn'], ['-jj', '-l', 'fail'], ['-j', '-v']):
        ro = audit(spec, role, ['-P', path] + oo)
        st.execution(ro.world, outcome=('same-opts', ' '.join(oo), ro.status), root=('same-opts', ' '.join(oo), json.dumps(spec, sort_keys=True), role))
        try:
            do = json.loads(ro.stdout)
        except ValueError:
            do = None
        if ro.status != 0 or do != d:
            st.violation('same-peer-verdict-depends-on-output-options:%s:%s' % (role, ' '.join(oo)), {'spec': spec, 'status': ro.status, 'stdout': ro.stdout[:300]})
    if role == 'server':
        # started from cron / a daemon wrapper with stdout closed: the verdict is still delivered through the exit status
        rc = audit(spec, role, ['-P', path], stdout_mode='closed')
        st.execution(rc.world, outcome=('same-closed-stdout', rc.status), root=('same-closed', json.dumps(spec, sort_keys=True), role))
        if rc.status != 0 or rc.exc:
            st.violation('fails-on-same-peer:stdout-closed', {'spec': spec, 'status': rc.status, 'exc': rc.exc})
    rt = audit(spec, role, ['-P', path])
    pt = report.PolicyText(rt.stdout)
    if rt.status != 0 or pt.result != 'passed':
        st.violation('fails-on-same-peer-text:%s' % role, {'spec': spec, 'status': rt.status, 'stdout': rt.stdout[:400]})
    n_drift = 0
    for kind, field, s2 in perturbations(spec, role):
        r2 = audit(s2, role, ['-P', path, '-j'])
        st.execution(r2.world, outcome=('drift', kind, r2.status), root=('drift', kind, json.dumps(s2, sort_keys=True), role),
                     nontrivial=('drift', kind, json.dumps(s2, sort_keys=True), role))
        try:
            d = json.loads(r2.stdout)
        except ValueError:
            d = None
        if r2.status != 3 or d is None or d.get('passed') is not False:
            st.violation('drift-not-detected:%s:%s' % (role, kind), {'spec': spec, 'perturbed': s2, 'status': r2.status, 'stdout': r2.stdout[:400]})
            continue
        fields = [e['mismatched_field'] for e in d.get('errors', [])]
        if not any(f.startswith(field) for f in fields):
            st.violation('drift-field-not-named:%s:%s' % (role, kind), {'spec': spec, 'perturbed': s2, 'fields': fields, 'expected_field': field})
        if n_drift % 4 == 0:
            oo = (['-jj', '-l', 'warn'], ['-j', '-l', 'fail'])[(n_drift // 4) % 2]
            r3 = audit(s2, role, ['-P', path] + oo)
            st.execution(r3.world, outcome=('drift-opts', kind, r3.status), root=('drift-opts', ' '.join(oo), kind, json.dumps(s2, sort_keys=True), role))
            try:
                d3 = json.loads(r3.stdout)
            except ValueError:
                d3 = None
            if r3.status != 3 or d3 != d:
                st.violation('drift-verdict-depends-on-output-options:%s:%s' % (role, ' '.join(oo)), {'spec': spec, 'perturbed': s2, 'status': r3.status, 'stdout': r3.stdout[:300]})
        n_drift += 1
    if os.path.exists(path):
        os.unlink(path)


def work(chunk, st):
    for task in chunk:
        check_peer(task, st)
        if len(st.samples) < 2:
            st.sample({'peer': task[0], 'role': task[1], 'perturbations': len(perturbations(task[0], task[1]))})


# ---- one generated policy applied to a list of targets in one invocation (-T): the verdict of each target is the one it gets alone
def history_tasks(ps, tier):
    out = []
    pool = [s for s in ps if perturbations(s, 'server')]
    step = max(1, len(pool) // (8 if tier == 'quick' else 40))
    for spec in pool[::step]:
        perts = perturbations(spec, 'server')
        kinds = {}
        for kind, field, s2 in perts:
            kinds.setdefault(kind, (kind, field, s2))
        picks = list(kinds.values())[:3 if tier == 'quick' else 8]
        for kind, field, s2 in picks:
            out.append((spec, [('drift', field, s2), ('same', None, spec)]))
            out.append((spec, [('same', None, spec), ('drift', field, s2), ('same', None, spec)]))
        if len(picks) >= 2:
            out.append((spec, [('drift', picks[0][1], picks[0][2]), ('drift', picks[1][1], picks[1][2]), ('same', None, spec)]))
    return out


def work_history(chunk, st):
    for spec, seq in chunk:
        path = H.tmp_path('c05-hist-%d.policy' % os.getpid())
        if os.path.exists(path):
            os.unlink(path)
        r0 = audit(spec, 'server', ['-M', path])
        if r0.status != 0 or not os.path.exists(path):
            continue        # reported by check_peer
        shape = tuple(k for k, _f, _s in seq)
        for fmt in ('json', 'text'):
            res, outs = H.audit_sequence([make_server(s) for _k, _f, s in seq], opts=['-n', '--skip-rate-test', '-P', path] + (['-j'] if fmt == 'json' else []))
            st.execution(res.world, outcome=('history', shape, fmt, res.status), root=('history', json.dumps(spec, sort_keys=True), json.dumps([s for _k, _f, s in seq], sort_keys=True), fmt),
                         nontrivial=('history', json.dumps([s for _k, _f, s in seq], sort_keys=True), fmt))
            if outs is None or len(outs) != len(seq):
                st.violation('history:output-shape:%s' % fmt, {'spec': spec, 'sequence': list(shape), 'status': res.status, 'stdout': res.stdout[-400:]})
                continue
            for i, ((kind, field, _s), o) in enumerate(zip(seq, outs)):
                if fmt == 'json':
                    passed, fields = o.get('passed'), [e['mismatched_field'] for e in o.get('errors', [])]
                else:
                    pt = report.PolicyText(o)
                    passed, fields = pt.result == 'passed', pt.error_fields
                if kind == 'same' and (passed is not True or fields):
                    st.violation('history:fails-on-same-peer-after-other-targets:%s' % fmt, {'spec': spec, 'sequence': list(shape), 'index': i, 'passed': passed, 'fields': fields})
                if kind == 'drift' and (passed is not False or not any(f.startswith(field) for f in fields)):
                    st.violation('history:drift-not-detected-in-list:%s' % fmt, {'spec': spec, 'sequence': list(shape), 'index': i, 'passed': passed, 'fields': fields, 'expected_field': field})
            if res.status != 3:
                st.violation('history:exit-status', {'spec': spec, 'sequence': list(shape), 'status': res.status})
        if os.path.exists(path):
            os.unlink(path)
    if chunk:
        st.sample({'policy_history': [k for k, _f, _s in chunk[0][1]], 'peer': chunk[0][0]['kn']}, cap=3)


# ---- built-in policies
# ---- -M while one probe connection of the modulus test fails to come up: the policy records what the documented probe sequence measures
# with exactly that probe lost (sequence model in props/c12.py), for both group-exchange methods
def work_lost_probe_make(chunk, st):
    import re
    from props import c06, c12
    for sub, style, banner, fconn, fmsg, fault in chunk:
        conn_alg, _n = c12._baseline(sub, style, banner)
        alg = conn_alg[fconn]
        k = len([i for i in conn_alg if conn_alg[i] == alg and i < fconn])
        srv = c12.make_server(sub, style, 'both', banner)
        want = c12.model_audit(srv.gex, banner, (alg, k, 'exchange' if fmsg == 2 else 'setup'))
        path = H.tmp_path('c05-lost-probe-%d.policy' % os.getpid())
        if os.path.exists(path):
            os.unlink(path)
        res = H.audit(srv, opts=['-n', '--skip-rate-test', '-M', path], faults={(srv.label, fconn, fmsg): fault})
        root = ('make-lost-probe', sub, style, banner, fconn, fmsg, fault)
        st.execution(res.world, outcome=('make-lost-probe', res.status), root=root, nontrivial=root)
        d = {'moduli': list(sub), 'style': style, 'lost_probe': [alg, k], 'fault': [fconn, fmsg] + list(fault), 'status': res.status}
        if res.status != 0 or not os.path.exists(path):
            st.violation('make-policy-failed:lost-probe', dict(d, stdout=res.stdout[-200:]))
            continue
        m = re.search(r'^dh_modulus_sizes = (.*)$', open(path).read(), re.M)
        rec = json.loads(m.group(1)) if m else {}
        exp = {a: v[1] for a, v in want.items() if v[1] is not None}
        if rec != exp:
            st.violation('made-policy-records-wrong-modulus-size:one-lost-probe', dict(d, recorded=rec, sizes_the_sequence_measures=exp))
        os.unlink(path)
    st.sample({'make_policy_lost_probe': [list(chunk[0][0]), chunk[0][3], chunk[0][4]]}, cap=4)


def builtin_tasks():
    return sorted(runner.M['builtin_policies'].BUILTIN_POLICIES.keys())


def builtin_variants(name):
    """(policy dict, group-exchange policy, [(variant name, peer keyword arguments, host keys)]) of a peer configured exactly as the built-in policy lists."""
    BP = runner.M['builtin_policies'].BUILTIN_POLICIES
    if True:
        p = BP[name]
        keys = list(p['host_keys'] or [])
        sizes = p.get('hostkey_sizes') or {}
        hk = {}
        for k in keys:
            sz = (sizes.get(k) or {}).get('hostkey_size')
            if 'rsa' in k and '-cert-' not in k:
                hk[k] = wire.rsa_blob_tree(sz or 3072)
            elif k == 'ssh-ed25519':
                hk[k] = wire.ed25519_blob_tree()
            elif k.startswith('ecdsa-sha2-nistp'):
                hk[k] = wire.ecdsa_blob_tree(int(k[-3:]))
        dh = p.get('dh_modulus_sizes') or {}
        gex = None
        if dh:
            vals = sorted(set(dh.values()))
            gex = P.GexPolicy(vals[:1], P.STRICT)
        kw = dict(kex=p['kex'], key=keys, enc=p['ciphers'], mac=p['macs'], banner=b'SSH-2.0-dropbear_2022.83')
        variants = [('required-only', kw, hk)]
        opt = list(p.get('optional_host_keys') or [])
        if opt and p['server_policy']:
            # every optional host key as well, each with a well-formed key of the size (and CA) the policy states for it
            hk2 = dict(hk)
            for k in opt:
                sz = sizes.get(k) or {}
                cat = sz.get('ca_key_type')
                ca_tree = wire.rsa_blob_tree(sz.get('ca_key_size') or 4096) if cat == 'ssh-rsa' else wire.ed25519_blob_tree(b'\x44' * 32)
                if k == 'ssh-ed25519-cert-v01@openssh.com':
                    hk2[k] = wire.ed25519_cert_tree(ca_tree)
                elif 'rsa' in k and '-cert-' in k:
                    hk2[k] = wire.rsa_cert_tree(sz.get('hostkey_size') or 4096, ca_tree)
                elif k == 'sk-ssh-ed25519@openssh.com':
                    hk2[k] = wire.sk_ed25519_blob_tree()
                elif k == 'sk-ssh-ed25519-cert-v01@openssh.com':
                    hk2[k] = wire.sk_ed25519_cert_tree(ca_tree)
            variants.append(('with-optional-host-keys', dict(kw, key=keys + opt), hk2))
        return p, gex, variants


def work_builtin(chunk, st):
    for name in chunk:
        p, gex, variants = builtin_variants(name)
        for vname, kw, hk in variants:
            if p['server_policy']:
                srv = P.Server(host_keys=hk, gex=gex, **kw)
                res = H.audit(srv, opts=['-n', '--skip-rate-test', '-j', '-P', name])
            else:
                cli = P.Client(**kw)
                res = H.client_audit(cli, opts=['-n', '-j', '-P', name])
            st.execution(res.world, outcome=('builtin', res.status, vname), root=('builtin', name, vname), nontrivial=('builtin', name, vname))
            ok = False
            try:
                d = json.loads(res.stdout)
                ok = res.status == 0 and d.get('passed') is True and not d.get('errors')
            except ValueError:
                d = None
            if not ok:
                st.violation('builtin-policy-fails-on-matching-peer:%s:%s' % (vname, name), {'policy': name, 'variant': vname, 'status': res.status, 'stdout': res.stdout[:600]})
        st.sample({'builtin_policy': name, 'status': res.status}, cap=6)


def run(tier, seed):
    t0 = time.time()
    ps = peers(tier)
    tasks = [(s, 'server') for s in ps]
    cl = [s for s in ps if s['kn'] in ('ed', 'rsa2048') and not s.get('gex')]
    # the two directions of a KEXINIT may differ (legal, unusual): both roles
    asym = []
    for base in cl[:6]:
        a = dict(base, kn=base['kn'] + '-asym', enc_c2s=['aes128-ctr', 'enc+odd/name@example.org'], mac_c2s=['hmac-sha2-512', 'umac-64@openssh.com'])
        asym.append(a)
    cl = cl + asym
    tasks += [(s, 'server') for s in asym]
    tasks += [(s, 'client') for s in cl]
    st = par.pmap(work, tasks, chunk=2)
    par.pmap(work_builtin, builtin_tasks(), stats=st, chunk=4)
    hist = history_tasks(ps, tier)
    par.pmap(work_history, hist, stats=st, chunk=2)
    from props import c06 as _c06
    par.pmap(work_lost_probe_make, _c06.gex_lost_probe_tasks(), stats=st, chunk=6)
    from props import delivery as _DL
    par.pmap(_DL.work_policy, _DL.policy_tasks(tier), extra=(('policy-make', 'policy-verdict'),), stats=st, chunk=12)
    vcases = []
    for spec in H.pick(ps, seed, 6 if tier == 'quick' else 30):
        path = H.tmp_path('c05-val-%d.policy' % len(vcases))
        if os.path.exists(path):
            os.unlink(path)
        r0 = audit(spec, 'server', ['-M', path])
        if r0.status != 0:
            continue
        vcases.append({'label': 'same %s' % spec['kn'], 'opts': ['-n', '-P', path, '-j'], 'make': (lambda spec=spec: make_server(spec))})
        pert = perturbations(spec, 'server')
        for kind, field, s2 in H.pick(pert, seed, 2):
            vcases.append({'label': 'drift %s %s' % (spec['kn'], kind), 'opts': ['-n', '-P', path], 'make': (lambda s2=s2: make_server(s2))})
    BP = runner.M['builtin_policies'].BUILTIN_POLICIES
    validated = H.validate_traces(vcases, st)
    return evidence.finish(
        PID, tier, seed, st, t0,
        rule='%d server peers and %d client peers (kex/cipher/MAC list variants incl. gss-* names with "=", "+", "/", "@"; %d host-key '
             'configurations incl. RSA/Ed25519 certificates with RSA/Ed25519/ECDSA CAs; GEX moduli %s); for each: -M, then -P on the same peer '
             '(JSON and text), then -P on every single-attribute perturbation (insert at each position / delete each / swap each adjacent pair '
             'per list; host-key size, CA size, CA type, modulus size); all %d built-in policies against a peer synthesised from the policy; '
             '%d histories: the generated policy applied with -T (one worker thread) to [drifted, same], [same, drifted, same] and '
             '[drifted, drifted, same] target lists, JSON and text, each target judged as if audited alone' % (
                 len(ps), len(cl), len(KEY_CONFIGS), GEX_SIZES, len(builtin_tasks()), len(hist)),
        assumptions=['policies are written to and read from real files', 'chained invocations share nothing but the file'],
        exhaustive=True, traces_validated=validated, extra={'peers': len(tasks)})


def replay(path):
    v = json.load(open(path))
    d = v['detail']
    st = evidence.Stats()
    if 'policy' in d:
        work_builtin([d['policy']], st)
    else:
        check_peer((d['spec'], d.get('role', 'server')), st)
    for x in st.violations:
        print('replayed:', x['sig'], json.dumps(x['detail'])[:800])
    return 1 if st.violations else 0
