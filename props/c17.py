"""C17 - the tool's knowledge tables agree with each other (exhaustive over the tables as they stand)."""
import json
import re
import time

from mc import evidence, harness as H, par, peer as P, report, runner, wire

PID = 'C17'
CATS = ('kex', 'key', 'enc', 'mac')

# primitives the database brands as broken elsewhere -> name patterns (token-wise)
BROKEN = [
    ('md5', re.compile(r'(^|[-_@.])md5([-_@.]|$)')),
    ('sha1', re.compile(r'(^|[-_@.])sha1([-_@.]|$)|sha1-96')),
    ('rc4/arcfour', re.compile(r'arcfour|(^|[-_@.])rc4')),
    ('des/3des', re.compile(r'(^|[-_@.])(3des|des)([-_@.]|$)')),
    ('none', re.compile(r'^none$')),
    ('dss/dsa', re.compile(r'(^|[-_@.])(dss|dsa)([-_@.]|$)')),
    ('group1 (1024-bit)', re.compile(r'group1-|group1$|-group1@')),
    ('nist curves', re.compile(r'nistp\d|nistk\d|nistb\d|nistt\d')),   # OID-named entries are not matched: 1.3.132.0.10 is secp256k1, not a NIST curve
    ('ripemd', re.compile(r'ripemd')),
]
VERSION_RX = re.compile(r'^(d|l1)?\d[\d.]*\d?C?$')


def db_name_for(cat, n):
    if cat == 'kex' and n.startswith('gss-') and n not in H.master_db()['kex']:
        return n[:n.rindex('-')] + '-*'
    return n


def check_static(st):
    db = H.master_db()
    n = 0
    for cat in CATS:
        for name, e in db[cat].items():
            n += 1
            st.evaluations += 1
            st.states.add(hash((cat, name, repr(e))))
            st.nontrivial.add(hash((cat, name)))
            st.transitions += 1
            ok = isinstance(e, list) and 1 <= len(e) <= 4 and all(isinstance(x, list) for x in e)
            if ok:
                for v in e[0]:
                    if v is not None and v != '' and not all(VERSION_RX.match(p) for p in v.split(',')):
                        ok = False
                for lst in e[1:]:
                    if not all(isinstance(t, str) and t.strip() for t in lst):
                        ok = False
            if not ok:
                st.violation('db-entry-shape:%s' % cat, {'cat': cat, 'name': name, 'entry': repr(e)[:200]})
                continue
            nf = len(e[1]) if len(e) > 1 else 0
            for label, rx in BROKEN:
                if rx.search(name) and nf == 0:
                    st.violation('broken-primitive-without-failure:%s' % label, {'cat': cat, 'name': name, 'entry': repr(e)[:200]})
    st.outcomes[('db-entries', n)] += 1
    # probe table, kex->group table, GEX table, DoS tables
    HK = runner.M['hostkeytest'].HostKeyTest
    for t in HK.HOST_KEY_TYPES:
        st.evaluations += 1
        st.states.add(hash(('hk', t)))
        if t not in db['key']:
            st.violation('host-key-probe-table-name-unknown-to-db', {'name': t})
    for t in HK.RSA_FAMILY:
        if t not in db['key'] or t not in HK.HOST_KEY_TYPES:
            st.violation('rsa-family-name-unknown', {'name': t})
    D = runner.M['dheat'].DHEat
    for lst, nm in ((D.gex_algs, 'gex_algs'), (D.alg_priority, 'alg_priority'), (list(D.alg_modulus_sizes), 'alg_modulus_sizes'), (D.tested_algs, 'tested_algs'),
                    (D.HARDCODED_ALGS, 'HARDCODED_ALGS'), (D.COMPLEX_PQ_ALGS, 'COMPLEX_PQ_ALGS')):
        for t in lst:
            st.evaluations += 1
            st.states.add(hash((nm, t)))
            if t not in db['kex']:
                st.violation('dheat-table-name-unknown-to-db:%s' % nm, {'name': t})
    for t in ('diffie-hellman-group-exchange-sha1', 'diffie-hellman-group-exchange-sha256'):
        if t not in db['kex']:
            st.violation('gex-table-name-unknown-to-db', {'name': t})
    # kex -> DH group table lives inside HostKeyTest.run; read it from the source
    src = open(runner.M['hostkeytest'].__file__).read()
    m = re.search(r'KEX_TO_DHGROUP = \{(.*?)\n        \}', src, re.S)
    names = re.findall(r"^\s*'([^']+)':", m.group(1), re.M) if m else []
    if not names:
        st.harness_errors.append('could not read KEX_TO_DHGROUP from hostkeytest.py')
    for t in names:
        st.evaluations += 1
        st.states.add(hash(('k2g', t)))
        if t not in db['kex']:
            st.violation('kex-to-dhgroup-table-name-unknown-to-db', {'name': t})
    # built-in policies
    BP = runner.M['builtin_policies'].BUILTIN_POLICIES
    for pname, p in BP.items():
        for field, cat in (('kex', 'kex'), ('host_keys', 'key'), ('optional_host_keys', 'key'), ('ciphers', 'enc'), ('macs', 'mac')):
            for a in (p.get(field) or []):
                st.evaluations += 1
                st.states.add(hash((pname, field, a)))
                st.nontrivial.add(hash((pname, field, a)))
                if a not in db[cat]:
                    st.violation('policy-names-algorithm-unknown-to-db', {'policy': pname, 'field': field, 'name': a})
                    continue
                e = db[cat][a]
                if len(e) > 1 and len(e[1]) > 0:
                    st.violation('policy-permits-algorithm-rated-fail', {'policy': pname, 'field': field, 'name': a, 'fail': e[1]})
        for t in list((p.get('hostkey_sizes') or {})) :
            if t not in db['key']:
                st.violation('policy-names-algorithm-unknown-to-db', {'policy': pname, 'field': 'hostkey_sizes', 'name': t})
        for t in list((p.get('dh_modulus_sizes') or {})):
            if t not in db['kex']:
                st.violation('policy-names-algorithm-unknown-to-db', {'policy': pname, 'field': 'dh_modulus_sizes', 'name': t})
    st.sample({'db_entries': n, 'builtin_policies': len(BP), 'host_key_probe_types': len(HK.HOST_KEY_TYPES)})


def work_dynamic(chunk, st):
    BP = runner.M['builtin_policies'].BUILTIN_POLICIES
    for pname in chunk:
        p = BP[pname]
        keys = list(p['host_keys'] or [])
        sizes = p.get('hostkey_sizes') or {}
        hk = {}
        for k in keys:
            sz = (sizes.get(k) or {}).get('hostkey_size')
            if 'rsa' in k and '-cert-' not in k:
                hk[k] = wire.rsa_blob_tree(sz or 4096)
            elif k == 'ssh-ed25519':
                hk[k] = wire.ed25519_blob_tree()
        dh = p.get('dh_modulus_sizes') or {}
        gex = P.GexPolicy(sorted(set(dh.values()))[:1], P.STRICT) if dh else None
        kw = dict(kex=p['kex'], key=keys, enc=p['ciphers'], mac=p['macs'], banner=b'SSH-2.0-OpenSSH_9.6')
        variants = [('required-only', kw, hk)]
        opt = list(p.get('optional_host_keys') or [])       # incl. security-key types: served with well-formed blobs should the tool ever ask for them
        if opt and p['server_policy']:
            keys2 = keys + opt
            hk2 = dict(hk)
            for k in opt:
                sz = (sizes.get(k) or {})
                if k == 'ssh-ed25519-cert-v01@openssh.com':
                    hk2[k] = wire.ed25519_cert_tree(wire.ed25519_blob_tree(b'\x44' * 32))
                elif 'rsa' in k and '-cert-' in k:
                    hk2[k] = wire.rsa_cert_tree(sz.get('hostkey_size') or 4096, wire.rsa_blob_tree(sz.get('ca_key_size') or 4096))
                elif k == 'sk-ssh-ed25519@openssh.com':
                    hk2[k] = wire.sk_ed25519_blob_tree()
                elif k == 'sk-ssh-ed25519-cert-v01@openssh.com':
                    hk2[k] = wire.sk_ed25519_cert_tree(wire.ed25519_blob_tree(b'\x44' * 32))
            variants.append(('with-optional-host-keys', dict(kw, key=keys2), hk2))
        gex_of = {}
        if gex is not None and p['server_policy']:
            # the same moduli served the other ways a server may answer a request it cannot satisfy exactly
            for style in (P.LENIENT, P.ROUNDUP, P.OPENSSH):
                vn = 'gex-answers-%s' % style
                variants.append((vn, kw, hk))
                gex_of[vn] = P.GexPolicy(sorted(set(dh.values()))[:1], style)
        for vname, kw, hk in variants:
          for fmt in ('text', 'json'):
              if p['server_policy']:
                  res = H.audit(P.Server(host_keys=hk, gex=gex_of.get(vname, gex), **kw), opts=['-n', '--skip-rate-test'] + (['-j'] if fmt == 'json' else []))
              else:
                  res = H.client_audit(P.Client(**kw), opts=['-n'] + (['-j'] if fmt == 'json' else []))
              st.execution(res.world, outcome=('policy-peer', res.status, fmt), root=('policy-peer', pname, vname, fmt), nontrivial=('policy-peer', pname, vname, fmt))
              if res.status == 3 or res.status not in (0, 2):
                  st.violation('peer-built-from-policy:exit-%s:%s' % (res.status, vname), {'policy': pname, 'fmt': fmt, 'variant': vname, 'stdout': res.stdout[-300:]})
                  continue
              if fmt == 'text':
                  fails = [(c, n, t) for c, n, lv, t in report.TextReport(res.stdout).findings() if lv == 'fail']
              else:
                  fails = [(c, n, t) for c, n, lv, t in report.json_findings(json.loads(res.stdout)) if lv == 'fail']
              if fails:
                  st.violation('peer-built-from-policy-shows-failure:%s' % vname, {'policy': pname, 'fmt': fmt, 'variant': vname, 'failures': fails[:5]})
        # the same conformant peer as the second target of one invocation, after a weak twin of itself (1024-bit RSA keys and moduli, no
        # strict-KEX marker): what the first target earned must not be charged to the second
        if p['server_policy']:
            weak_hk = {k: (wire.rsa_blob_tree(1024) if 'rsa' in k and '-cert-' not in k else v) for k, v in variants[0][2].items()}
            weak_kex = [k for k in p['kex'] if not k.startswith('kex-strict-')]
            for fmt in ('text', 'json'):
                weak = P.Server(host_keys=weak_hk, gex=P.GexPolicy([1024], P.STRICT) if gex else None, **dict(variants[0][1], kex=weak_kex))
                good = P.Server(host_keys=variants[0][2], gex=gex, **variants[0][1])
                res, outs = H.audit_sequence([weak, good], opts=['-n', '--skip-rate-test'] + (['-j'] if fmt == 'json' else []))
                st.execution(res.world, outcome=('policy-peer-after-weak', res.status, fmt), root=('policy-peer-after-weak', pname, fmt), nontrivial=('policy-peer-after-weak', pname, fmt))
                if outs is None or len(outs) != 2:
                    st.violation('peer-built-from-policy:after-weak-target:output-shape', {'policy': pname, 'fmt': fmt, 'stdout': res.stdout[-300:]})
                    continue
                if fmt == 'text':
                    fails = [(c, n, t) for c, n, lv, t in report.TextReport(outs[1]).findings() if lv == 'fail']
                else:
                    fails = [(c, n, t) for c, n, lv, t in report.json_findings(outs[1]) if lv == 'fail']
                if fails:
                    st.violation('peer-built-from-policy-shows-failure:after-weak-target', {'policy': pname, 'fmt': fmt, 'failures': fails[:5]})
        # ... and after a weak twin whose audit dies of an environment error once its probes are done (the connection-rate check's
        # connections are rejected with "no route to host", which the tool does not expect): the worker's clean-up must still happen
        if p['server_policy']:
            import errno
            pre = 1 + len(set('rsa' if 'rsa' in k else k for k in weak_hk)) + (9 if gex else 0) * len([k for k in weak_kex if 'group-exchange' in k])
            for fmt in ('text', 'json'):
                weak = P.Server(host_keys=weak_hk, gex=P.GexPolicy([1024], P.STRICT) if gex else None, async_refuse=True, **dict(variants[0][1], kex=weak_kex))
                nprobe = [None]

                def beh(i, weak=weak):
                    # the audit proper (handshake + probes) is served; everything after it is rejected
                    return 'normal' if i < pre_conns[0] else errno.EHOSTUNREACH
                # number of connections of the audit proper: measured on a twin with the rate check skipped
                twin = P.Server(host_keys=weak_hk, gex=P.GexPolicy([1024], P.STRICT) if gex else None, **dict(variants[0][1], kex=weak_kex))
                r0 = H.audit(twin, opts=['-n', '--skip-rate-test'])
                pre_conns = [len(r0.world.conns)]
                weak.conn_behaviour = beh
                good = P.Server(host_keys=variants[0][2], gex=gex, **variants[0][1])
                res, outs = H.audit_sequence([weak, good], opts=['-n'] + (['-j'] if fmt == 'json' else []))
                st.execution(res.world, outcome=('policy-peer-after-crashed', res.status, fmt), root=('policy-peer-after-crashed', pname, fmt), nontrivial=('policy-peer-after-crashed', pname, fmt))
                if outs is None or len(outs) != 2:
                    st.violation('peer-built-from-policy:after-crashed-target:output-shape', {'policy': pname, 'fmt': fmt, 'stdout': res.stdout[-300:]})
                    continue
                if fmt == 'text':
                    fails = [(c, n, t) for c, n, lv, t in report.TextReport(outs[1]).findings() if lv == 'fail']
                else:
                    fails = [(c, n, t) for c, n, lv, t in report.json_findings(outs[1]) if lv == 'fail']
                if fails:
                    st.violation('peer-built-from-policy-shows-failure:after-crashed-target', {'policy': pname, 'fmt': fmt, 'failures': fails[:5], 'first_target': str(outs[0])[:200]})
        st.sample({'policy': pname, 'audited_as': 'server' if p['server_policy'] else 'client'}, cap=6)


def work_key_material(chunk, st):
    """the conformant peer's verdict does not depend on the VALUE of its key material: every first byte (and a 0x00 / 0xff fill) of the
    Ed25519 public key - plain, certified, security-key - and of the CA's key, for a policy that lists all of those types"""
    BP = runner.M['builtin_policies'].BUILTIN_POLICIES
    for pname, first, where in chunk:
        p = BP[pname]
        keys = [k for k in list(p['host_keys'] or []) + list(p.get('optional_host_keys') or []) if 'ed25519' in k]
        pk = bytes([first]) + b'\x5a' * 31 if where != 'fill' else bytes([first]) * 32
        other = b'\x42' * 32
        hk = {}
        for k in keys:
            mine = pk if where in ('key', 'fill') else other
            ca = wire.ed25519_blob_tree(pk if where in ('ca', 'fill') else b'\x44' * 32)
            if k == 'ssh-ed25519':
                hk[k] = wire.ed25519_blob_tree(mine)
            elif k == 'ssh-ed25519-cert-v01@openssh.com':
                hk[k] = wire.ed25519_cert_tree(ca, pk=mine)
            elif k == 'sk-ssh-ed25519@openssh.com':
                hk[k] = wire.sk_ed25519_blob_tree(mine)
            elif k == 'sk-ssh-ed25519-cert-v01@openssh.com':
                hk[k] = wire.sk_ed25519_cert_tree(ca, pk=mine)
        keys = [k for k in keys if k in hk]
        dh = p.get('dh_modulus_sizes') or {}
        kex = [k for k in p['kex'] if 'group-exchange' not in k]
        for fmt in ('text', 'json'):
            res = H.audit(P.Server(host_keys=hk, kex=kex, key=keys, enc=p['ciphers'], mac=p['macs'], banner=b'SSH-2.0-OpenSSH_9.6'), opts=['-n', '--skip-rate-test'] + (['-j'] if fmt == 'json' else []))
            root = ('key-material', pname, first, where, fmt)
            st.execution(res.world, outcome=('key-material', res.status, fmt), root=root, nontrivial=root, detail='light')
            d = {'policy': pname, 'first_byte': first, 'where': where, 'fmt': fmt, 'status': res.status}
            if res.status not in (0, 2):
                st.violation('peer-built-from-policy:key-material:exit-%s' % res.status, dict(d, stdout=res.stdout[-300:]))
                continue
            if fmt == 'text':
                fails = [(c, n, t) for c, n, lv, t in report.TextReport(res.stdout).findings() if lv == 'fail']
            else:
                fails = [(c, n, t) for c, n, lv, t in report.json_findings(json.loads(res.stdout)) if lv == 'fail']
            if fails:
                st.violation('peer-built-from-policy-shows-failure:key-material-value', dict(d, failures=fails[:5]))
    st.sample({'key_material': [chunk[0][0], chunk[0][1], chunk[0][2]]}, cap=4)


def key_material_tasks(tier):
    BP = runner.M['builtin_policies'].BUILTIN_POLICIES
    cands = sorted(n for n in BP if BP[n]['server_policy'] and 'ssh-ed25519' in (BP[n]['host_keys'] or []) and 'ssh-ed25519-cert-v01@openssh.com' in (BP[n].get('optional_host_keys') or []))
    pols = cands[-1:] if tier == 'quick' else [cands[0], cands[len(cands) // 2], cands[-1]]
    return [(pn, b, where) for pn in pols for where in ('key', 'ca', 'fill') for b in range(256)]


def run(tier, seed):
    t0 = time.time()
    st = evidence.Stats()
    check_static(st)
    BP = runner.M['builtin_policies'].BUILTIN_POLICIES
    par.pmap(work_dynamic, sorted(BP), stats=st, chunk=3)
    from props import faultinv as _FI
    par.pmap(_FI.work, _FI.tasks(), extra=(('monotone',),), stats=st, chunk=6)
    km = key_material_tasks(tier)
    par.pmap(work_key_material, km, stats=st, chunk=16)
    from props import delivery as _DL
    par.pmap(_DL.work, _DL.tasks(tier), extra=(('monotone',),), stats=st, chunk=12)
    vcases = []
    for pname in H.pick([n for n in sorted(BP) if BP[n]['server_policy']], seed, 6 if tier == 'quick' else 24):
        p = BP[pname]

        def mk(p=p):
            keys = list(p['host_keys'] or [])
            sizes = p.get('hostkey_sizes') or {}
            hk = {}
            for k in keys:
                sz = (sizes.get(k) or {}).get('hostkey_size')
                if 'rsa' in k and '-cert-' not in k:
                    hk[k] = wire.rsa_blob_tree(sz or 4096)
                elif k == 'ssh-ed25519':
                    hk[k] = wire.ed25519_blob_tree()
            dh = p.get('dh_modulus_sizes') or {}
            gex = P.GexPolicy(sorted(set(dh.values()))[:1], P.STRICT) if dh else None
            return P.Server(host_keys=hk, gex=gex, kex=p['kex'], key=keys, enc=p['ciphers'], mac=p['macs'], banner=b'SSH-2.0-OpenSSH_9.6')
        vcases.append({'label': pname, 'opts': ['-n'] + (['-j'] if len(vcases) % 2 else []), 'make': mk})
    validated = H.validate_traces(vcases, st)
    return evidence.finish(
        PID, tier, seed, st, t0,
        rule='every entry of the SSH-2 rating database (shape, version strings, notes; broken-primitive tokens %s must carry a failure); every name in '
             'HOST_KEY_TYPES, RSA_FAMILY, KEX_TO_DHGROUP, the GEX table and the DHEat tables; every algorithm of every version of every built-in policy '
             '(known to the DB, not rated fail); a peer synthesised from each of the %d built-in policies audited in text and JSON, alone and as the '
             'second target of a -T run after a weak twin of itself; %d (policy, key-material value) peers: every first byte of the Ed25519 public key / CA key / whole-key fill' % (
                 [b[0] for b in BROKEN], len(BP), len(km)),
        assumptions=['the tables are finite: this is an exhaustive check of the current tree'],
        exhaustive=True, traces_validated=validated)


def replay(path):
    v = json.load(open(path))
    st = evidence.Stats()
    check_static(st)
    if 'policy' in v['detail']:
        work_dynamic([v['detail']['policy']], st)
    hit = [x for x in st.violations if x['sig'] == v['sig']]
    for x in hit[:5]:
        print('replayed:', x['sig'], x['detail'])
    return 1 if hit else 0
