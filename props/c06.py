"""C06 - policy verdicts follow the documented matching rules (exhaustive small universe, direct calls + CLI subset)."""
import itertools
import json
import time

from mc import evidence, harness as H, par, peer as P, report, runner, wire
from refmodels import policy as R

PID = 'C06'
U = {
    'host_keys': ['ssh-ed25519', 'rsa-sha2-512', 'ecdsa-sha2-nistp256'],
    'kex': ['curve25519-sha256', 'diffie-hellman-group16-sha512', 'sntrup761x25519-sha512@openssh.com',
            'kex-strict-s-v00@openssh.com', 'kex-strict-c-v00@openssh.com'],
    'ciphers': ['aes256-ctr', 'aes128-gcm@openssh.com', 'chacha20-poly1305@openssh.com'],
    'macs': ['hmac-sha2-256', 'umac-128-etm@openssh.com', 'hmac-sha2-512-etm@openssh.com'],
}
PEERFIELD = {'host_keys': 'key', 'kex': 'kex', 'ciphers': 'ciphers', 'macs': 'macs'}
# ... and sizes far above anything customary: 'at least the policy's' has no upper end
SIZES = [0, 1023, 1024, 2047, 2048, 2049, 3071, 3072, 4096, 8192, 16384, 16385, 32768, 1 << 20]
BASE_PEER = {'banner': 'SSH-2.0-OpenSSH_9.6', 'compressions': ['none'], 'key': ['ssh-ed25519'], 'kex': ['curve25519-sha256'],
             'ciphers': ['aes256-ctr'], 'macs': ['hmac-sha2-256'], 'host_keys': {}, 'dh': {}}

Policy = runner.M['policy'].Policy
SSH2_Kex = runner.M['ssh2_kex'].SSH2_Kex
Banner = runner.M['banner'].Banner
OutputBuffer = runner.M['outputbuffer'].OutputBuffer


def seqs(universe, lo, hi):
    out = []
    for k in range(lo, hi + 1):
        out += [list(x) for x in itertools.product(universe, repeat=k)]
    return out


def wire_decode(names):
    return ','.join(names).split(',')


def tool_peer(peer):
    tree = wire.kexinit_tree(peer['kex'], peer['key'], peer['ciphers'], peer['ciphers'], peer['macs'], peer['macs'],
                             peer['compressions'], peer['compressions'])
    kex = SSH2_Kex.parse(OutputBuffer(), wire.serialize(tree)[1:])
    for t, v in peer['host_keys'].items():
        kex.set_host_key(t, b'', v['hostkey_size'], v['ca_key_type'], v['ca_key_size'])
    for t, s in peer['dh'].items():
        kex.set_dh_modulus_size(t, s)
    return Banner.parse(peer['banner']), kex


def ref_peer(peer):
    p = dict(peer)
    for k in ('compressions', 'key', 'kex', 'ciphers', 'macs'):
        p[k] = wire_decode(peer[k])
    return p


def evaluate_both(pol, peer, old_format=False):
    import contextlib
    import io
    if old_format:
        with contextlib.redirect_stdout(io.StringIO()):       # the deprecation warning is printed while loading
            policy = Policy(policy_data=R.policy_text_old_format(pol))
    else:
        policy = Policy(policy_data=R.policy_text(pol))
    banner, kex = tool_peer(peer)
    passed, errs, errstr = policy.evaluate(banner, kex)
    got = set()
    for e in errs:
        got.add((e['mismatched_field'], tuple(e['expected_required']), tuple(e['expected_optional']), tuple(e['actual'])))
    want = R.canon(R.evaluate(pol, ref_peer(peer)))
    return passed, got, want, errs, errstr


def check_pair(pol, peer, st, family, old_format=False):
    try:
        passed, got, want, errs, errstr = evaluate_both(pol, peer, old_format)
    except Exception as e:   # the tool raised
        st.violation('%s:exception:%s' % (family, type(e).__name__), {'policy': pol, 'peer': peer, 'what': str(e)})
        st.execution(None, outcome=('exc',), root=(family, json.dumps(pol, sort_keys=True), json.dumps(peer, sort_keys=True)))
        return None
    key = (json.dumps(pol, sort_keys=True), json.dumps(peer, sort_keys=True))
    st.execution(None, outcome=(family, passed, tuple(sorted(f.split(' (')[0] for f, _a, _b, _c in got))), root=(family,) + key,
                 nontrivial=key if len(pol) > 1 or ('subset' not in pol and 'larger' not in pol and pol) else None)
    if passed != (len(errs) == 0):
        st.violation('%s:passed-not-iff-no-errors' % family, {'policy': pol, 'peer': peer, 'passed': passed, 'errors': errs})
    if got != want:
        fields = sorted(set(f.split(' (')[0] for f, _a, _b, _c in got ^ want))
        mode = ('subset' if pol.get('subset') else 'exact') + ('+larger' if pol.get('larger') else '')
        st.violation('%s:verdict-differs:%s:%s' % (family, mode, '+'.join(fields)),
                     {'policy': pol, 'peer': peer, 'tool_errors': sorted(got), 'model_errors': sorted(want)})
    else:
        for f, _a, _b, _c in got:
            if ('* %s did not match.' % f) not in errstr:
                st.violation('%s:error-text-omits-field' % family, {'policy': pol, 'peer': peer, 'field': f, 'text': errstr})
    return passed


# ---------------------------------------------------------------- families
# unusual but legal names: base64 tails with '=', '+', '/' (gss-*), names that differ only in such a tail, upper case, one name a prefix of another
ODD = {
    'host_keys': ['ssh-ed25519', 'ssh-ed25519-cert-v01@openssh.com', 'sk-ssh-ed25519@openssh.com'],
    'kex': ['gss-group14-sha256-a+b/c0==', 'gss-group14-sha256-zzzz/0+==', 'gss-gex-sha1-dZuIebMjgUqaxvbF7hDbAw==', 'curve25519-sha256'],
    'ciphers': ['AES256-CTR', 'aes256-ctr', 'aes256-ctr@example.org'],
    'macs': ['hmac-sha2-256', 'hmac-sha2-256-etm@openssh.com', 'hmac-sha2-256@x=y'],
}


def fam_list(field, uni=None):
    uni = uni or U[field]
    # [''] is the directive written with an empty value ("ciphers = "), which is what --make-policy writes for a peer whose list is empty
    pol_vals = [None, ['']] + seqs(uni, 1, 3 if field != 'kex' else 3)
    peer_vals = seqs(uni, 0, 3)
    opts = [None]
    if field == 'host_keys':
        opts = [None] + [list(c) for k in (1, 2, 3) for c in itertools.combinations(uni, k)]
    for subset in (False, True):
        for pv in pol_vals:
            for ov in opts:
                for av in peer_vals:
                    pol = {'subset': subset}
                    if pv is not None:
                        pol[field] = pv
                    if ov is not None:
                        pol['optional_host_keys'] = ov
                    peer = dict(BASE_PEER)
                    peer[PEERFIELD[field]] = av
                    yield pol, peer


def fam_pairs():
    fields = list(U)
    for fa, fb in itertools.combinations(fields, 2):
        ua, ub = U[fa][:2] + (U[fa][3:4] if fa == 'kex' else []), U[fb][:2] + (U[fb][3:4] if fb == 'kex' else [])
        pa, pb = [None] + seqs(ua, 1, 2), [None] + seqs(ub, 1, 2)
        aa, ab = seqs(ua, 0, 2), seqs(ub, 0, 2)
        for subset in (False, True):
            for x in pa:
                for y in pb:
                    for v in aa:
                        for w in ab:
                            pol = {'subset': subset}
                            if x is not None:
                                pol[fa] = x
                            if y is not None:
                                pol[fb] = y
                            peer = dict(BASE_PEER)
                            peer[PEERFIELD[fa]] = v
                            peer[PEERFIELD[fb]] = w
                            yield pol, peer


def fam_sizes():
    # host key sizes
    for larger in (False, True):
        for e in SIZES:
            for a in SIZES + [None]:
                pol = {'larger': larger, 'hostkey_sizes': {'rsa-sha2-512': {'hostkey_size': e, 'ca_key_type': '', 'ca_key_size': 0}}}
                peer = dict(BASE_PEER)
                peer['key'] = ['rsa-sha2-512']
                peer['host_keys'] = {} if a is None else {'rsa-sha2-512': {'hostkey_size': a, 'ca_key_type': '', 'ca_key_size': 0}}
                yield pol, peer
        # certificates: CA type and size
        ct = 'ssh-rsa-cert-v01@openssh.com'
        for ect in ('', 'ssh-rsa', 'ssh-ed25519'):
            for ecs in (0, 2048, 4096):
                for act in ('', 'ssh-rsa', 'ssh-ed25519'):
                    for acs in (0, 1024, 2048, 2049, 4096, 8192, 32768):
                        for eh, ah in ((3072, 3072), (3072, 2048), (2048, 3072)):
                            pol = {'larger': larger, 'hostkey_sizes': {ct: {'hostkey_size': eh, 'ca_key_type': ect, 'ca_key_size': ecs}}}
                            peer = dict(BASE_PEER)
                            peer['key'] = [ct]
                            peer['host_keys'] = {ct: {'hostkey_size': ah, 'ca_key_type': act, 'ca_key_size': acs}}
                            yield pol, peer
        # group-exchange moduli
        g = 'diffie-hellman-group-exchange-sha256'
        for e in SIZES:
            for a in SIZES + [None]:
                pol = {'larger': larger, 'dh_modulus_sizes': {g: e}}
                peer = dict(BASE_PEER)
                peer['kex'] = [g]
                peer['dh'] = {} if a is None else {g: a}
                yield pol, peer
        # two key types at once + a list field (union of errors)
        for e1, a1, e2, a2 in itertools.product([2048, 3072], [2048, 3072, 4096], [256], [256]):
            for cv in (['aes256-ctr'], ['aes128-gcm@openssh.com']):
                pol = {'larger': larger, 'ciphers': ['aes256-ctr'],
                       'hostkey_sizes': {'rsa-sha2-512': {'hostkey_size': e1, 'ca_key_type': '', 'ca_key_size': 0},
                                         'ssh-ed25519': {'hostkey_size': e2, 'ca_key_type': '', 'ca_key_size': 0}},
                       'dh_modulus_sizes': {g: e1}}
                peer = dict(BASE_PEER)
                peer['ciphers'] = cv
                peer['host_keys'] = {'rsa-sha2-512': {'hostkey_size': a1, 'ca_key_type': '', 'ca_key_size': 0},
                                     'ssh-ed25519': {'hostkey_size': a2, 'ca_key_type': '', 'ca_key_size': 0}}
                peer['dh'] = {g: a1}
                yield pol, peer


def fam_misc():
    for pb in (None, 'SSH-2.0-OpenSSH_9.6', 'SSH-2.0-OpenSSH_9.7', 'SSH-2.0-OpenSSH_9.6 Debian'):
        for ab in ('SSH-2.0-OpenSSH_9.6', 'SSH-2.0-OpenSSH_9.7', 'SSH-2.0-OpenSSH_9.6 Debian'):
            for pc in (None, ['none'], ['none', 'zlib@openssh.com'], ['zlib@openssh.com', 'none']):
                for ac in (['none'], ['none', 'zlib@openssh.com'], ['zlib@openssh.com', 'none'], []):
                    pol = {}
                    if pb is not None:
                        pol['banner'] = pb
                    if pc is not None:
                        pol['compressions'] = pc
                    peer = dict(BASE_PEER)
                    peer['banner'] = ab
                    peer['compressions'] = ac
                    yield pol, peer


FAMILIES = {'list:host_keys:odd-names': lambda: fam_list('host_keys', ODD['host_keys']), 'list:kex:odd-names': lambda: fam_list('kex', ODD['kex']),
            'list:ciphers:odd-names': lambda: fam_list('ciphers', ODD['ciphers']), 'list:macs:odd-names': lambda: fam_list('macs', ODD['macs']),
            'list:host_keys': lambda: fam_list('host_keys'), 'list:kex': lambda: fam_list('kex'), 'list:ciphers': lambda: fam_list('ciphers'),
            'list:macs': lambda: fam_list('macs'), 'pairs': fam_pairs, 'sizes': fam_sizes, 'misc': fam_misc}


def quick_filter(family, pol, peer):
    """quick tier: lists of length <= 2"""
    if family.startswith('list:'):
        f = family[5:].split(':')[0]
        return len(pol.get(f) or []) <= 2 and len(peer[PEERFIELD[f]]) <= 2
    return True


def work(chunk, st, tier):
    for family, shard, nshards in chunk:
        for i, (pol, peer) in enumerate(FAMILIES[family]()):
            if i % nshards != shard:
                continue
            if tier == 'quick' and not quick_filter(family, pol, peer):
                continue
            if tier == 'quick' and family == 'pairs' and (i // nshards) % 4:
                continue
            passed = check_pair(pol, peer, st, family)
            if passed:
                metamorphic(pol, peer, st, family)
            if family == 'sizes' and R.old_format_expressible(pol):
                check_pair(pol, peer, st, 'sizes-deprecated-directives', old_format=True)
            if st.evaluations % 20000 == 5:
                st.sample({'family': family, 'policy': pol, 'peer': {k: peer[k] for k in ('key', 'kex', 'ciphers', 'macs', 'host_keys', 'dh')}, 'passed': passed})


def metamorphic(pol, peer, st, family):
    if pol.get('subset'):
        for f in ('key', 'kex', 'ciphers', 'macs'):
            for i in range(len(peer[f])):
                if peer[f][i] in R.MARKERS:
                    continue
                p2 = dict(peer)
                p2[f] = peer[f][:i] + peer[f][i + 1:]
                if not p2[f]:
                    continue
                policy = Policy(policy_data=R.policy_text(pol))
                b, k = tool_peer(p2)
                ok, errs, _ = policy.evaluate(b, k)
                st.extra['metamorphic_shrink'] += 1
                if not ok:
                    st.violation('%s:shrinking-a-passing-peer-fails' % family, {'policy': pol, 'peer': peer, 'shrunk': p2, 'errors': errs})
    if pol.get('larger'):
        for t in peer['host_keys']:
            for grow in (1, 1024, 16384, 1 << 16):
                p2 = json.loads(json.dumps(peer))
                p2['host_keys'][t]['hostkey_size'] += grow
                if p2['host_keys'][t]['ca_key_size']:
                    p2['host_keys'][t]['ca_key_size'] += grow
                policy = Policy(policy_data=R.policy_text(pol))
                b, k = tool_peer(p2)
                ok, errs, _ = policy.evaluate(b, k)
                st.extra['metamorphic_grow'] += 1
                if not ok:
                    st.violation('%s:growing-keys-of-a-passing-peer-fails' % family, {'policy': pol, 'peer': peer, 'grown': p2, 'errors': errs})
        for t in peer['dh']:
          for grow in (1024, 16384, 1 << 16):
            p2 = json.loads(json.dumps(peer))
            p2['dh'][t] += grow
            policy = Policy(policy_data=R.policy_text(pol))
            b, k = tool_peer(p2)
            ok, errs, _ = policy.evaluate(b, k)
            st.extra['metamorphic_grow'] += 1
            if not ok:
                st.violation('%s:growing-keys-of-a-passing-peer-fails' % family, {'policy': pol, 'peer': peer, 'grown': p2, 'errors': errs})


# ---------------------------------------------------------------- CLI wiring subset
def cli_cases(tier):
    out = []
    n = 0
    for family in ('list:host_keys', 'list:kex', 'list:ciphers', 'sizes'):
        for i, (pol, peer) in enumerate(FAMILIES[family]()):
            if family == 'sizes':
                hk = list(peer['host_keys'])
                if any('cert' in t for t in hk) or len(hk) > 1 or (peer['dh'] and list(peer['dh'].values())[0] not in (1024, 2048, 3072, 4096)):
                    continue
                if hk and peer['host_keys'][hk[0]]['hostkey_size'] not in (1024, 2048, 3072, 4096):
                    continue
            if not quick_filter(family, pol, peer):
                continue
            if not all(peer[f] for f in ('key', 'kex', 'ciphers', 'macs')):
                continue
            n += 1
            if n % (23 if tier == 'quick' else 5):
                continue
            for fmt in ('text', 'json'):
                out.append((family, pol, peer, fmt))
    out += multi_cert_cases()
    out += probe_fault_cases()
    out += gex_order_cases()
    out += gex_split_cases()
    out += gex_only_cases()
    more = []
    for i, (family, pol, peer, fmt) in enumerate(c for c in out if c[3] == 'json'):
        if i % 3 == 0:
            more.append((family, pol, peer, ('json-l-warn', 'json-l-fail', 'json-v')[(i // 3) % 3]))
        if i % 2 == 1 or pol.get('larger') or pol.get('subset'):
            more.append((family, pol, peer, 'json-T'))
    for i, (family, pol, peer, fmt) in enumerate(c for c in out if c[3] == 'text'):
        if i % 4 == 0 or pol.get('larger'):
            more.append((family, pol, peer, 'text-T'))
    return out + more


# ---- one probe connection of the modulus test fails to come up (refused, reset, cut inside the banner or the KEXINIT): the verdict is the
# one the documented probe sequence gives with exactly that probe lost (props/c12.py holds the sequence model)
def gex_lost_probe_tasks():
    from props import c12
    out = []
    for sub, style, banner in (((768, 1024, 2048), P.PREFER, 'other'), ((3072, 4096), P.OPENSSH, 'openssh'), ((768, 1536), P.PREFER, 'other'), ((1024, 2048), P.STRICT, 'other')):
        conn_alg, _n = c12._baseline(sub, style, banner)
        for fconn in sorted(c for c in conn_alg if conn_alg[c]):
            # ... or the connection is fine and the group never arrives (closed, stalled, another message in its place)
            for fmsg, fault in ((-1, ('refuse',)), (0, ('reset',)), (0, ('trunc_close', 0)), (1, ('trunc_close', 9)), (1, ('trunc_stall', 9)), (0, ('trunc_close', 5)),
                                (2, ('trunc_close', 0)), (2, ('trunc_stall', 0)), (2, ('type', 1))):
                out.append((sub, style, banner, fconn, fmsg, fault))
    return out


def work_gex_lost_probe(chunk, st):
    from props import c12
    for sub, style, banner, fconn, fmsg, fault in chunk:
        conn_alg, _n = c12._baseline(sub, style, banner)
        alg = conn_alg[fconn]
        k = len([i for i in conn_alg if conn_alg[i] == alg and i < fconn])
        gex = c12.make_server(sub, style, 'both', banner).gex
        want = c12.model_audit(gex, banner, (alg, k, 'exchange' if fmsg == 2 else 'setup'))
        free = c12.model_audit(gex, banner)
        measured = {a: want[a][1] for a in want}
        cands = sorted(set(v for v in list(measured.values()) + [free[a][1] for a in free] if v))
        for sizes in [{c12.SHA1: x, c12.SHA256: y} for x in cands for y in cands]:
            for fmt in ('text', 'json'):
                pol = {'dh_modulus_sizes': sizes}
                path = H.tmp_path('c06-lost-probe-policy.txt')
                with open(path, 'w') as f:
                    f.write(R.policy_text(pol))
                srv = c12.make_server(sub, style, 'both', banner)
                res = H.audit(srv, opts=['-n', '--skip-rate-test', '-P', path] + (['-j'] if fmt == 'json' else []), faults={(srv.label, fconn, fmsg): fault})
                root = ('gex-lost-probe', sub, style, banner, fconn, fmsg, fault, tuple(sorted(sizes.items())), fmt)
                st.execution(res.world, outcome=('gex-lost-probe', res.status, fmt), root=root, nontrivial=root)
                bad = sorted(a for a in sizes if measured.get(a) is not None and measured[a] != sizes[a])
                exp = 3 if bad else 0
                d = {'moduli': list(sub), 'style': style, 'lost_probe': [alg, k], 'fault': [fconn, fmsg] + list(fault), 'policy_sizes': sizes, 'sizes_the_sequence_measures': measured, 'fmt': fmt, 'status': res.status}
                if res.hang or res.exc or res.status not in (0, 3):
                    st.violation('gex-lost-probe:no-verdict', dict(d, hang=res.hang, tail=res.stdout[-200:]))
                elif res.status != exp:
                    st.violation('gex-lost-probe:verdict-differs:%s' % ('false-pass' if exp == 3 else 'false-fail'), dict(d, expected_failing_fields=bad, stdout_tail=res.stdout[-300:]))
    st.sample({'gex_lost_probe': [list(chunk[0][0]), chunk[0][3], chunk[0][4], list(chunk[0][5])]}, cap=4)


def gex_split_cases():
    """the two group-exchange methods served from different moduli (every ordered pair of sizes): the policy's modulus sizes are compared
    with what each method really hands out"""
    out = []
    G1, G256 = 'diffie-hellman-group-exchange-sha1', 'diffie-hellman-group-exchange-sha256'
    sizes = (1024, 1536, 2048, 3072, 4096)
    for a in sizes:
        for b in sizes:
            if a == b:
                continue
            for order in ([G256, G1], [G1, G256]):
                peer = dict(BASE_PEER, kex=order + ['curve25519-sha256'], dh={G1: a, G256: b})
                for pa, pb in ((a, b), (b, a), (a, a), (b, b)):
                    pol = {'dh_modulus_sizes': {G1: pa, G256: pb}}
                    out.append(('gex-split', pol, peer, 'json' if (len(out) % 2) else 'text'))
    return out


def gex_order_cases():
    """peers offering a group exchange (so the modulus probes run between the first KEXINIT and the evaluation) x every order of 2-3 host
    key / cipher / MAC names x exact policies listing them in every order: the verdict is about the lists the peer sent, in the order sent"""
    out = []
    GEX = 'diffie-hellman-group-exchange-sha256'
    for field, names in (('key', ['rsa-sha2-512', 'ssh-ed25519']), ('key', ['rsa-sha2-512', 'ssh-rsa', 'ssh-ed25519']),
                         ('ciphers', ['aes256-ctr', 'aes128-ctr', 'chacha20-poly1305@openssh.com']), ('macs', ['hmac-sha2-512', 'hmac-sha2-256']),
                         ('kex', [GEX, 'curve25519-sha256', 'diffie-hellman-group-exchange-sha1'])):
        pf = {'key': 'host_keys'}.get(field, field)
        for order in itertools.permutations(names):
            peer = dict(BASE_PEER, dh={GEX: 2048})
            peer['kex'] = [GEX, 'curve25519-sha256']
            peer[field] = list(order)
            if 'diffie-hellman-group-exchange-sha1' in peer['kex']:
                peer['dh']['diffie-hellman-group-exchange-sha1'] = 2048
            for porder in itertools.permutations(names):
                for subset in (False, True):
                    pol = {'subset': subset, 'host_keys': list(peer['key']), 'kex': list(peer['kex']), 'ciphers': list(peer['ciphers']), 'macs': list(peer['macs'])}
                    pol[pf] = list(porder)
                    out.append(('gex-order', pol, peer, 'json' if (len(out) % 2) else 'text'))
    return out


def gex_only_cases():
    """peers whose only key exchange the host-key probes can use is a group exchange (alone; between a post-quantum method and the strict-KEX
    marker; both group exchanges): the host keys are measured all the same, and a policy's size fields are compared with what was measured"""
    out = []
    G256, G1 = 'diffie-hellman-group-exchange-sha256', 'diffie-hellman-group-exchange-sha1'
    for kexl in ([G256], ['sntrup761x25519-sha512@openssh.com', G256, 'kex-strict-s-v00@openssh.com'], [G1, G256], ['frob-kex@example.org', G1]):
        for larger in (False, True):
            for want_bits, have_bits in ((3072, 2048), (3072, 3072), (2048, 4096), (4096, 3072)):
                peer = dict(BASE_PEER, kex=list(kexl), key=['rsa-sha2-512', 'ssh-ed25519'], dh={k: 2048 for k in kexl if 'group-exchange' in k})
                peer['host_keys'] = {'rsa-sha2-512': {'hostkey_size': have_bits, 'ca_key_type': '', 'ca_key_size': 0}, 'ssh-ed25519': {'hostkey_size': 256, 'ca_key_type': '', 'ca_key_size': 0}}
                pol = {'larger': larger, 'kex': list(kexl), 'hostkey_sizes': {'rsa-sha2-512': {'hostkey_size': want_bits, 'ca_key_type': '', 'ca_key_size': 0},
                                                                             'ssh-ed25519': {'hostkey_size': 256, 'ca_key_type': '', 'ca_key_size': 0}}}
                for fmt in ('text', 'json'):
                    out.append(('gex-only', pol, peer, fmt))
    return out


def probe_fault_cases():
    """a fault confined to one host-key probe connection (wrong message type / unparsable blob in the reply to the first probe): the key is
    measured through a later probe, so the verdict is the fault-free one"""
    out = []
    fam = ['ssh-rsa', 'rsa-sha2-256', 'rsa-sha2-512']
    for keys in (fam, fam[1:], ['rsa-sha2-512', 'ssh-rsa', 'ssh-ed25519']):
        for bits in (2048, 4096):
            hks = {k: {'hostkey_size': bits, 'ca_key_type': '', 'ca_key_size': 0} for k in keys if k in fam}
            if 'ssh-ed25519' in keys:
                hks['ssh-ed25519'] = {'hostkey_size': 256, 'ca_key_type': '', 'ca_key_size': 0}
            peer = dict(BASE_PEER, key=list(keys), host_keys=hks)
            for want in (2048, 4096):
                for larger in (False, True):
                    pol = {'larger': larger, 'hostkey_sizes': {k: {'hostkey_size': want if k in fam else 256, 'ca_key_type': '', 'ca_key_size': 0} for k in hks}}
                    for fault in (('type', 1), ('len', 2, 'huge31')):      # replies the tool rejects as unparsable (it then asks again under a sibling name)
                        for conn in (1, 2):
                            for fmt in ('text', 'json'):
                                out.append(('probe-fault', pol, dict(peer, _faults={('srv', conn, 2): fault}), fmt))
    return out


RSACERT, EDCERT = 'rsa-sha2-512-cert-v01@openssh.com', 'ssh-ed25519-cert-v01@openssh.com'


def multi_cert_cases():
    """peers presenting several host keys (each measured on a connection of its own, one after the other): certificates signed by
    different kinds of CA, next to plain keys; policies stating the true sizes, a wrong size for one of them, and minimum sizes"""
    out = []
    cas = {'rsa4096': ('ssh-rsa', 4096), 'rsa2048': ('ssh-rsa', 2048), 'ed': ('ssh-ed25519', 256), 'ec384': ('ecdsa-sha2-nistp384', 384)}
    for ca1, ca2 in itertools.permutations(sorted(cas), 2):
        hks = {RSACERT: {'hostkey_size': 3072, 'ca_key_type': cas[ca1][0], 'ca_key_size': cas[ca1][1]},
               EDCERT: {'hostkey_size': 256, 'ca_key_type': cas[ca2][0], 'ca_key_size': cas[ca2][1]}}
        for plain in ([], ['rsa-sha2-512']):
            peer = dict(BASE_PEER, key=[RSACERT, EDCERT] + plain, host_keys=dict(hks))
            if plain:
                peer['host_keys']['rsa-sha2-512'] = {'hostkey_size': 2048, 'ca_key_type': '', 'ca_key_size': 0}
            true = {t: dict(v) for t, v in peer['host_keys'].items()}
            pols = [{'larger': False, 'hostkey_sizes': true}, {'larger': True, 'hostkey_sizes': true}]
            for t in (RSACERT, EDCERT):
                for delta in (-8, 8) if true[t]['ca_key_type'] == 'ssh-rsa' else (256,):
                    wrong = {k: dict(v) for k, v in true.items()}
                    wrong[t]['ca_key_size'] = true[t]['ca_key_size'] + delta
                    pols.append({'larger': False, 'hostkey_sizes': wrong})
                    pols.append({'larger': True, 'hostkey_sizes': wrong})
            for pol in pols:
                for fmt in ('text', 'json'):
                    out.append(('multi-cert', pol, peer, fmt))
    return out


# the verdict document is the same whatever output options accompany -j
JSON_OPTS = {'json': ['-j'], 'json-l-warn': ['-jj', '-l', 'warn'], 'json-l-fail': ['-j', '-l', 'fail'], 'json-v': ['-jj', '-v'], 'json-T': ['-j']}
# '...-T': the same audit through the multi-target path (a targets file with this one entry): the worker gets a COPY of the configuration


def work_cli(chunk, st):
    for family, pol, peer, fmt in chunk:
        path = H.tmp_path('c06-policy.txt')
        with open(path, 'w') as f:
            f.write(R.policy_text(pol))
        hk = {}
        for t, v in peer['host_keys'].items():
            if '-cert-' in t:
                cat = v.get('ca_key_type')
                ca_tree = wire.rsa_blob_tree(v['ca_key_size']) if cat == 'ssh-rsa' else wire.ed25519_blob_tree(b'\x44' * 32) if cat == 'ssh-ed25519' else wire.ecdsa_blob_tree(int(cat[-3:]))
                hk[t] = wire.rsa_cert_tree(v['hostkey_size'], ca_tree) if 'rsa' in t else wire.ed25519_cert_tree(ca_tree)
            else:
                hk[t] = wire.rsa_blob_tree(v['hostkey_size']) if 'rsa' in t else wire.ed25519_blob_tree()
        gex = None
        if peer['dh']:
            # one moduli file for every group-exchange method, or one per method when the sizes differ
            gex = P.GexPolicy([list(peer['dh'].values())[0]], P.STRICT) if len(set(peer['dh'].values())) == 1 else {a: P.GexPolicy([v], P.STRICT) for a, v in peer['dh'].items()}
        kexl = list(peer['kex'])
        if peer['host_keys'] and not any(k in ('curve25519-sha256',) for k in kexl):
            pass
        srv = P.Server(kex=kexl, key=peer['key'], enc=peer['ciphers'], mac=peer['macs'], banner=peer['banner'].encode(),
                       comp=peer['compressions'], host_keys=hk, gex=gex)
        res = H.audit(srv, opts=['-n', '--skip-rate-test', '-P', path] + JSON_OPTS.get(fmt, []), faults=peer.get('_faults'), via_targets_file=fmt.endswith('-T'))
        peer = {k: v for k, v in peer.items() if k != '_faults'}
        # what the tool really measured is unknown to us for sizes, so take the model's verdict from the requested peer
        refp = ref_peer(peer)
        if peer['host_keys'] and not any(k in ('curve25519-sha256', 'diffie-hellman-group16-sha512') or k.startswith('diffie-hellman-group-exchange') for k in kexl):
            refp['host_keys'] = {}
        want = R.canon(R.evaluate(pol, refp))
        st.execution(res.world, outcome=('cli', res.status, fmt), root=('cli', json.dumps(pol, sort_keys=True), json.dumps(peer, sort_keys=True), fmt),
                     nontrivial=('cli', res.status, fmt, tuple(sorted(f for f, _a, _b, _c in want))))
        exp_status = 3 if want else 0
        if res.status != exp_status:
            st.violation('cli:%s:exit-status-%s-expected-%s' % (family, res.status, exp_status), {'policy': pol, 'peer': peer, 'fmt': fmt, 'stdout': res.stdout[:500]})
            continue
        if fmt in JSON_OPTS:
            try:
                doc = json.loads(res.stdout)
                if fmt.endswith('-T'):
                    doc = doc[0]
            except (ValueError, IndexError, KeyError, TypeError):
                st.violation('cli:json-unparseable', {'policy': pol, 'peer': peer, 'stdout': res.stdout[:300]})
                continue
            got = set((e['mismatched_field'], tuple(e['expected_required']), tuple(e['expected_optional']), tuple(e['actual'])) for e in doc['errors'])
            if doc['passed'] != (not want) or got != want:
                st.violation('cli:%s:json-verdict-differs' % family, {'policy': pol, 'peer': peer, 'tool': sorted(got), 'model': sorted(want), 'passed': doc['passed']})
        else:
            pt = report.PolicyText(res.stdout)
            if (pt.result == 'passed') != (not want) or sorted(set(pt.error_fields)) != sorted(set(f for f, _a, _b, _c in want)):
                st.violation('cli:%s:text-verdict-differs' % family, {'policy': pol, 'peer': peer, 'result': pt.result, 'fields': pt.error_fields, 'model': sorted(want)})


SEQ_PEERS = {
    'ok': dict(key=['ssh-ed25519'], kex=['curve25519-sha256'], ciphers=['aes256-ctr'], macs=['hmac-sha2-256']),
    'extra-cipher': dict(key=['ssh-ed25519'], kex=['curve25519-sha256'], ciphers=['aes256-ctr', 'aes128-cbc'], macs=['hmac-sha2-256']),
    'other-mac': dict(key=['ssh-ed25519'], kex=['curve25519-sha256'], ciphers=['aes256-ctr'], macs=['hmac-sha1']),
    'other-kex-key': dict(key=['rsa-sha2-512'], kex=['diffie-hellman-group16-sha512'], ciphers=['aes256-ctr'], macs=['hmac-sha2-256']),
}
SEQ_POLICY = {'host_keys': ['ssh-ed25519'], 'kex': ['curve25519-sha256'], 'ciphers': ['aes256-ctr'], 'macs': ['hmac-sha2-256']}


def work_sequences(chunk, st):
    for kinds, subset, fmt in chunk:
        pol = dict(SEQ_POLICY, subset=subset)
        path = H.tmp_path('c06-seq-policy.txt')
        with open(path, 'w') as f:
            f.write(R.policy_text(pol))
        servers = []
        for k in kinds:
            sp = SEQ_PEERS[k]
            servers.append(P.Server(kex=sp['kex'], key=sp['key'], enc=sp['ciphers'], mac=sp['macs'], host_keys=P.standard_host_keys(sp['key'])))
        res, outs = H.audit_sequence(servers, opts=['-n', '--skip-rate-test', '-P', path] + (['-j'] if fmt == 'json' else []))
        st.execution(res.world, outcome=('sequence', fmt, res.status), root=('sequence', kinds, subset, fmt), nontrivial=('sequence', kinds, subset, fmt))
        if outs is None or len(outs) != len(kinds):
            st.violation('sequence:output-shape', {'kinds': kinds, 'stdout': res.stdout[-300:]})
            continue
        worst = 0
        for k, o in zip(kinds, outs):
            sp = SEQ_PEERS[k]
            peer = dict(BASE_PEER, key=sp['key'], kex=sp['kex'], ciphers=sp['ciphers'], macs=sp['macs'])
            want = R.canon(R.evaluate(pol, ref_peer(peer)))
            worst = max(worst, 3 if want else 0)
            if fmt == 'json':
                got = set((e['mismatched_field'], tuple(e['expected_required']), tuple(e['expected_optional']), tuple(e['actual'])) for e in o.get('errors', []))
                if o.get('passed') != (not want) or got != want or (o.get('passed') is True) != (len(o.get('errors', [])) == 0):
                    st.violation('sequence:verdict-depends-on-earlier-targets:json', {'targets_in_run': kinds, 'target': k, 'subset': subset, 'passed': o.get('passed'),
                                                                                        'tool_errors': sorted(got), 'model_errors': sorted(want)})
            else:
                pt = report.PolicyText(o)
                if (pt.result == 'passed') != (not want) or sorted(set(pt.error_fields)) != sorted(set(f for f, _a, _b, _c in want)):
                    st.violation('sequence:verdict-depends-on-earlier-targets:text', {'targets_in_run': kinds, 'target': k, 'result': pt.result, 'fields': pt.error_fields, 'model': sorted(want)})
        if res.status != worst:
            st.violation('sequence:exit-status', {'kinds': kinds, 'status': res.status, 'expected': worst})
    st.sample({'policy_sequence': list(chunk[0][0]), 'subset_mode': chunk[0][1], 'fmt': chunk[0][2]}, cap=14)


def run(tier, seed):
    t0 = time.time()
    nsh = 16
    tasks = [(fam, s, nsh) for fam in FAMILIES for s in range(nsh)]
    st = par.pmap(work, tasks, extra=(tier,), chunk=1)
    cc = cli_cases(tier)
    par.pmap(work_cli, cc, stats=st)
    seqs = [(k, sub, f) for n in (2, 3) for k in itertools.product(list(SEQ_PEERS), repeat=n) for sub in (False, True) for f in ('json', 'text')
            if n == 2 or tier != 'quick' or k[0] == 'ok']
    par.pmap(work_sequences, seqs, stats=st, chunk=4)
    par.pmap(work_gex_lost_probe, gex_lost_probe_tasks(), stats=st, chunk=3)
    from props import delivery as _DL
    par.pmap(_DL.work_policy, _DL.policy_tasks(tier), extra=(('policy-verdict',),), stats=st, chunk=12)
    vcases = []
    for family, pol, peer, fmt in H.pick([c for c in cc if c[3] in ('json', 'text')], seed, 16 if tier == 'quick' else 80):
        path = H.tmp_path('c06-val-%d.txt' % len(vcases))
        with open(path, 'w') as f:
            f.write(R.policy_text(pol))

        def mk(peer=peer):
            hk = {}
            for t, v in peer['host_keys'].items():
                hk[t] = wire.rsa_blob_tree(v['hostkey_size']) if 'rsa' in t else wire.ed25519_blob_tree()
            gex = P.GexPolicy([list(peer['dh'].values())[0]], P.STRICT) if peer['dh'] else None
            return P.Server(kex=list(peer['kex']), key=peer['key'], enc=peer['ciphers'], mac=peer['macs'], banner=peer['banner'].encode(), comp=peer['compressions'], host_keys=hk, gex=gex)
        vcases.append({'label': 'policy %s' % family, 'opts': ['-n', '-P', path] + (['-j'] if fmt == 'json' else []), 'make': mk})
    validated = H.validate_traces(vcases, st)
    return evidence.finish(
        PID, tier, seed, st, t0,
        rule='direct calls of Policy.evaluate on policies built by the real constructor from generated policy text and peers built by the real '
             'KEXINIT parser: per list field all policy values {absent, sequences of length 1..%d} x all peer sequences of length 0..%d over a '
             '3-name universe (kex: +2 strict markers) x subset flag (host keys x optional-host-key subsets); fields crossed pairwise at length <=2%s; '
             'size maps over %s x larger-keys flag x present/absent; CA type x size; banner/compression; metamorphic shrink/grow on every passing '
             'pair; plus %d (policy, peer) pairs through the CLI (-P, text and JSON); plus sequences of 2-3 peers evaluated against one policy in ONE '
             '-T invocation (every target judged by the model on its own)' % (
                 2 if tier == 'quick' else 3, 2 if tier == 'quick' else 3, ' (every 4th)' if tier == 'quick' else '', SIZES, len(cc)),
        assumptions=['reference model: refmodels/policy.py', 'error lists compared as sets of (field, expected, optional, actual)'],
        exhaustive=(tier != 'quick'), traces_validated=validated, extra={'cli_pairs': len(cc)})


def replay(path):
    v = json.load(open(path))
    d = v['detail']
    st = evidence.Stats()
    check_pair(d['policy'], d['peer'], st, 'replay')
    for x in st.violations:
        print('replayed:', x['sig'], json.dumps(x['detail'])[:800])
    return 1 if st.violations else 0
