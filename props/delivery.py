"""Delivery invariance: the peer's bytes arrive in other segments, at other moments, with receive calls that have to be repeated - the report
is the one of the customary delivery.

TCP hands the tool a byte stream; where the segment boundaries fall and when the segments arrive is the network's business.  For every
server of SERVERS this module re-delivers the very same bytes
  - globally: one byte per segment, 7- and 13-byte segments, everything the peer has queued glued into one segment;
  - per connection and message (identification string, KEXINIT, the reply / group that carries a measurement, the group-exchange reply):
    cut at every offset of the last 12 bytes (the padding) and of the first bytes, cut with one receive call answered EAGAIN in between,
    late by just under the timeout, in two parts with the rest late, dripping in 3 or 8 parts with pauses that add up to more than the
    timeout, byte by byte, and (replies only) behind a well-formed MSG_DEBUG;
and compares the JSON report, the exit status and the connection log with those of the customary delivery.  Several checks use it, each
reporting the clauses it owns:
  names (C01)  status (C02)  notes (C03)  terrapin (C04)  complete (C09)  sizes (C11, C12)  recs (C13, C14)  banner (C16)  monotone (C17)  connections (C19)
"""
import json

from mc import harness as H, peer as P
from props import faultinv as FI

SERVERS = dict(FI.SERVERS)
SERVERS['ssh1'] = lambda: P.Server(label='fi', banner=b'SSH-1.5-OpenSSH_3.4', ssh1={'cmask': 0x4c, 'amask': 0x2c}, versions_differ=True)
CATS = FI.CATS
# client audits (-c): the peer dials in and sends identification string and KEXINIT back to back
CLIENTS = {'client:modern': lambda: P.Client(label='fi', banner=b'SSH-2.0-OpenSSH_9.6'),
           'client:exposed': lambda: P.Client(label='fi', banner=b'SSH-2.0-OpenSSH_7.4', kex=['curve25519-sha256', 'diffie-hellman-group14-sha1', 'ext-info-c'], key=['ssh-rsa', 'ssh-ed25519'],
                                              enc=['chacha20-poly1305@openssh.com', 'aes128-cbc', 'aes256-ctr'], mac=['hmac-sha2-256-etm@openssh.com', 'hmac-sha1']),
           'client:strict': lambda: P.Client(label='fi', banner=b'SSH-2.0-OpenSSH_9.6', kex=['curve25519-sha256', 'kex-strict-c-v00@openssh.com'], key=['ssh-ed25519'],
                                             enc=['chacha20-poly1305@openssh.com', 'aes256-gcm@openssh.com'], mac=['hmac-sha2-512-etm@openssh.com'])}


def _server(name, kw):
    """-> (server, keyword arguments for the World, the peer sends its KEXINIT early)"""
    kw = dict(kw)
    eager = bool(kw.pop('eager', False))
    srv = SERVERS[name]()
    srv.eager_kexinit = eager    # the peer sends its KEXINIT right behind its identification string, as OpenSSH does
    # the same offer in a KEXINIT that differs where the report does not look: language lists, the reserved word, the line end of the identification string
    if kw.pop('lang', False):
        srv.lang = ['en-US', 'de']
    if kw.pop('reserved', False):
        srv.reserved = 0xfffffffe
    if kw.pop('lf', False):
        srv.line_end = b'\n'
    return srv, kw, eager


def _run(name, kw, faults):
    if name in CLIENTS:
        kw = dict(kw)
        eager = bool(kw.pop('eager', False))
        return H.client_audit(CLIENTS[name](), opts=['-n', '-j'], world_kw=kw, faults=faults), eager
    srv, kw, eager = _server(name, kw)
    return H.audit(srv, opts=['-n', '--skip-rate-test', '-j'], world_kw=kw, faults=faults), eager


_BASE = {}


def baseline(name):
    if name not in _BASE:
        _BASE[name] = _baseline(name)
    return _BASE[name]


def _baseline(name):
    res, _e = _run(name, (), None)
    sites = [(s['key'][1], s['key'][2], s['len'], s['label']) for s in res.world.sites if s['key'][2] >= 0]
    return res, sites, len(res.world.conns)


def tasks(tier='quick'):
    """(server, (connection, message) or None, delivery of that message or None, world-wide delivery as sorted items)"""
    out = []
    for name in sorted(SERVERS) + sorted(CLIENTS):
        _res, sites, _n = baseline(name)
        for kw in ({'segment': 1}, {'segment': 7}, {'segment': 13}, {'coalesce': True}, {'coalesce': True, 'eager': True}, {'eager': True}, {'eager': True, 'segment': 16},
                   {'eager': True, 'segment': 1},
                   # the same messages framed with more random padding than the minimum (RFC 4253: 4..255 bytes)
                   {'lang': True}, {'reserved': True}, {'lf': True}, {'lf': True, 'eager': True, 'coalesce': True}, {'lang': True, 'reserved': True, 'pad_extra': 64},
                   {'pad_extra': 16}, {'pad_extra': 120}, {'pad_extra': 128}, {'pad_extra': 200}, {'pad_extra': 255}, {'pad_extra': 255, 'segment': 13}, {'pad_extra': 136, 'coalesce': True, 'eager': True}):
            if name == 'ssh1' and (kw.get('eager') or kw.get('lang') or kw.get('reserved')):
                continue        # an SSH-1 server has no KEXINIT
            if name in CLIENTS and (kw.get('lang') or kw.get('reserved') or kw.get('lf')):
                continue
            out.append((name, None, None, tuple(sorted(kw.items()))))
        # the peer has sent identification string and KEXINIT and is gone (abortive close): the tool's own writes fail from the start,
        # what the peer sent is readable all the same - in one piece, in segments, glued
        for kw in ({'eager': True}, {'eager': True, 'segment': 16}, {'eager': True, 'segment': 1}, {'eager': True, 'coalesce': True}, {'segment': 16}, {'segment': 1}):
            if name in SERVERS and name != 'ssh1':
                out.append((name, (0, 1), ('then_reset',), tuple(sorted(kw.items()))))     # first connection only: there the KEXINIT is the last thing the tool reads
        for conn, msg, ln, label in sites:
            pats = [('seg1',), ('again', 1), ('late', 4.9), ('drip', 3, 2.4), ('drip', 8, 0.9), ('split_late', max(1, ln // 2), 4.9), ('split_again', max(1, ln // 2)),
                    ('split_again', max(1, ln - 3)), ('split_late', max(1, ln - 1), 3.0),
                    ('late', 'timeout'), ('split_late', max(1, ln // 3), 'timeout')]      # 'timeout': at the very moment the receive call's timeout runs out
            if tier != 'quick':
                pats += [('split', k) for k in range(1, ln)]      # every cut
                pats += [('split_again', k) for k in range(1, ln, 7)] + [('split_late', k, 4.9) for k in range(1, ln, 11)]
            for k in list(range(1, 13)) + [ln - 1, ln - 5, ln - 6]:
                if 0 < k < ln:
                    pats.append(('split', ln - k))
                    if k <= 8:
                        pats.append(('split', k))
            if label in ('kexdh_reply', 'gex_group', 'gex_reply'):
                pats.append(('debug', 1))
                pats.append(('debug', 3))
                pats += [('drip', 6, 2.0), ('drip', 12, 1.0), ('drip', 20, 1.0), ('drip', 40, 0.5)]
            if tier == 'quick' and conn > 6:
                pats = pats[::2]
            for p in sorted(set(pats), key=str):
                out.append((name, (conn, msg), p, ()))
    return out


def _entries(doc):
    # an SSH-1 report lists bare names
    return FI.entries({c: [e for e in doc.get(c, []) if isinstance(e, dict)] for c in CATS})


def _part(doc, what):
    if what == 'names':
        return {c: [e['algorithm'] if isinstance(e, dict) else e for e in doc.get(c, [])] for c in CATS + ('aut',)}, doc.get('compression'), doc.get('banner')
    if what == 'notes':
        return {k: v['notes'] for k, v in _entries(doc).items()}
    if what == 'sizes':
        return {k: (v['keysize'], v['casize'], v['ca']) for k, v in _entries(doc).items()}, sorted(json.dumps(f, sort_keys=True) for f in doc.get('fingerprints', []))
    if what == 'recs':
        return doc.get('recommendations')
    if what == 'banner':
        return doc.get('banner')
    if what == 'terrapin':
        return sorted((k, t) for k, v in _entries(doc).items() for _lv, t in v['notes'] if 'errapin' in t), doc.get('additional_notes')
    return doc


def judge(name, site, pattern, kw=()):
    base, _sites, nbase = baseline(name)
    res, eager = _run(name, kw, {('fi', site[0], site[1]): pattern} if site is not None else None)
    kw = dict(kw)
    kw.pop('eager', None)
    for k in ('lang', 'reserved', 'lf'):
        if kw.pop(k, None):
            kw['same_offer_other_' + k] = True
    d = {'server': name, 'connection_and_message': list(site) if site else None, 'delivery_of_that_message': list(pattern) if pattern else None,
         'delivery_everywhere': dict(kw, kexinit_right_behind_the_banner=eager), 'status': res.status, 'fault_free_status': base.status}
    kind = '+'.join(([pattern[0]] if pattern else []) + sorted(k for k, v in list(kw.items()) + [('eager', eager)] if v))
    where = 'everywhere' if site is None else ('first-connection' if site[0] == 0 else 'probe-connection')
    tag = '%s:%s' % (kind, where)
    probs = []
    if res.hang or res.exc or res.status not in (0, 2, 3):
        # no report at all: everything the customary delivery's report shows is missing from this one
        for clause in ('complete', 'names', 'notes', 'sizes', 'recs', 'banner', 'terrapin'):
            probs.append((clause, 'no-report:%s' % tag, dict(d, hang=res.hang, exc=res.exc, tail=res.stdout[-200:])))
        probs.append(('status', 'status-changes:%s' % tag, d))
        return res, probs
    try:
        doc, bdoc = json.loads(res.stdout), json.loads(base.stdout)
    except ValueError:
        return res, [('complete', 'json-unparseable:%s' % tag, dict(d, stdout=res.stdout[:200]))]
    if res.status != base.status:
        probs.append(('status', 'status-changes:%s' % tag, d))
    for what in ('names', 'notes', 'sizes', 'recs', 'banner', 'terrapin'):
        if _part(doc, what) != _part(bdoc, what):
            probs.append((what, '%s-differ:%s' % (what, tag), dict(d, fault_free=str(_part(bdoc, what))[:300], this_delivery=str(_part(doc, what))[:300])))
    e0, e1 = _entries(bdoc), _entries(doc)
    for k in e1:
        if FI._worst(e1[k]['notes']) > FI._worst(e0.get(k, {'notes': []})['notes']):
            probs.append(('monotone', 'delivery-adds-a-finding:%s' % tag, dict(d, algorithm='%s:%s' % k, fault_free=e0.get(k, {}).get('notes'), this_delivery=e1[k]['notes'])))
    if _part(doc, 'names') != _part(bdoc, 'names'):
        probs.append(('complete', 'report-incomplete:%s' % tag, d))
    n = len(res.world.conns)
    leaked = [s.fd for s in res.world.sockets if not s.closed]
    if n != nbase or leaked:
        probs.append(('connections', 'connection-pattern-differs:%s' % tag, dict(d, connections=n, fault_free_connections=nbase, left_open=len(leaked))))
    return res, probs


def work(chunk, st, clauses):
    for name, site, pattern, kw in chunk:
        res, probs = judge(name, site, pattern, kw)
        root = ('delivery', name, site, pattern, kw)
        st.execution(res.world, outcome=('delivery', name, res.status), root=root, nontrivial=root, detail='light')
        for clause, sig, detail in probs:
            if clause in clauses:
                st.violation('delivery:%s' % sig, detail)
    st.sample({'delivery': [chunk[0][0], list(chunk[0][1]) if chunk[0][1] else None, str(chunk[0][2])[:60], str(chunk[0][3])[:60]]}, cap=6)


# ---- policies under the same deliveries (C05: the policy made from a peer is the same and passes; C05/C06: the verdict on a peer that differs is the same)
_POL = {}


def _policies(name):
    """policy made from the server under the customary delivery, the same policy with every recorded size raised by 8 bits, and the two
    verdicts the customary delivery gives"""
    import os
    import re
    if name not in _POL:
        p0, p1 = H.tmp_path('delivery-%s-made.txt' % name), H.tmp_path('delivery-%s-drift.txt' % name)
        if os.path.exists(p0):
            os.unlink(p0)
        r = H.audit(SERVERS[name](), opts=['-n', '--skip-rate-test', '-M', p0])
        text = open(p0).read() if os.path.exists(p0) else ''
        drift = re.sub(r'("(?:hostkey_size|ca_key_size)": )(\d+)', lambda m: m.group(1) + str(int(m.group(2)) + 8), text)
        drift = re.sub(r'^(dh_modulus_sizes = )(.*)$', lambda m: m.group(1) + re.sub(r': (\d+)', lambda n: ': ' + str(int(n.group(1)) + 8), m.group(2)), drift, flags=re.M)
        with open(p1, 'w') as f:
            f.write(drift)
        v0 = H.audit(SERVERS[name](), opts=['-n', '--skip-rate-test', '-j', '-P', p0])
        v1 = H.audit(SERVERS[name](), opts=['-n', '--skip-rate-test', '-j', '-P', p1])
        _POL[name] = (p0, p1, text, r.status, (v0.status, v0.stdout), (v1.status, v1.stdout), drift != text)
    return _POL[name]


def policy_tasks(tier='quick'):
    return [t for t in tasks(tier) if t[0] in SERVERS]


def _verdict(out):
    try:
        doc = json.loads(out)
        doc.pop('policy', None)      # carries the day the policy was made
        return doc
    except ValueError:
        return out


def _body(text):
    return [l for l in text.split('\n') if l.strip() and not l.startswith('#') and not l.startswith('name =')]


def work_policy(chunk, st, clauses):
    import os
    for name, site, pattern, kw in chunk:
        p0, p1, text, mstatus, v0, v1, drifted = _policies(name)
        faults = {('fi', site[0], site[1]): pattern} if site is not None else None
        kwd = dict(kw)
        eager = bool(kwd.pop('eager', False))
        d = {'server': name, 'connection_and_message': list(site) if site else None, 'delivery_of_that_message': list(pattern) if pattern else None,
             'delivery_everywhere': dict(kwd, kexinit_right_behind_the_banner=eager)}
        kind = '+'.join(([pattern[0]] if pattern else []) + sorted(k for k, v in list(kwd.items()) + [('eager', eager)] if v))
        tag = '%s:%s' % (kind, 'everywhere' if site is None else ('first-connection' if site[0] == 0 else 'probe-connection'))

        def run(opts):
            srv, wkw, _e = _server(name, kw)
            return H.audit(srv, opts=['-n', '--skip-rate-test'] + opts, world_kw=wkw, faults=faults)
        root = ('delivery-policy', name, site, pattern, kw)
        if 'policy-make' in clauses:
            pm = H.tmp_path('delivery-made-again.txt')
            if os.path.exists(pm):
                os.unlink(pm)
            r = run(['-M', pm])
            st.execution(r.world, outcome=('delivery-make', name, r.status), root=root + ('make',), nontrivial=root, detail='light')
            made = open(pm).read() if os.path.exists(pm) else None
            if (made is None) != (text == '') or r.status != mstatus:      # (an SSH-1 peer gets a report, not a policy - under every delivery)
                st.violation('delivery:no-policy-made:%s' % tag, dict(d, status=r.status, customary_status=mstatus, tail=r.stdout[-200:]))
            elif made is not None and _body(made) != _body(text):
                diff = [(a, b) for a, b in zip(_body(text), _body(made)) if a != b][:3]
                st.violation('delivery:policy-made-differs:%s' % tag, dict(d, customary_vs_this=diff))
        if 'policy-verdict' in clauses and text:
            for which, path, want in (('same', p0, v0), ('raised-sizes', p1, v1)):
                if which == 'raised-sizes' and not drifted:
                    continue
                r = run(['-j', '-P', path])
                st.execution(r.world, outcome=('delivery-verdict', name, which, r.status), root=root + (which,), nontrivial=root, detail='light')
                if (r.status, _verdict(r.stdout)) != (want[0], _verdict(want[1])):
                    st.violation('delivery:verdict-differs:%s-policy:%s' % (which, tag), dict(d, status=r.status, customary_status=want[0], this=r.stdout[:300], customary=want[1][:300]))
    st.sample({'delivery_policy': [chunk[0][0], list(chunk[0][1]) if chunk[0][1] else None, str(chunk[0][2])[:60], str(chunk[0][3])[:60]]}, cap=6)
