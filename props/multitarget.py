"""Shared machinery for the multi-target properties C07 (independence) and C08 (isolation of failures)."""
import json
import os
import socket

from mc import harness as H, peer, report, runner, sched, vnet, wire

OPENSSH = b'SSH-2.0-OpenSSH_8.9p1'


def _hk(keys, **kw):
    return peer.standard_host_keys(keys, **kw)


# ---- healthy archetypes: one per channel through which a scan edits shared rating state
def mk_TERR(label):
    return peer.Server(label=label, enc=['chacha20-poly1305@openssh.com', 'aes128-cbc', 'aes256-ctr'],
                       mac=['hmac-sha2-256-etm@openssh.com', 'hmac-sha2-256'])


def mk_MARK(label):
    return peer.Server(label=label, kex=['curve25519-sha256', 'kex-strict-s-v00@openssh.com'],
                       enc=['chacha20-poly1305@openssh.com', 'aes128-cbc', 'aes256-ctr'],
                       mac=['hmac-sha2-256-etm@openssh.com', 'hmac-sha2-256'])


def mk_RSA1024(label):
    k = ['rsa-sha2-512', 'ssh-rsa']
    return peer.Server(label=label, key=k, host_keys=_hk(k, rsa_bits=1024))


def mk_RSA2048(label):
    k = ['rsa-sha2-512', 'ssh-rsa']
    return peer.Server(label=label, key=k, host_keys=_hk(k, rsa_bits=2048))


def mk_RSA4096(label):
    k = ['rsa-sha2-512', 'ssh-rsa']
    return peer.Server(label=label, key=k, host_keys=_hk(k, rsa_bits=4096))


def mk_CERTSMALLCA(label):
    k = ['ssh-ed25519-cert-v01@openssh.com', 'ssh-ed25519']
    return peer.Server(label=label, key=k, host_keys=_hk(k, ca='rsa', ca_bits=1024))


def mk_CERTBIGCA(label):
    k = ['ssh-ed25519-cert-v01@openssh.com', 'ssh-ed25519']
    return peer.Server(label=label, key=k, host_keys=_hk(k, ca='rsa', ca_bits=4096))


def mk_GEX1024(label):
    return peer.Server(label=label, kex=['diffie-hellman-group-exchange-sha256', 'diffie-hellman-group-exchange-sha1'],
                       gex=peer.GexPolicy([1024, 4096], peer.STRICT), host_keys=_hk(['ssh-ed25519']), banner=b'SSH-2.0-dropbear_2022.83')


def mk_GEX4096(label):
    return peer.Server(label=label, kex=['diffie-hellman-group-exchange-sha256', 'diffie-hellman-group-exchange-sha1'],
                       gex=peer.GexPolicy([4096], peer.STRICT), host_keys=_hk(['ssh-ed25519']), banner=b'SSH-2.0-dropbear_2022.83')


def mk_GEXFALLBACK(label):
    # OpenSSH whose moduli file only has 3072+: small requests hit the 2048 fallback, the follow-up probe gets 3072
    return peer.Server(label=label, kex=['curve25519-sha256', 'diffie-hellman-group-exchange-sha256'],
                       gex=peer.GexPolicy([3072, 4096], peer.OPENSSH), host_keys=_hk(['ssh-ed25519']), banner=OPENSSH)


def mk_GEX2048OPENSSH(label):
    # OpenSSH that really hands out 2048: note + recommendation suppression
    return peer.Server(label=label, kex=['curve25519-sha256', 'diffie-hellman-group-exchange-sha256'],
                       gex=peer.GexPolicy([2048], peer.OPENSSH), host_keys=_hk(['ssh-ed25519']), banner=OPENSSH)


def mk_GEX2048OPENSSHCBC(label):
    # a twin of GEX2048OPENSSH (same branch of every decision about group exchange) that differs in its ciphers and MACs
    return peer.Server(label=label, kex=['curve25519-sha256', 'diffie-hellman-group-exchange-sha256'], enc=['aes256-ctr', '3des-cbc', 'aes128-cbc'],
                       mac=['hmac-sha2-256', 'hmac-sha1'], gex=peer.GexPolicy([2048], peer.OPENSSH), host_keys=_hk(['ssh-ed25519']), banner=OPENSSH)


def mk_PQONLY(label):
    # hardened to post-quantum hybrids the connection-rate check knows nothing about: it returns early for this target
    return peer.Server(label=label, kex=['mlkem768x25519-sha256', 'sntrup761x25519-sha512'], key=['ssh-ed25519'], enc=['aes256-gcm@openssh.com'],
                       mac=['hmac-sha2-256-etm@openssh.com'], host_keys=_hk(['ssh-ed25519']), banner=OPENSSH)


def mk_SSH1(label):
    return peer.Server(label=label, banner=b'SSH-1.5-OpenSSH_3.4', ssh1={'cmask': 0x4c, 'amask': 0x2c}, versions_differ=True)


def mk_CLEAN(label):
    return peer.Server(label=label, kex=['sntrup761x25519-sha512@openssh.com'], key=['ssh-ed25519'], enc=['aes256-gcm@openssh.com'],
                       mac=['hmac-sha2-256-etm@openssh.com'], host_keys=_hk(['ssh-ed25519']), banner=OPENSSH)


def mk_UNKNOWN(label):
    return peer.Server(label=label, kex=['curve25519-sha256', 'frobnicate-sha9@example.org'], key=['ssh-ed25519', 'ssh-frob@example.org'],
                       enc=['aes256-ctr', 'frob256@example.org'], mac=['hmac-sha2-256', 'hmac-frob@example.org'],
                       host_keys=_hk(['ssh-ed25519']))


def mk_OLDSSH(label):
    # same product as the other OpenSSH archetypes at a much older version: what is "available" differs
    return peer.Server(label=label, kex=['diffie-hellman-group14-sha1'], key=['ssh-rsa'], enc=['aes256-ctr'], mac=['hmac-sha2-256'],
                       host_keys=_hk(['ssh-rsa'], rsa_bits=4096), banner=b'SSH-2.0-OpenSSH_6.4')


def mk_NEWSSH(label):
    return peer.Server(label=label, kex=['diffie-hellman-group14-sha1'], key=['ssh-rsa'], enc=['aes256-ctr'], mac=['hmac-sha2-256'],
                       host_keys=_hk(['ssh-rsa'], rsa_bits=4096), banner=b'SSH-2.0-OpenSSH_10.0')


def mk_GEXREFUSED(label):
    # offers group exchange but refuses every request: no size can be measured for it
    return peer.Server(label=label, kex=['diffie-hellman-group-exchange-sha256', 'diffie-hellman-group-exchange-sha1'],
                       gex=peer.GexPolicy([], peer.STRICT), host_keys=_hk(['ssh-ed25519']), banner=b'SSH-2.0-dropbear_2022.83')


HEALTHY = {
    'TERR': mk_TERR, 'MARK': mk_MARK, 'RSA1024': mk_RSA1024, 'RSA2048': mk_RSA2048, 'RSA4096': mk_RSA4096,
    'CERTSMALLCA': mk_CERTSMALLCA, 'CERTBIGCA': mk_CERTBIGCA, 'GEX1024': mk_GEX1024, 'GEX4096': mk_GEX4096,
    'GEXFALLBACK': mk_GEXFALLBACK, 'GEX2048OPENSSH': mk_GEX2048OPENSSH, 'SSH1': mk_SSH1, 'CLEAN': mk_CLEAN, 'UNKNOWN': mk_UNKNOWN,
    'OLDSSH': mk_OLDSSH, 'NEWSSH': mk_NEWSSH, 'GEXREFUSED': mk_GEXREFUSED, 'GEX2048OPENSSHCBC': mk_GEX2048OPENSSHCBC,
}


# ---- failure archetypes (C08)
def mk_REFUSED(label):
    return peer.Server(label=label, conn_behaviour=lambda i: 'refuse')


def mk_CONNTIMEOUT(label):
    return peer.Server(label=label, conn_behaviour=lambda i: 'timeout')


def mk_SILENT(label):
    return peer.Server(label=label, conn_behaviour=lambda i: 'silent')


def mk_CLOSEEARLY(label):
    return peer.Server(label=label, conn_behaviour=lambda i: 'close')


def _faulty(label, site_msg, fault, base=None, conn=0):
    s = (base or mk_TERR)(label)
    s._planned = {(label, conn, site_msg): fault}
    return s


def mk_CLOSEAFTERBANNER(label):
    return _faulty(label, 1, ('trunc_close', 0))


def mk_BADBLOCK(label):
    return _faulty(label, 1, ('len', 0, 'plus1'))


def mk_TRUNCKEXINIT(label):
    return _faulty(label, 1, ('trunc_close', 40))


def mk_WRONGFIRST(label):
    return _faulty(label, 1, ('type', 21))


def mk_GARBAGEBANNER(label):
    return _faulty(label, 0, ('garbage', 64, 3))


def mk_EMPTYPAYLOAD(label):
    return _faulty(label, 1, ('emptypayload',))


def mk_PADOVERRUN(label):
    return _faulty(label, 1, ('padoverrun',))


def mk_PROBEEMPTYPAYLOAD(label):
    return _faulty(label, 2, ('emptypayload',), base=mk_RSA2048, conn=1)


def mk_BADCRC(label):
    return peer.Server(label=label, banner=b'SSH-1.5-OpenSSH_3.4', ssh1={'cmask': 0x4c, 'amask': 0x2c, 'bad_crc': True}, versions_differ=True)


def mk_PROBEGARBAGE(label):
    # healthy first connection, garbage instead of the host-key reply on the probe connection
    return _faulty(label, 2, ('garbage', 64, 5), base=mk_RSA2048, conn=1)


def mk_PROBEBADBLOCK(label):
    return _faulty(label, 2, ('len', 0, 'plus1'), base=mk_RSA2048, conn=1)


def mk_PROBEKEXBAD(label):
    # healthy first connection; on the host-key probe connection a KEXINIT whose first name-list length overruns the packet
    return _faulty(label, 1, ('len', 2, 'huge31'), base=mk_RSA2048, conn=1)


def mk_PROBEHOSTKEYBAD(label):
    # healthy first connection; the probe's KEXDH reply carries a host-key blob whose inner length overruns it
    return _faulty(label, 2, ('len', 2, 'huge31'), base=mk_RSA2048, conn=1)


def mk_PROBEDEBUGBAD(label):
    # on the probe connection: a well-formed DEBUG message, then a host-key reply with a bad block size
    return _faulty(label, 2, ('debug_then', ('len', 0, 'plus1')), base=mk_RSA2048, conn=1)


def mk_DEBUGBADBLOCK(label):
    # first connection: a well-formed MSG_DEBUG where the KEXINIT is due (legal), then a packet with a bad block size
    return _faulty(label, 1, ('debug_then', ('len', 0, 'plus1')))


def mk_DEBUGEMPTY(label):
    return _faulty(label, 1, ('debug_then', ('emptypayload',)))


# healthy archetypes used by single families only (kept out of the all-pairs products)
def mk_GEXTHROTTLE(label):
    # a server that starts refusing connections after the fourth (MaxStartups, fail2ban): its first modulus probe is answered, the rest are refused
    s = peer.Server(label=label, kex=['curve25519-sha256', 'diffie-hellman-group-exchange-sha256'], gex=peer.GexPolicy([2048, 4096], peer.STRICT),
                    host_keys=_hk(['ssh-ed25519']), banner=b'SSH-2.0-dropbear_2022.83')
    s.conn_behaviour = lambda i: 'normal' if i < 3 else 'refuse'
    return s


def mk_PROBESSILENT(label):
    # a complete first handshake; every later (probe) connection is accepted and then says nothing: each costs the tool one timeout
    s = peer.Server(label=label, kex=['curve25519-sha256', 'diffie-hellman-group-exchange-sha256'], key=['rsa-sha2-512', 'ssh-ed25519'], enc=['aes256-ctr', '3des-cbc'], mac=['hmac-sha2-256'],
                    gex=peer.GexPolicy([2048, 4096], peer.STRICT), host_keys=_hk(['rsa-sha2-512', 'ssh-ed25519']), banner=b'SSH-2.0-OpenSSH_8.0')
    s.conn_behaviour = lambda i: 'normal' if i == 0 else 'silent'
    return s


HEALTHY_EXTRA = {'PQONLY': mk_PQONLY, 'GEXTHROTTLE': mk_GEXTHROTTLE, 'PROBESSILENT': mk_PROBESSILENT}

FAILING = {
    'UNRESOLVABLE': None, 'REFUSED': mk_REFUSED, 'CONNTIMEOUT': mk_CONNTIMEOUT, 'SILENT': mk_SILENT, 'CLOSEEARLY': mk_CLOSEEARLY,
    'CLOSEAFTERBANNER': mk_CLOSEAFTERBANNER, 'BADBLOCK': mk_BADBLOCK, 'TRUNCKEXINIT': mk_TRUNCKEXINIT, 'WRONGFIRST': mk_WRONGFIRST,
    'GARBAGEBANNER': mk_GARBAGEBANNER, 'BADCRC': mk_BADCRC, 'PROBEGARBAGE': mk_PROBEGARBAGE, 'PROBEBADBLOCK': mk_PROBEBADBLOCK,
    'EMPTYPAYLOAD': mk_EMPTYPAYLOAD, 'PADOVERRUN': mk_PADOVERRUN, 'PROBEEMPTYPAYLOAD': mk_PROBEEMPTYPAYLOAD,
    'PROBEKEXBAD': mk_PROBEKEXBAD, 'PROBEHOSTKEYBAD': mk_PROBEHOSTKEYBAD, 'PROBEDEBUGBAD': mk_PROBEDEBUGBAD,
    'DEBUGBADBLOCK': mk_DEBUGBADBLOCK, 'DEBUGEMPTY': mk_DEBUGEMPTY,
}

# a peer that sends part of its identification string (or a whole line before it) late - well inside the timeout, a millisecond before
# it runs out, at the very moment it runs out - and then nothing more, with the connection left open
def _mk_partial(d, motd):
    def mk(label):
        if motd:
            s = peer.Server(label=label, banner=b'SSH-2.0-OpenSSH_9.6', pre_banner=[b'Welcome to this host'])
            s._planned = {(label, 0, 0): ('late_then', d, ('split', 5)), (label, 0, 1): ('trunc_stall', 0)}
            return s
        return _faulty(label, 0, ('late_then', d, ('trunc_stall', 7)))
    return mk


FAILING_EXTRA = {'%s@%s' % ('MOTD' if motd else 'FRAG', d): _mk_partial(d, motd) for motd in (False, True) for d in (1.0, 4.999, 'timeout')}

ALL = dict(HEALTHY)
ALL.update(FAILING)
ALL.update(HEALTHY_EXTRA)
ALL.update(FAILING_EXTRA)


def host_label(i):
    return 'host%d.example' % i


def build_world(archs, port=22, world_kw=None):
    """archs: list of archetype names, position i served at hostname host<i>.example."""
    servers, resolver, faults = {}, {}, {}
    for i, a in enumerate(archs):
        h = host_label(i)
        ip = '10.0.%d.1' % i
        if a == 'UNRESOLVABLE':
            resolver[h] = socket.gaierror(-2, 'Name or service not known')
            continue
        s = ALL[a](h)
        servers[(ip, port)] = s
        resolver[h] = [(int(socket.AF_INET), ip)]
        faults.update(getattr(s, '_planned', {}))
    return vnet.World(servers=servers, resolver=resolver, faults=faults, **(world_kw or {}))


_tf_counter = [0]


def targets_file(lines):
    _tf_counter[0] += 1
    p = H.tmp_path('targets-%d-%d.txt' % (os.getpid(), _tf_counter[0] % 4))
    with open(p, 'w') as f:
        f.write(''.join(l + '\n' for l in lines))
    return p


def run_multi(archs, threads, fmt='text', prefix=(), gate_kinds=('connect',), policy=None, extra=(), world_kw=None, rate=False, explore_main=False):
    """-> (result, scheduler).  Output for position i is labelled host<i>.example."""
    w = build_world(archs, world_kw=world_kw)
    tf = targets_file([host_label(i) for i in range(len(archs))])
    argv = ['-n'] + ([] if rate else ['--skip-rate-test']) + (['-j'] if fmt == 'json' else []) + list(extra)
    if policy:
        argv += ['-P', policy]
    argv += ['-T', tf, '--threads', str(threads)]
    return sched.run_scheduled(runner.run_cli, argv, w, prefix, gate_kinds, explore_main=explore_main)


_single_cache = {}


def run_single(arch, pos, fmt='text', policy=None, via_targets_file=True, extra=()):
    """Fresh invocation with only this target (same hostname as in position pos)."""
    key = (arch, pos, fmt, policy, via_targets_file, tuple(extra))
    if key in _single_cache:
        return _single_cache[key]
    archs = [None] * pos + [arch]
    # only position pos is populated
    servers, resolver, faults = {}, {}, {}
    h = host_label(pos)
    ip = '10.0.%d.1' % pos
    if arch == 'UNRESOLVABLE':
        resolver[h] = socket.gaierror(-2, 'Name or service not known')
    else:
        s = ALL[arch](h)
        servers[(ip, 22)] = s
        resolver[h] = [(int(socket.AF_INET), ip)]
        faults.update(getattr(s, '_planned', {}))
    w = vnet.World(servers=servers, resolver=resolver, faults=faults)
    argv = ['-n', '--skip-rate-test'] + (['-j'] if fmt == 'json' else []) + list(extra)
    if policy:
        argv += ['-P', policy]
    if via_targets_file:
        argv += ['-T', targets_file([h]), '--threads', '1']
    else:
        argv += [h]
    res = runner.run_cli(argv, w)
    _single_cache[key] = res
    return res


def norm_block(b):
    return '\n'.join(l.rstrip() for l in b.strip('\n').split('\n'))


def split_text(stdout):
    return [norm_block(b) for b in report.split_targets(stdout)]


def block_host(block):
    """Which host<i>.example a block talks about (first mention)."""
    import re
    m = re.search(r'host(\d+)\.example', block)
    return int(m.group(1)) if m else None
