"""C12 - group-exchange modulus size is measured and rated correctly (all server moduli policies)."""
import itertools
import json
import re
import time

from mc import evidence, explore, harness as H, par, peer as P, report

PID = 'C12'
ALL_SIZES = [512, 768, 1024, 1536, 2048, 3072, 4096, 6144, 8192]
QUICK_SIZES = [1024, 1536, 2048, 3072, 4096]
STYLES = (P.STRICT, P.ROUNDUP, P.OPENSSH, P.LENIENT, P.PREFER)      # lenient = RFC 4419 section 3 read literally (min/max not enforced)
LARGE_SETS = [(6144,), (8192,), (6144, 8192), (2048, 6144), (2048, 8192), (1024, 6144), (3072, 8192), (4096, 6144)]
SHA1, SHA256 = 'diffie-hellman-group-exchange-sha1', 'diffie-hellman-group-exchange-sha256'
OFFERS = {'sha1': [SHA1], 'sha256': [SHA256], 'both': [SHA256, SHA1]}
BANNERS = {'openssh': b'SSH-2.0-OpenSSH_8.9p1 Ubuntu-3', 'other': b'SSH-2.0-dropbear_2022.83'}
# further spellings of an OpenSSH identification: every stage of the tool must agree on whether the peer is OpenSSH
ODD_BANNERS = {'openssh-windows': b'SSH-2.0-OpenSSH_for_Windows_8.1', 'openssh-bare': b'SSH-2.0-OpenSSH', 'openssh-comment-only': b'SSH-2.0-FrobSSH_1.0 OpenSSH compatible'}
ALL_BANNERS = dict(BANNERS, **ODD_BANNERS)
BUG_NOTE = 'A bug in OpenSSH causes it to fall back to a 2048-bit modulus'
FALLBACK_NOTE = "OpenSSH's GEX fallback mechanism was triggered"


def subsets(sizes):
    out = []
    for k in range(0, len(sizes) + 1):
        out += list(itertools.combinations(sizes, k))
    return out


def make_server(sub, style, offer, banner):
    if sub and sub[0] == 'splitmix':  # ... and answered in different styles
        gex = {SHA1: P.GexPolicy(list(sub[1]), sub[3]), SHA256: P.GexPolicy(list(sub[2]), sub[4])}
        return P.Server(kex=OFFERS[offer] + ['sntrup761x25519-sha512@openssh.com'], key=['ssh-ed25519'], host_keys=P.standard_host_keys(['ssh-ed25519']),
                        gex=gex, banner=ALL_BANNERS[banner])
    if sub and sub[0] == 'split':     # the two group-exchange algorithms are served from different moduli files
        gex = {SHA1: P.GexPolicy(list(sub[1]), style), SHA256: P.GexPolicy(list(sub[2]), style)}
        return P.Server(kex=OFFERS[offer] + ['sntrup761x25519-sha512@openssh.com'], key=['ssh-ed25519'], host_keys=P.standard_host_keys(['ssh-ed25519']),
                        gex=gex, banner=ALL_BANNERS[banner])
    return P.Server(kex=OFFERS[offer] + ['sntrup761x25519-sha512@openssh.com'], key=['ssh-ed25519'], host_keys=P.standard_host_keys(['ssh-ed25519']),
                    gex=P.GexPolicy(list(sub), style), banner=ALL_BANNERS[banner])


def expected_from_log(srv, alg, banner):
    """What the property promises, from the server's own hand-out log for connections that negotiated `alg`."""
    handed, follow = [], None
    for r in srv.records:
        neg = r.get('negotiated')
        if not neg or neg[0] != alg:
            continue
        for (mn, pref, mx, bits) in r['gex_requests']:
            if (mn, pref, mx) == (1024, 2048, 8192):
                continue        # the host-key probe's own group exchange, not part of the modulus probe sequence
            if (mn, pref, mx) == (2048, 3072, 4096):
                follow = bits
            elif bits is not None:
                handed.append(bits)
    if not handed and follow is None:
        return None, False
    smallest = min(handed) if handed else None
    if banner in ('openssh', 'openssh-windows', 'openssh-bare') and smallest == 2048 and follow is not None:
        return (follow if follow else 2048), (follow not in (None, 2048))
    return smallest, False


def model_requests(gexp, banner):
    """the fixed probe sequence for one algorithm, played against the server's moduli policy: (512, 1024, 1536), then min = pref = max at
    512, 768, ... 4096 until a size at or above the smallest group seen so far; an OpenSSH server left at 2048 gets (2048, 3072, 4096)"""
    reqs = [(512, 1024, 1536)]
    r = gexp.choose(512, 1024, 1536) if gexp else None
    smallest = r if r else -1
    for bits in (512, 768, 1024, 1536, 2048, 3072, 4096):
        if bits >= smallest > 0:
            break
        reqs.append((bits, bits, bits))
        r = gexp.choose(bits, bits, bits) if gexp else None
        if r and (smallest <= 0 or r < smallest):
            smallest = r
    if smallest == 2048 and banner in ('openssh', 'openssh-windows', 'openssh-bare'):
        reqs.append((2048, 3072, 4096))
    return reqs


def model_run(gexp, banner, bad=()):
    """as model_requests, with the requests whose index is in `bad` answered by a degenerate group (no size for that probe); -> (requests, size)"""
    reqs = []

    def ask(mn, pref, mx):
        i = len(reqs)
        reqs.append((mn, pref, mx))
        r = gexp.choose(mn, pref, mx) if gexp else None
        return None if (i in bad or not r) else r
    r = ask(512, 1024, 1536)
    smallest = r if r else -1
    for bits in (512, 768, 1024, 1536, 2048, 3072, 4096):
        if bits >= smallest > 0:
            break
        r = ask(bits, bits, bits)
        if r and (smallest <= 0 or r < smallest):
            smallest = r
    if smallest == 2048 and banner in ('openssh', 'openssh-windows', 'openssh-bare'):
        r = ask(2048, 3072, 4096)
        smallest = r if r else -1
    return reqs, (smallest if smallest > 0 else None)


def work_degenerate(chunk, st):
    """one probe of one algorithm answered with a degenerate group (p = 0, 1 or 5): that probe yields no size, every other probe of the
    fixed sequence is still made on a fresh connection and counted"""
    for sub, style, banner, alg, k, p in chunk:
        srv = make_server(sub, style, 'both', banner)
        good = srv._gex_prime
        count = {}

        def prime(bits, srv=srv):
            # called once per answered GEX request; the connection's negotiated algorithm tells the sequences apart
            a = srv.records[-1].get('negotiated', (None,))[0] if srv.records else None
            last = srv.records[-1]['gex_requests'][-1] if srv.records and srv.records[-1]['gex_requests'] else None
            if last is not None and tuple(last[:3]) == (1024, 2048, 8192):
                return good(bits)
            i = count.get(a, 0)
            count[a] = i + 1
            return p if (a == alg and i == k) else good(bits)
        srv._gex_prime = prime
        res = H.audit(srv)
        root = ('degenerate-probe', sub, style, banner, alg, k, p)
        st.execution(res.world, outcome=('degenerate-probe', res.status), root=root, nontrivial=root)
        d = {'moduli': list(sub), 'style': style, 'banner': banner, 'alg': alg, 'degenerate_answer_to_request': k, 'p': p, 'status': res.status}
        if res.status not in (0, 2, 3) or res.hang or res.exc:
            st.violation('degenerate-probe:audit-failed', dict(d, hang=res.hang, stdout=res.stdout[-200:]))
            continue
        rep = report.TextReport(res.stdout)
        for a in OFFERS['both']:
            seen = [tuple(q[:3]) for r in srv.records if r.get('negotiated', (None,))[0] == a for q in r['gex_requests'] if tuple(q[:3]) != (1024, 2048, 8192)]
            # answered requests only count towards the index, so replay the model with the same rule
            answered = [i for i, q in enumerate(seen)]
            bad = ()
            if a == alg:
                # index k among the ANSWERED requests of this algorithm
                idx, n = None, -1
                for i, q in enumerate(seen):
                    if srv.gex.choose(*q) is not None:
                        n += 1
                        if n == k:
                            idx = i
                            break
                bad = (idx,) if idx is not None else ()
            want_reqs, want = model_run(srv.gex, banner, bad)
            entry = next((x for x in rep.algs['kex'] if x['name'] == a), None)
            got = entry['size'] if entry else None
            if seen != want_reqs:
                st.violation('degenerate-probe:probe-sequence-differs', dict(d, sequence_of=a, requests=seen, fixed_sequence=want_reqs))
            elif got != want:
                st.violation('degenerate-probe:size-differs', dict(d, sequence_of=a, reported=got, expected=want))
    st.sample({'degenerate_probe': [list(chunk[0][0]), chunk[0][1], chunk[0][3], chunk[0][4]]}, cap=4)


def rating(bits):
    return 'fail' if bits < 2048 else 'warn' if bits < 3072 else None


def judge(res, srv, offer, banner, st, detail, fam='gex'):
    if res.status not in (0, 2, 3) or res.hang or res.exc:
        st.violation('%s:audit-failed' % fam, dict(detail, status=res.status, hang=res.hang, stdout=res.stdout[-300:]))
        return
    rep = report.TextReport(res.stdout)
    for alg in OFFERS[offer]:
        if fam == 'gex':
            gexp = srv.gex.get(alg) if isinstance(srv.gex, dict) else srv.gex
            seen = [tuple(q[:3]) for r in srv.records if r.get('negotiated', (None,))[0] == alg for q in r['gex_requests'] if tuple(q[:3]) != (1024, 2048, 8192)]
            want_reqs = model_requests(gexp, banner)
            if seen != want_reqs:
                st.violation('gex:probe-sequence-differs:%s' % ('probe-skipped' if len(seen) < len(want_reqs) else 'extra-or-other-probe'), dict(detail, alg=alg, requests=seen, fixed_sequence=want_reqs))
        want, fallback = expected_from_log(srv, alg, banner)
        entry = next((a for a in rep.algs['kex'] if a['name'] == alg), None)
        if entry is None:
            st.violation('%s:kex-not-reported' % fam, dict(detail, alg=alg))
            continue
        got = entry['size']
        if got != want:
            st.violation('%s:size-differs:%s' % (fam, 'none-expected' if want is None else 'wrong-size' if got is not None else 'size-missing'),
                         dict(detail, alg=alg, reported=got, expected=want, log=[r['gex_requests'] for r in srv.records if r.get('negotiated', (None,))[0] == alg]))
            continue
        notes = entry['notes']
        size_lv = sorted(set(lv for lv, t in notes if re.search(r'using small \d+-bit modulus|2048-bit modulus only provides', t)))
        want_lv = [rating(want)] if want is not None and rating(want) else []
        if size_lv != want_lv:
            st.violation('%s:size-rating' % fam, dict(detail, alg=alg, size=got, size_note_levels=size_lv, expected=want_lv, notes=notes))
        for lv, t in notes:
            m = re.search(r'using small (\d+)-bit modulus', t)
            if m and int(m.group(1)) != want and not (alg == SHA1 and want is None):
                if not (want is None and int(m.group(1)) == 1024):
                    st.violation('%s:size-in-note-differs' % fam, dict(detail, alg=alg, note=t, size=want))
        has_fb = any(FALLBACK_NOTE in t for _lv, t in notes)
        if has_fb != fallback:
            st.violation('%s:fallback-note' % fam, dict(detail, alg=alg, has_note=has_fb, expected=fallback))
        # an OpenSSH server left at 2048 bits after the follow-up probe: the report explains that this is OpenSSH's doing
        if alg == SHA256 and fam == 'gex':
            want_bug = banner in ('openssh', 'openssh-windows', 'openssh-bare') and want == 2048
            if any(BUG_NOTE in t for _lv, t in notes) != want_bug:
                st.violation('%s:openssh-2048-note' % fam, dict(detail, alg=alg, expected=want_bug, notes=notes))


def work(chunk, st):
    for sub, style, offer, banner in chunk:
        detail = {'moduli': [list(x) if isinstance(x, tuple) else x for x in sub], 'style': style, 'offer': offer, 'banner': banner}
        srv = make_server(sub, style, offer, banner)
        res = H.audit(srv)
        st.execution(res.world, outcome=(style, offer, banner, res.status), root=(sub, style, offer, banner), nontrivial=(sub, style, offer, banner))
        judge(res, srv, offer, banner, st, detail)
        # JSON agrees
        srv2 = make_server(sub, style, offer, banner)
        rj = H.audit(srv2, opts=['-n', '--skip-rate-test', '-j'])
        st.execution(rj.world, outcome=('json', rj.status), root=(sub, style, offer, banner, 'json'))
        try:
            doc = json.loads(rj.stdout)
            for alg in OFFERS[offer]:
                want, _fb = expected_from_log(srv2, alg, banner)
                e = next((x for x in doc['kex'] if x['algorithm'] == alg), {})
                if e.get('keysize') != want:
                    st.violation('gex:json-size-differs', dict(detail, alg=alg, reported=e.get('keysize'), expected=want))
        except ValueError:
            st.violation('gex:json-unparseable', detail)
        if st.evaluations % 900 == 1:
            st.sample(dict(detail, requests=[r['gex_requests'] for r in srv.records if r['gex_requests']][:10]))


FAULT_SERVERS = (((768, 1024, 2048), P.PREFER, 'other'), ((1024, 2048, 4096), P.STRICT, 'other'), ((2048, 3072), P.OPENSSH, 'openssh'), ((3072,), P.ROUNDUP, 'other'),
                 ((3072, 4096), P.OPENSSH, 'openssh'), ((4096,), P.OPENSSH, 'other'), ((1024,), P.OPENSSH, 'openssh'))


def fault_tasks(tier):
    out = []
    for sub, style, banner in FAULT_SERVERS:
        def sc(faults, sub=sub, style=style, banner=banner):
            srv = make_server(sub, style, 'both', banner)
            res = H.audit(srv, faults=faults)
            res.peer = srv
            return res
        base, plans = explore.first_level_tasks(sc, level='message', site_filter=lambda s: s['label'] in ('gex_group', 'gex_reply', 'connect', 'kexinit', 'banner') and s['key'][1] >= 2)
        for p in plans:
            f = p[0][1]
            if f[0] == 'len' and f[1] >= 1:
                continue     # an inner length field that is merely different declares a different (still well-formed) p or g: not garbage
            out.append((sub, style, banner, p))
    return out


def model_audit(srv_gex, banner, lost=None):
    """Both algorithms in the tool's order (sha1, then sha256).  lost = (algorithm, index of the probe in that algorithm's sequence, kind):
    'exchange' = the connection is set up but no usable group arrives; 'setup' = the connection itself cannot be set up (refused, no
    banner, no KEXINIT), which also ends the whole test when it hits the first or the last probe of an algorithm's fixed-size run.
    -> {algorithm: (number of probe connections, size or None)}"""
    out, stopped = {}, False
    for alg in (SHA1, SHA256):
        gexp = srv_gex.get(alg) if isinstance(srv_gex, dict) else srv_gex
        if stopped:
            out[alg] = (0, None)
            continue
        n = [0]

        def ask(mn, pref, mx):
            i = n[0]
            n[0] += 1
            if lost is not None and lost[0] == alg and lost[1] == i:
                return None, lost[2] == 'setup'
            r = gexp.choose(mn, pref, mx) if gexp else None
            return (r or None), False
        r, rf = ask(512, 1024, 1536)
        if rf:
            out[alg] = (n[0], None)
            stopped = True
            continue
        smallest = r if r else -1
        rf = False
        for bits in (512, 768, 1024, 1536, 2048, 3072, 4096):
            if bits >= smallest > 0:
                break
            r, rf = ask(bits, bits, bits)
            if r and (smallest <= 0 or r < smallest):
                smallest = r
        if smallest == 2048 and banner in ('openssh', 'openssh-windows', 'openssh-bare'):
            r, _ = ask(2048, 3072, 4096)
            smallest = r if r else -1
        out[alg] = (n[0], smallest if smallest > 0 else None)
        if rf:
            stopped = True
    return out


_BASE = {}


def _baseline(sub, style, banner):
    k = (sub, style, banner)
    if k not in _BASE:
        srv = make_server(sub, style, 'both', banner)
        H.audit(srv)
        conn_alg = {}
        for r in srv.records:
            reqs = [tuple(q[:3]) for q in r['gex_requests']]
            conn_alg[r['index']] = r.get('negotiated', (None,))[0] if reqs and (1024, 2048, 8192) not in reqs else None
        _BASE[k] = (conn_alg, len(srv.records))
    return _BASE[k]


def work_faults(chunk, st):
    for sub, style, banner, plan in chunk:
        # a fault that costs exactly one probe: everything else is measured as the fixed sequence gives with that one probe lost
        (fkey, fault) = plan[0]
        fconn, fmsg, fk = fkey[1], fkey[2], fault[0]
        conn_alg, nbase = _baseline(sub, style, banner)
        lost_kind = None
        if conn_alg.get(fconn):
            if fmsg == -1 or (fmsg <= 1 and fk in ('trunc_close', 'trunc_stall', 'reset', 'garbage')):
                lost_kind = 'setup'
            elif fmsg == 2 and (fk in ('trunc_close', 'trunc_stall', 'reset', 'garbage') or fk == 'type'):
                lost_kind = 'exchange'
        if lost_kind:
            alg = conn_alg[fconn]
            k = len([i for i in conn_alg if conn_alg[i] == alg and i < fconn])
            srvm = make_server(sub, style, 'both', banner)
            resm = H.audit(srvm, faults={tuple(fkey): tuple(fault)})
            want = model_audit(srvm.gex, banner, (alg, k, lost_kind))
            free = model_audit(srvm.gex, banner)
            if resm.status in (0, 2, 3) and not resm.hang:
                repm = report.TextReport(resm.stdout)
                dm = {'moduli': list(sub), 'style': style, 'banner': banner, 'plan': plan, 'lost_probe': [alg, k, lost_kind]}
                for a in (SHA1, SHA256):
                    e = next((x for x in repm.algs['kex'] if x['name'] == a), None)
                    got = e['size'] if e else None
                    if got != want[a][1]:
                        st.violation('gexfault:one-lost-probe:size-differs:%s' % lost_kind, dict(dm, alg=a, reported=got, expected=want[a][1]))
                nconn = len(resm.world.conns)
                want_conn = nbase - sum(v[0] for v in free.values()) + sum(v[0] for v in want.values())
                if nconn != want_conn:
                    st.violation('gexfault:one-lost-probe:probe-connections-differ:%s' % lost_kind, dict(dm, connections=nconn, expected=want_conn))
    for sub, style, banner, plan in chunk:
        srv = make_server(sub, style, 'both', banner)
        faults = {tuple(k): tuple(f) for k, f in plan}
        res = H.audit(srv, faults=faults)
        st.execution(res.world, outcome=('fault', plan[0][1][0], res.status), root=('fault', sub, style, banner, plan), nontrivial=('fault', sub, style, banner, plan))
        if res.status not in (0, 2, 3) or res.hang:
            st.violation('gexfault:audit-failed', {'moduli': list(sub), 'plan': plan, 'status': res.status, 'hang': res.hang})
            continue
        rep = report.TextReport(res.stdout)
        # a faulted phase gives no size or a size the server really handed out - never another value
        for alg in OFFERS['both']:
            entry = next((a for a in rep.algs['kex'] if a['name'] == alg), None)
            handed = set()
            for r in srv.records:
                if r.get('negotiated', (None,))[0] == alg:
                    handed |= {b for (_a, _b, _c, b) in r['gex_requests'] if b}
            if entry is not None and entry['size'] is not None and entry['size'] not in handed:
                st.violation('gexfault:size-never-handed-out', {'moduli': list(sub), 'plan': plan, 'alg': alg, 'reported': entry['size'], 'handed': sorted(handed)})
            # OpenSSH rule: when the first pass ended on the 2048 fallback answer, the size is the follow-up (2048,3072,4096) probe's
            # answer; if that very probe was refused / stalled / garbled, there is no size rather than the fallback's 2048.
            fconn = plan[0][0][1]
            for r in srv.records:
                if r.get('negotiated', (None,))[0] != alg or r['index'] != fconn:
                    continue
                is_follow = any((a, b, c) == (2048, 3072, 4096) for (a, b, c, _d) in r['gex_requests'])
                fk, fmsg = plan[0][1][0], plan[0][0][2]
                # the group never arrives: connection cut / garbled at the banner, KEXINIT or group message; or the group message mistyped
                broke = (fk in ('trunc_close', 'trunc_stall', 'reset', 'garbage') and fmsg <= 2) or (fk == 'type' and fmsg == 2)
                if banner == 'openssh' and is_follow and broke and entry is not None and entry['size'] is not None:
                    st.violation('gexfault:size-reported-although-follow-up-probe-failed', {'moduli': list(sub), 'plan': plan, 'alg': alg, 'reported': entry['size']})


# ---- histories: several group-exchange servers in ONE invocation; each is judged from its own log
HIST_SERVERS = [((1024, 4096), P.STRICT, 'both', 'other'), ((4096,), P.STRICT, 'both', 'other'), ((), P.STRICT, 'both', 'other'),
                ((2048,), P.OPENSSH, 'sha256', 'openssh'), ((3072, 4096), P.OPENSSH, 'both', 'openssh'), ((), P.STRICT, 'sha1', 'openssh')]


def _history_rating(o, fmt, alg, want, st, fam, detail):
    if fmt == 'json':
        e = next((x for x in o.get('kex', []) if x['algorithm'] == alg), None)
        notes = [] if e is None else [(lv, t) for lv in ('fail', 'warn', 'info') for t in e.get('notes', {}).get(lv, [])]
    else:
        e = next((a for a in report.TextReport(o).algs['kex'] if a['name'] == alg), None)
        notes = [] if e is None else e['notes']
    size_lv = sorted(set(lv for lv, t in notes if re.search(r'using small \d+-bit modulus|2048-bit modulus only provides', t)))
    want_lv = [rating(want)] if want is not None and rating(want) else []
    stale = [t for _lv, t in notes for m in [re.search(r'using small (\d+)-bit modulus', t)] if m and want is not None and int(m.group(1)) != want]
    if alg == SHA1 and want is None:
        return          # the database's own standing note about sha1 group exchange
    if size_lv != want_lv or stale:
        st.violation('%s:size-rating-depends-on-other-targets:%s' % (fam, fmt), dict(detail, alg=alg, size=want, size_note_levels=size_lv, expected=want_lv, notes=[list(n) for n in notes][:6]))


def work_history_crashed(chunk, st):
    """the first target's audit ends with an error the tool does not expect once its probes are done (its connection-rate check is
    rejected with 'no route to host'); the second target, audited by the same worker, is rated from its own measurements"""
    import errno
    for (i, j), fmt in chunk:
        first, second = make_server(*HIST_SERVERS[i]), make_server(*HIST_SERVERS[j])
        twin = make_server(*HIST_SERVERS[i])
        pre = len(H.audit(twin, opts=['-n', '--skip-rate-test']).world.conns)
        first.async_refuse = True
        first.conn_behaviour = lambda k, pre=pre: 'normal' if k < pre else errno.EHOSTUNREACH
        res, outs = H.audit_sequence([first, second], opts=['-n'] + (['-j'] if fmt == 'json' else []))
        root = ('history-crashed', i, j, fmt)
        st.execution(res.world, outcome=('history-crashed', fmt, res.status), root=root, nontrivial=root)
        d = {'first_target': list(map(str, HIST_SERVERS[i])), 'server': list(map(str, HIST_SERVERS[j]))}
        if outs is None or len(outs) != 2:
            st.violation('history-crashed:output-shape', dict(d, stdout=res.stdout[-200:]))
            continue
        sub, style, offer, banner = HIST_SERVERS[j]
        o = outs[1]
        for alg in OFFERS[offer]:
            want, _fb = expected_from_log(second, alg, banner)
            if fmt == 'json':
                got = next((x for x in o.get('kex', []) if x['algorithm'] == alg), {}).get('keysize') if isinstance(o, dict) else None
            else:
                e = next((a for a in report.TextReport(o).algs['kex'] if a['name'] == alg), None)
                got = e['size'] if e else None
            if got != want:
                st.violation('history-crashed:size-depends-on-other-targets:%s' % fmt, dict(d, alg=alg, reported=got, expected=want))
                continue
            _history_rating(o, fmt, alg, want, st, 'history-crashed', d)
    st.sample({'history_after_crashed_target': [list(map(str, HIST_SERVERS[chunk[0][0][0]])), list(map(str, HIST_SERVERS[chunk[0][0][1]]))]}, cap=6)


def work_history(chunk, st):
    for idxs, fmt in chunk:
        specs = [HIST_SERVERS[i] for i in idxs]
        servers = [make_server(*sp) for sp in specs]
        res, outs = H.audit_sequence(servers, opts=['-n', '--skip-rate-test'] + (['-j'] if fmt == 'json' else []))
        st.execution(res.world, outcome=('history', fmt, len(idxs)), root=('history', idxs, fmt), nontrivial=('history', idxs, fmt))
        if outs is None or len(outs) != len(idxs):
            st.violation('history:output-shape', {'servers': [list(map(str, sp)) for sp in specs], 'stdout': res.stdout[-200:]})
            continue
        for sp, srv, o in zip(specs, servers, outs):
            sub, style, offer, banner = sp
            for alg in OFFERS[offer]:
                want, _fb = expected_from_log(srv, alg, banner)
                if fmt == 'json':
                    got = next((x for x in o.get('kex', []) if x['algorithm'] == alg), {}).get('keysize')
                else:
                    e = next((a for a in report.TextReport(o).algs['kex'] if a['name'] == alg), None)
                    got = e['size'] if e else None
                if got != want:
                    st.violation('history:size-depends-on-other-targets:%s' % fmt, {'servers_in_run': [list(map(str, x)) for x in specs], 'server': list(map(str, sp)), 'alg': alg,
                                                                                   'reported': got, 'expected': want})
                    continue
                _history_rating(o, fmt, alg, want, st, 'history', {'servers_in_run': [list(map(str, x)) for x in specs], 'server': list(map(str, sp))})
    st.sample({'history_of_gex_servers': [list(map(str, HIST_SERVERS[i])) for i in chunk[0][0]]}, cap=14)


def run(tier, seed):
    t0 = time.time()
    sizes = QUICK_SIZES if tier == 'quick' else ALL_SIZES
    tasks = [(sub, style, offer, banner) for sub in subsets(sizes) for style in STYLES
             for offer in OFFERS for banner in BANNERS]
    tasks += [(sub, style, offer, banner) for sub in subsets([2048, 3072, 4096]) for style in STYLES for offer in OFFERS for banner in ODD_BANNERS]
    split = [(1024,), (2048,), (3072,), (4096,), (2048, 4096), (1536, 3072), (768, 1536), (512, 2048), (1024, 1536, 4096)]
    tasks += [(('split', a, b), style, 'both', banner) for a in split for b in split if a != b for style in STYLES for banner in BANNERS]
    mix = [(768, 1536), (1024, 4096), (4096,), (512, 2048)]
    tasks += [(('splitmix', a, b, sa, sb), sa, offer, banner) for a in mix for b in mix for sa in STYLES for sb in STYLES if sa != sb for offer in ('both', 'both-sha1-first') if offer in OFFERS for banner in BANNERS]
    # moduli whose size is not one of the customary ones, on both sides of every threshold of the statement (a server is free to hand out
    # any size; the lenient and round-up styles do so whatever range was requested)
    odd = [(n,) for n in (1023, 1025, 2040, 2047, 2049, 2056, 3064, 3071, 3073, 3080, 4095, 4097, 8191)] + [(2047, 4096), (2049, 3071), (3071, 3073), (2047, 2048, 2049)]
    tasks += [(sub, style, offer, banner) for sub in odd for style in STYLES for offer in OFFERS for banner in BANNERS]
    if tier == 'quick':
        # servers whose smallest (or only other) modulus lies above every range the probe sequence asks for
        tasks += [(sub, style, offer, banner) for sub in LARGE_SETS for style in STYLES
                  for offer in OFFERS for banner in BANNERS]
    st = par.pmap(work, tasks)
    par.pmap(work_faults, fault_tasks(tier), stats=st)
    n = len(HIST_SERVERS)
    hist = [(k, f) for k in itertools.permutations(range(n), 2) for f in ('text', 'json')]
    if tier != 'quick':
        hist += [(k, 'json') for k in itertools.permutations(range(n), 3)]
    par.pmap(work_history, hist, stats=st, chunk=3)
    deg = [(sub, style, banner, alg, k, p) for sub, style, banner in (((512, 2048), P.STRICT, 'other'), ((1024, 4096), P.STRICT, 'other'), ((512, 3072), P.OPENSSH, 'openssh'),
                                                                    ((2048,), P.OPENSSH, 'openssh'), ((1536, 4096), P.ROUNDUP, 'other'))
           for alg in (SHA256, SHA1) for k in range(0, 6) for p in (1, 5)]
    par.pmap(work_degenerate, deg, stats=st, chunk=2)
    par.pmap(work_history_crashed, [(k, f) for k in itertools.permutations(range(n), 2) for f in ('text', 'json')], stats=st, chunk=2)
    from props import delivery as _DL
    par.pmap(_DL.work, _DL.tasks(tier), extra=(('sizes',),), stats=st, chunk=12)
    vcases = []
    for sub, style, offer, banner in H.pick(tasks, seed, 16 if tier == 'quick' else 80):
        vcases.append({'label': 'gex %s %s %s %s' % (sub, style, offer, banner), 'opts': ['-n'] + (['-j'] if len(vcases) % 2 else []),
                       'make': (lambda sub=sub, style=style, offer=offer, banner=banner: make_server(sub, style, offer, banner))})
    for sub, style, banner, plan in H.pick(fault_tasks(tier), seed, 10 if tier == 'quick' else 50):
        vcases.append({'label': 'gexfault %s %s' % (sub, plan), 'opts': ['-n'], 'faults': {tuple(k): tuple(f) for k, f in plan},
                       'make': (lambda sub=sub, style=style, banner=banner: make_server(sub, style, 'both', banner))})
    validated = H.validate_traces(vcases, st)
    return evidence.finish(
        PID, tier, seed, st, t0,
        rule='every subset of %s (%d) x selection style {strict, round-up, OpenSSH with fallback, lenient} x offered {sha1, sha256, both} x banner '
             '{OpenSSH, other}, text and JSON; plus every message-level fault (close, stall, reset, garbage, wrong lengths/type, debug, duplicate, '
             'refuse, timeout) at every probe connection of three representative servers%s' % (
                 sizes, 2 ** len(sizes), ('; plus the size sets %s (moduli above every requested range)' % (LARGE_SETS,) if tier == 'quick' else '') +
                 '; plus servers handing the two algorithms different moduli (72 ordered pairs of size sets); plus 17 size sets next to every threshold (1023..8191, not multiples of 8 included) under all four styles'),
        assumptions=['expected size is read from the scripted server\'s own log of GEX requests and groups handed out',
                     'OpenSSH selection style modelled after dh.c choose_dh()'],
        exhaustive=True, traces_validated=validated, extra={'servers': len(tasks)})


def replay(path):
    v = json.load(open(path))
    d = v['detail']
    st = evidence.Stats()
    if 'plan' in d:
        print('fault case; re-run the check:', d)
        return 1
    work([(tuple(d['moduli']), d['style'], d['offer'], d['banner'])], st)
    for x in st.violations:
        print('replayed:', x['sig'], json.dumps(x['detail'])[:600])
    return 1 if st.violations else 0
