"""C02 - exit status reflects the worst finding; incomplete audits never look clean; policy status follows the verdict."""
import itertools
import json
import os
import time

from mc import evidence, explore, harness as H, par, peer, report
from props import faultspace as F

PID = 'C02'
CATS = ('kex', 'key', 'enc', 'mac')
CLASSES = ('fail', 'failwarn', 'warn', 'clean', 'unknown')
OPTSETS = []
for _b in ([], ['-b']):
    for _v in ([], ['-v']):
        for _l in ([], ['-l', 'info'], ['-l', 'warn'], ['-l', 'fail']):
            for _n in (['-n'], []):
                OPTSETS.append(_b + _v + _l + _n)
OPTSETS += [['-j'], ['-jj'], ['-j', '-l', 'warn'], ['-jj', '-v', '-b']]


def representatives():
    """One DB name per (category, severity class); probing-neutral names preferred."""
    db = H.master_db()
    avoid = ('diffie-hellman-group-exchange',)     # would need a GEX policy
    reps = {}
    for cat in CATS:
        reps[cat] = {}
        for name in db[cat]:
            if name.startswith(avoid) or name.endswith('-*') or name.startswith('kex-strict') or name.startswith('ext-info'):
                continue
            nf, nw, _ni = H.db_levels(cat, name)
            cls = 'failwarn' if nf and nw else 'fail' if nf else 'warn' if nw else 'clean'
            reps[cat].setdefault(cls, name)
        reps[cat]['unknown'] = 'frob-%s@example.org' % cat
    return reps


REPS = None


def reps():
    global REPS
    if REPS is None:
        REPS = representatives()
    return REPS


def lists_upto2():
    out = [()]
    out += [(c,) for c in CLASSES]
    out += list(itertools.product(CLASSES, repeat=2))
    return out


def fold(levels):
    return 3 if 'fail' in levels else 2 if 'warn' in levels else 0


def names_for(cat, classes):
    r = reps()[cat]
    return [r[c] for c in classes if c in r]


def make_server(sel):
    lists = {}
    for cat, classes in zip(CATS, sel):
        lists[cat] = names_for(cat, classes)
    key = lists['key']
    return peer.Server(kex=lists['kex'], key=key, enc=lists['enc'], mac=lists['mac'], banner=b'SSH-2.0-OpenSSH_9.6',
                       host_keys=peer.standard_host_keys(key, rsa_bits=3072))


def check_default(sel, st):
    srv = make_server(sel)
    res = H.audit(srv, opts=['-n', '--skip-rate-test'])
    rep = report.TextReport(res.stdout)
    lv = rep.levels()
    exp = fold(lv)
    st.execution(res.world, outcome=(res.status, exp), root=('sev', sel), nontrivial=('sev', sel), detail='light')
    if res.status != exp:
        st.violation('status-%s-but-report-folds-to-%s' % (res.status, exp),
                     {'sel': [list(x) for x in sel], 'status': res.status, 'levels': sorted(lv), 'stdout_tail': res.stdout[-300:]})
    return res.status


def check_client(sel, st):
    lists = {cat: names_for(cat, classes) for cat, classes in zip(CATS, sel)}
    cli = peer.Client(kex=lists['kex'], key=lists['key'], enc=lists['enc'], mac=lists['mac'], banner=b'SSH-2.0-OpenSSH_9.6')
    for opts in (['-n'], ['-n', '-j'], ['-n', '-l', 'fail', '-b']):
        res = H.client_audit(cli, opts=opts)
        if opts == ['-n']:
            exp = fold(report.TextReport(res.stdout).levels())
        st.execution(res.world, outcome=('client', res.status, exp), root=('client-sev', sel, tuple(opts)), nontrivial=('client-sev', sel, tuple(opts)), detail='light')
        if res.status != exp:
            st.violation('client-audit:status-%s-but-report-folds-to-%s' % (res.status, exp), {'sel': [list(x) for x in sel], 'opts': opts, 'status': res.status})


# the two directions of a KEXINIT may differ: whatever the report then shows, the status is the fold of what it shows
def asym_tasks():
    l1 = [()] + [(c,) for c in CLASSES]
    out = []
    for cat in ('enc', 'mac'):
        for s2c in l1:
            for c2s in l1 + [('fail', 'warn'), ('clean', 'fail')]:
                if s2c != c2s:
                    for role in ('server', 'client'):
                        out.append((cat, s2c, c2s, role))
    return out


def work_asym(chunk, st):
    for cat, s2c, c2s, role in chunk:
        lists = {c: names_for(c, ('clean',)) for c in CATS}
        lists[cat] = names_for(cat, s2c)
        kw = {('%s_c2s' % cat): names_for(cat, c2s)}
        ref = None
        for opts in (['-n'], ['-n', '-j'], ['-n', '-b'], ['-n', '-v', '-l', 'warn']):
            if role == 'server':
                res = H.audit(peer.Server(kex=lists['kex'], key=lists['key'], enc=lists['enc'], mac=lists['mac'], banner=b'SSH-2.0-OpenSSH_9.6',
                                          host_keys=peer.standard_host_keys(lists['key'], rsa_bits=3072), **kw), opts=opts + ['--skip-rate-test'])
            else:
                ckw = dict(lists)
                ckw['%s_s2c' % cat] = lists[cat]
                ckw[cat] = names_for(cat, c2s)
                res = H.client_audit(peer.Client(banner=b'SSH-2.0-OpenSSH_9.6', **ckw), opts=opts)
            if ref is None:
                ref = fold(report.TextReport(res.stdout).levels())
            st.execution(res.world, outcome=('asym', res.status, ref), root=('asym', cat, s2c, c2s, role, tuple(opts)), nontrivial=('asym', cat, s2c, c2s, role, tuple(opts)), detail='light')
            if res.status != ref:
                st.violation('asymmetric-lists:status-%s-but-report-folds-to-%s' % (res.status, ref),
                             {'cat': cat, 's2c': list(s2c), 'c2s': list(c2s), 'role': role, 'opts': opts, 'status': res.status, 'stdout_tail': res.stdout[-300:]})


def work_zoo(chunk, st):
    from props import zoo
    for e in map(zoo.get, chunk):
        ref = None
        for opts in (['-n'], ['-n', '-j'], ['-n', '-b', '-l', 'warn'], ['-n', '-v']):
            res = zoo.audit(e, opts + (['-1'] if e['ssh1'] and not e['versions_differ'] else []))
            if ref is None:
                ref = fold(report.TextReport(res.stdout).levels()) if res.status in (0, 2, 3) else res.status
            st.execution(res.world, outcome=('zoo', res.status, ref), root=('zoo', e['name'], tuple(opts)), nontrivial=('zoo', e['name'], tuple(opts)), detail='light')
            if res.status != ref:
                st.violation('zoo:status-%s-but-report-folds-to-%s' % (res.status, ref), {'peer': e['name'], 'opts': opts, 'status': res.status, 'stdout_tail': res.stdout[-300:]})
    st.sample({'zoo_peers': list(chunk[:3])}, cap=3)


def work_client(chunk, st):
    for sel in chunk:
        check_client(sel, st)


def work_ssh1(chunk, st):
    for cm, am in chunk:
        for opts in (['-n', '-1'], ['-n', '-1', '-j'], ['-n', '-1', '-l', 'warn']):
            srv = peer.Server(banner=b'SSH-1.5-OpenSSH_3.4', ssh1={'cmask': cm, 'amask': am})
            res = H.audit(srv, opts=opts + ['--skip-rate-test'])
            if opts == ['-n', '-1']:
                exp = fold(report.TextReport(res.stdout).levels())
            st.execution(res.world, outcome=('ssh1', res.status, exp), root=('ssh1-sev', cm, am, tuple(opts)), nontrivial=('ssh1-sev', cm, am, tuple(opts)), detail='light')
            if res.status != exp:
                st.violation('ssh1:status-%s-but-report-folds-to-%s' % (res.status, exp), {'cmask': cm, 'amask': am, 'opts': opts, 'status': res.status})


def work_sev(chunk, st):
    for sel in chunk:
        check_default(sel, st)
        if st.evaluations % 5000 == 7:
            st.sample({'lists': {c: names_for(c, s) for c, s in zip(CATS, sel)}})


def work_opts(chunk, st):
    for sel in chunk:
        ref = check_default(sel, st)
        for opts in OPTSETS:
            srv = make_server(sel)
            res = H.audit(srv, opts=list(opts) + ['--skip-rate-test'])
            st.execution(res.world, outcome=('opt', res.status, tuple(opts)), root=('opt', sel, tuple(opts)), nontrivial=('opt', sel, tuple(opts)))
            if res.status != ref:
                st.violation('status-changes-with-options:%s' % ' '.join(o for o in opts if o != '-n'),
                             {'sel': [list(x) for x in sel], 'opts': opts, 'status': res.status, 'reference_status': ref})


# ---- broken handshakes on the first connection
def broken_tasks(tier):
    out = []
    step = 8 if tier == 'quick' else 1
    for arch in ('A', 'E', 'E1', 'F', 'G'):
        sc = F.scenario(arch, True)
        base, plans = explore.first_level_tasks(sc, level='full', trunc_step=step,
                                                site_filter=lambda s, a=arch: s['key'][1] < F.initial_conns(a))
        for p in plans:
            for fmt in ('text', 'json'):
                out.append((arch, p, fmt))
            if arch != 'G':
                out.append((arch, p, 'text-T'))      # the same target as the only line of a -T file
            if arch == 'A':
                out.append((arch, p, 'policy-text'))  # the same broken handshakes under -P: a verdict is shown exactly with status 0 / 3
                out.append((arch, p, 'policy-json'))
    return out


def _policy_file():
    path = H.tmp_path('c02-broken-policy-%d.txt' % os.getpid())
    if not os.path.exists(path):
        with open(path, 'w') as f:
            f.write('name = "p"\nversion = 1\nciphers = aes256-ctr\n')
    return path


def work_broken_policy(arch, plan, fmt, st):
    sc = F.scenario(arch, True, extra_opts=['-P', _policy_file()] + (['-j'] if fmt == 'policy-json' else []))
    res = explore.run_plan(sc, plan)
    st.execution(res.world, outcome=('broken-policy', res.status, plan[0][1][0]), root=('broken', arch, plan, fmt), nontrivial=('broken', arch, plan, fmt))
    d = {'arch': arch, 'plan': plan, 'fmt': fmt, 'status': res.status, 'stdout_tail': res.stdout[-300:]}
    if res.hang or res.exc:
        st.violation('broken:policy:hang-or-exception', dict(d, hang=res.hang, exc=res.exc))
        return
    verdict = None
    if fmt == 'policy-json':
        try:
            doc = json.JSONDecoder().raw_decode(res.stdout.lstrip())[0]
            if isinstance(doc, dict) and 'passed' in doc:
                verdict = bool(doc['passed'])
        except ValueError:
            pass
    else:
        pt = report.PolicyText(res.stdout)
        verdict = {'passed': True, 'failed': False}.get(pt.result)
    if verdict is True and res.status != 0:
        st.violation('broken:policy:verdict-passed-but-status-%s' % res.status, d)
    elif verdict is False and res.status != 3:
        st.violation('broken:policy:verdict-failed-but-status-%s' % res.status, d)
    elif verdict is None and res.status in (0, 3):
        st.violation('broken:policy:status-%s-without-verdict' % res.status, d)


def work_broken(chunk, st):
    for arch, plan, fmt in chunk:
        if fmt.startswith('policy-'):
            work_broken_policy(arch, plan, fmt, st)
            continue
        via_T = fmt == 'text-T'
        sc = F.scenario(arch, True, extra_opts=(['-j'] if fmt == 'json' else []), via_targets_file=via_T)
        res = explore.run_plan(sc, plan)
        fk = plan[0][1][0]
        st.execution(res.world, outcome=('broken', arch, res.status, fk), root=('broken', arch, plan, fmt), nontrivial=('broken', arch, plan, fmt))
        if via_T:
            fmt = 'text'
        if fmt == 'text' and not (res.hang or res.exc):
            # a complete-looking report after a handshake whose bytes were not a well-formed handshake is not an obtained-and-parsed list
            for sig, what in F.judge_c09(res, arch, plan):
                if sig.startswith(('report-after-malformed-handshake', 'fooled')):
                    st.violation('broken:%s:%s' % ('multi-target-path' if via_T else 'text', sig.split(':')[0]), {'arch': arch, 'plan': plan, 'status': res.status, 'what': what})
        if res.hang or res.exc:
            st.violation('broken:%s:hang-or-exception' % arch, {'arch': arch, 'plan': plan, 'fmt': fmt, 'hang': res.hang, 'exc': res.exc})
            continue
        adv = F.advertised(res, arch)
        if fmt == 'text':
            rep = report.TextReport(res.stdout)
            has = rep.has_alg_report()
            complete = all(rep.names(c) == [n for n in adv[c]] for c in adv)
        else:
            has, complete = _json_has_report(res.stdout, adv)
        if has:
            # a report is only legitimate if it is the complete one and the status says so
            if not complete or res.status not in (0, 2, 3):
                st.violation('broken:%s:partial-or-bogus-report:%s' % (fmt, _bogus_kind(res.stdout, fmt)),
                             {'arch': arch, 'plan': plan, 'fmt': fmt, 'status': res.status, 'stdout_head': res.stdout[:400]})
        elif res.status in (0, 2, 3):
            st.violation('broken:%s:no-report-but-status-%s' % (fmt, res.status), {'arch': arch, 'plan': plan, 'fmt': fmt, 'stdout_tail': res.stdout[-300:]})


# ---- the same target listed more than once in one -T run, its scans ending differently (the peer breaks one of its handshakes):
# a broken scan is a broken scan wherever it stands in the list - the run does not exit 0, 2 or 3
# ---- long lists: the one name that earns a failure / a warning stands behind N other (clean, repeated) names, N around 64, 128, 256 and
# beyond: the status is the one the same name earns at the head of a short list
LONG_BASE = {'kex': 'sntrup761x25519-sha512@openssh.com', 'key': 'ssh-ed25519', 'enc': 'aes256-gcm@openssh.com', 'mac': 'hmac-sha2-256-etm@openssh.com'}
LONG_WEAK = [('enc', '3des-cbc'), ('mac', 'hmac-md5'), ('kex', 'diffie-hellman-group1-sha1'), ('key', 'ssh-dss'), ('mac', 'hmac-sha2-256'), ('kex', 'curve25519-sha256'),
             ('enc', 'frob-cipher@example.org')]


def long_tasks():
    return [(cat, weak, pos, role) for cat, weak in LONG_WEAK for pos in (1, 2, 64, 127, 128, 129, 130, 200, 256, 257, 300, 1000) for role in ('server', 'client')]


def _long_run(cat, weak, pos, role):
    lists = {c: [n] for c, n in LONG_BASE.items()}
    lists[cat] = [LONG_BASE[cat]] * (pos - 1) + [weak]
    if role == 'server':
        srv = peer.Server(kex=lists['kex'], key=lists['key'], enc=lists['enc'], mac=lists['mac'], banner=b'SSH-2.0-OpenSSH_9.6',
                          host_keys=peer.standard_host_keys(['ssh-ed25519']))
        return H.audit(srv, opts=['-n', '--skip-rate-test', '-j'])
    cli = peer.Client(kex=lists['kex'], key=lists['key'], enc=lists['enc'], mac=lists['mac'], banner=b'SSH-2.0-OpenSSH_9.6')
    return H.client_audit(cli, opts=['-n', '-j'])


def work_long(chunk, st):
    for cat, weak, pos, role in chunk:
        ref = _long_run(cat, weak, 1, role)
        res = _long_run(cat, weak, pos, role)
        root = ('long-list', cat, weak, pos, role)
        st.execution(res.world, outcome=('long-list', res.status), root=root, nontrivial=root, detail='light')
        if ref.status not in (2, 3):
            st.violation('long-list:reference-run-shows-no-finding', {'category': cat, 'name': weak, 'status': ref.status})
        if res.status != ref.status:
            st.violation('long-list:status-%s-but-the-name-earns-%s:%s' % (res.status, ref.status, 'beyond-128' if pos > 128 else 'within-128'),
                         {'category': cat, 'name': weak, 'position': pos, 'role': role, 'status': res.status, 'status_at_the_head_of_a_short_list': ref.status})
    st.sample({'long_lists': [list(x) for x in chunk[:2]]}, cap=4)


# ---- peers whose ONLY finding is a measured size: an otherwise flawless configuration with one key, CA key or modulus below a documented
# threshold (below 2048 bits a failure, below 3072 a warning; a NIST-curve CA a failure).  The status is stated from the sizes the peer
# really has - not from what the report shows
def sized_tasks():
    out = []
    for what, bits, want in (('rsa-key', 1024, 3), ('rsa-key', 2047, 3), ('rsa-key', 2048, 2), ('rsa-key', 3071, 2), ('rsa-key', 3072, 0), ('rsa-key', 4096, 0),
                             ('rsa-ca', 1024, 3), ('rsa-ca', 2048, 2), ('rsa-ca', 3072, 0), ('ecdsa-ca', 256, 3), ('ed25519-ca', 256, 0),
                             ('rsa-ca-of-rsa-cert', 1024, 3), ('rsa-ca-of-rsa-cert', 2048, 2), ('ed25519-ca-of-rsa-cert', 256, 0),
                             ('gex', 1024, 3), ('gex', 2048, 2), ('gex', 3072, 2), ('gex', 4096, 2)):
        for opts in ((), ('-j',), ('-b', '-l', 'fail')):
            out.append((what, bits, want, opts))
    return out


def work_sized(chunk, st):
    for what, bits, want, opts in chunk:
        kex, keys, hk, gex = ['sntrup761x25519-sha512@openssh.com', 'curve25519-sha256'], ['ssh-ed25519'], {}, None
        if what == 'rsa-key':
            keys, hk = ['rsa-sha2-512', 'ssh-ed25519'], {'rsa_bits': bits}
        elif what in ('rsa-ca', 'ecdsa-ca', 'ed25519-ca'):
            keys, hk = ['ssh-ed25519-cert-v01@openssh.com', 'ssh-ed25519'], {'ca': {'rsa-ca': 'rsa', 'ecdsa-ca': bits, 'ed25519-ca': 'ed25519'}[what], 'ca_bits': bits}
        elif what.endswith('-of-rsa-cert'):
            keys, hk = ['rsa-sha2-512-cert-v01@openssh.com', 'ssh-ed25519'], {'rsa_bits': 4096, 'ca': 'rsa' if what.startswith('rsa') else 'ed25519', 'ca_bits': bits}
        elif what == 'gex':
            kex, gex = ['sntrup761x25519-sha512@openssh.com', 'diffie-hellman-group-exchange-sha256', 'curve25519-sha256'], peer.GexPolicy([bits], peer.STRICT)
        srv = peer.Server(kex=kex, key=keys, enc=['aes256-gcm@openssh.com'], mac=['hmac-sha2-256-etm@openssh.com'], banner=b'SSH-2.0-dropbear_2022.83',
                          host_keys=peer.standard_host_keys(keys, **hk), gex=gex)
        res = H.audit(srv, opts=['-n', '--skip-rate-test'] + list(opts))
        base = peer.Server(kex=kex[:1] + kex[-1:], key=['ssh-ed25519'], enc=['aes256-gcm@openssh.com'], mac=['hmac-sha2-256-etm@openssh.com'], banner=b'SSH-2.0-dropbear_2022.83',
                           host_keys=peer.standard_host_keys(['ssh-ed25519']))
        floor = H.audit(base, opts=['-n', '--skip-rate-test']).status      # what the configuration earns without the sized attribute (curve25519: a warning)
        root = ('sized', what, bits, opts)
        st.execution(res.world, outcome=('sized', res.status), root=root, nontrivial=root, detail='light')
        exp = max(want, floor, key=lambda x: {0: 0, 2: 1, 3: 2}.get(x, 3))
        if res.status != exp:
            st.violation('sized-peer:status-%s-but-its-%s-earns-%s' % (res.status, what, exp), {'what': what, 'bits': bits, 'options': list(opts), 'status': res.status,
                                                                                          'status_without_the_sized_attribute': floor, 'tail': res.stdout[-300:]})
    st.sample({'sized_peers': [list(map(str, x)) for x in chunk[:2]]}, cap=4)


def repeat_tasks():
    out = []
    faults = [(0, ('reset',)), (1, ('trunc_close', 9)), (1, ('garbage', 40, 3)), (0, ('trunc_stall', 4)), (1, ('len', 0, 'plus1'))]
    for shape in (('X', 'X'), ('X', 'X', 'X'), ('X', 'Y', 'X'), ('Y', 'X', 'X')):
        nx = shape.count('X')
        for broken in range(nx):
            for msg, fault in faults:
                for fmt in ('text', 'json'):
                    out.append((shape, broken, msg, fault, fmt))
    return out


def work_repeats(chunk, st):
    import socket as _socket
    from mc import runner, sched as _sched, vnet
    from props import multitarget as MT
    for shape, broken, msg, fault, fmt in chunk:
        def mkx():
            return peer.Server(label='X', kex=['curve25519-sha256'], key=['ssh-ed25519'], enc=['aes256-ctr'], mac=['hmac-sha2-256'], host_keys=peer.standard_host_keys(['ssh-ed25519']))
        # connections one scan of X takes when nothing goes wrong (its broken scan takes exactly one)
        per_scan = len(H.audit(mkx(), opts=['-n', '--skip-rate-test']).world.conns)
        x = mkx()
        y = peer.Server(label='Y', kex=['curve25519-sha256'], key=['ssh-ed25519'], enc=['aes256-gcm@openssh.com'], mac=['hmac-sha2-256-etm@openssh.com'], host_keys=peer.standard_host_keys(['ssh-ed25519']))
        w = vnet.World(servers={('10.7.0.1', 22): x, ('10.7.0.2', 22): y}, resolver={'x.example': [(int(_socket.AF_INET), '10.7.0.1')], 'y.example': [(int(_socket.AF_INET), '10.7.0.2')]})
        w.faults = {('X', per_scan * broken, msg): fault}
        lines = ['x.example' if t == 'X' else 'y.example' for t in shape]
        res, _s = _sched.run_scheduled(runner.run_cli, ['-n', '--skip-rate-test'] + (['-j'] if fmt == 'json' else []) + ['-T', MT.targets_file(lines), '--threads', '1'], w, (), ('connect',))
        root = ('repeat', shape, broken, msg, fault, fmt)
        st.execution(res.world, outcome=('repeat', res.status, fmt), root=root, nontrivial=root)
        hit = any(ev[0] == 'fault' for r in x.records for ev in r.get('events', []) if isinstance(ev, tuple))
        d = {'targets': lines, 'broken_scan_of_x': broken, 'fault': [msg] + list(fault), 'fmt': fmt, 'status': res.status, 'fault_applied': hit}
        if res.hang or res.exc:
            st.violation('repeated-target:hang-or-exception', dict(d, hang=res.hang, exc=res.exc))
            continue
        if hit and res.status in (0, 2, 3):
            st.violation('repeated-target:broken-scan-but-status-%s' % res.status, dict(d, stdout_tail=res.stdout[-200:]))
    st.sample({'repeated_target': [list(chunk[0][0]), chunk[0][1]]}, cap=4)


def _json_has_report(stdout, adv):
    dec = json.JSONDecoder()
    s = stdout.lstrip()
    try:
        doc, _end = dec.raw_decode(s)
    except ValueError:
        return False, False
    if not isinstance(doc, dict):
        return False, False
    has = any(doc.get(c) for c in ('kex', 'key', 'enc', 'mac', 'aut'))
    complete = True
    for c in adv:
        got = report.json_names(doc, c)
        if got is None or [g for g in got if g.strip()] != list(adv[c]):
            complete = False
    return has, complete


def _bogus_kind(stdout, fmt):
    if fmt == 'json':
        try:
            doc, _ = json.JSONDecoder().raw_decode(stdout.lstrip())
            return 'json-fields:' + '+'.join(c for c in ('kex', 'key', 'enc', 'mac', 'aut') if doc.get(c))
        except ValueError:
            return 'json'
    return 'text'


# ---- policy audits
POLICY_TMPL = '''name = "C02 policy"
version = 1
%s
host keys = %s
key exchanges = %s
ciphers = %s
macs = %s
'''


def policy_cases():
    out = []
    peer_lists = {'kex': ['curve25519-sha256', 'sntrup761x25519-sha512@openssh.com'], 'key': ['ssh-ed25519'],
                  'enc': ['aes256-ctr', 'aes128-ctr'], 'mac': ['hmac-sha2-256']}
    for subset in (False, True):
        for variant in ('same', 'kex-reordered', 'enc-extra', 'mac-different', 'key-missing', 'policy-superset'):
            for fmt in ('text', 'json'):
                out.append((subset, variant, fmt, peer_lists))
    return out


def work_policy(chunk, st):
    import copy
    for subset, variant, fmt, pl in chunk:
        pol = copy.deepcopy(pl)
        if variant == 'kex-reordered':
            pol['kex'] = list(reversed(pol['kex']))
        elif variant == 'enc-extra':
            pol['enc'] = pol['enc'][:1]
        elif variant == 'mac-different':
            pol['mac'] = ['hmac-sha2-512']
        elif variant == 'key-missing':
            pol['key'] = ['ssh-ed25519', 'rsa-sha2-512']
        elif variant == 'policy-superset':
            pol['enc'] = pol['enc'] + ['aes192-ctr']
        text = POLICY_TMPL % ('allow_algorithm_subset_and_reordering = true' if subset else '', ', '.join(pol['key']),
                              ', '.join(pol['kex']), ', '.join(pol['enc']), ', '.join(pol['mac']))
        path = H.tmp_path('c02-policy.txt')
        with open(path, 'w') as f:
            f.write(text)
        srv = peer.Server(kex=pl['kex'], key=pl['key'], enc=pl['enc'], mac=pl['mac'], host_keys=peer.standard_host_keys(pl['key']))
        res = H.audit(srv, opts=['-n', '--skip-rate-test', '-P', path] + (['-j'] if fmt == 'json' else []))
        verdict = None
        if fmt == 'json':
            try:
                verdict = json.loads(res.stdout).get('passed')
            except ValueError:
                verdict = None
        else:
            r = report.PolicyText(res.stdout).result
            verdict = True if r == 'passed' else False if r == 'failed' else None
        st.execution(res.world, outcome=('policy', res.status, verdict), root=('policy', subset, variant, fmt), nontrivial=('policy', subset, variant, fmt))
        if verdict is None or (verdict is True) != (res.status == 0) or (verdict is False) != (res.status == 3):
            st.violation('policy:status-%s-verdict-%s' % (res.status, verdict), {'subset': subset, 'variant': variant, 'fmt': fmt, 'stdout': res.stdout[:400]})
        # the same audit with presentation options, alone and as the only line of a -T file: the status is that of the verdict
        for extra in ([], ['-l', 'warn'], ['-l', 'fail'], ['-b'], ['-v']):
            for via_T in (False, True):
                if not extra and not via_T:
                    continue
                srv2 = peer.Server(kex=pl['kex'], key=pl['key'], enc=pl['enc'], mac=pl['mac'], host_keys=peer.standard_host_keys(pl['key']))
                r2 = H.audit(srv2, opts=['-n', '--skip-rate-test', '-P', path] + (['-j'] if fmt == 'json' else []) + extra, via_targets_file=via_T)
                st.execution(r2.world, outcome=('policy-opts', r2.status, verdict), root=('policy', subset, variant, fmt, tuple(extra), via_T), nontrivial=('policy', subset, variant, fmt, tuple(extra), via_T))
                if r2.status != res.status:
                    st.violation('policy:status-changes-with-options:%s%s' % (' '.join(extra) or '(none)', ':-T' if via_T else ''),
                                 {'subset': subset, 'variant': variant, 'fmt': fmt, 'status': r2.status, 'reference_status': res.status, 'verdict': verdict, 'stdout': r2.stdout[:300]})
        st.sample({'policy_case': [subset, variant, fmt], 'status': res.status, 'verdict': verdict}, cap=14)


# ---- every built-in policy (every version, server and client), audited against a peer configured exactly as it lists (the verdict
# is "passed") and against the same peer with one cipher taken away / the lists of another policy (the verdict is "failed"), in text
# and JSON: the status is 0 exactly with a passed verdict and 3 exactly with a failed one, whichever policy was selected
def builtin_policy_tasks():
    from props import c05
    return [(name, fmt) for name in c05.builtin_tasks() for fmt in ('text', 'json')]


def work_builtin_policy(chunk, st):
    from props import c05
    for name, fmt in chunk:
        p, gex, variants = c05.builtin_variants(name)
        vname, kw, hk = variants[0]
        for drift in ('conforming', 'one-cipher-removed', 'extra-mac'):
            kw2 = dict(kw)
            if drift == 'one-cipher-removed':
                if len(kw['enc']) < 2:
                    continue
                kw2['enc'] = list(kw['enc'])[1:]
            elif drift == 'extra-mac':
                kw2['mac'] = list(kw['mac']) + ['hmac-frob@example.org']
            opts = ['-n', '-P', name] + (['-j'] if fmt == 'json' else [])
            if p['server_policy']:
                res = H.audit(peer.Server(host_keys=hk, gex=gex, **kw2), opts=opts + ['--skip-rate-test'])
            else:
                res = H.client_audit(peer.Client(**kw2), opts=opts)
            verdict = None
            if fmt == 'json':
                try:
                    verdict = json.loads(res.stdout).get('passed')
                except ValueError:
                    verdict = None
            else:
                r = report.PolicyText(res.stdout).result
                verdict = True if r == 'passed' else False if r == 'failed' else None
            root = ('builtin-policy', name, fmt, drift)
            st.execution(res.world, outcome=('builtin-policy', res.status, verdict, drift), root=root, nontrivial=root)
            d = {'policy': name, 'fmt': fmt, 'peer': drift, 'status': res.status, 'verdict': verdict, 'stdout': res.stdout[:300]}
            if res.hang or res.exc or verdict is None:
                st.violation('builtin-policy:no-verdict', dict(d, hang=res.hang, exc=res.exc))
            elif (verdict is True) != (res.status == 0) or (verdict is False) != (res.status == 3):
                st.violation('builtin-policy:status-%s-verdict-%s' % (res.status, 'passed' if verdict else 'failed'), d)
            elif verdict != (drift == 'conforming'):
                st.violation('builtin-policy:verdict-%s-on-%s-peer' % ('passed' if verdict else 'failed', drift), d)
    st.sample({'builtin_policy_case': list(chunk[0])}, cap=4)


def run(tier, seed):
    t0 = time.time()
    st = evidence.Stats()
    l2 = lists_upto2()
    l1 = [()] + [(c,) for c in CLASSES]
    sev = set()
    for sel in itertools.product(l1, repeat=4):
        sev.add(sel)
    clean = ('clean',)
    if tier == 'quick':
        for i, j in itertools.combinations(range(4), 2):
            for a in l2:
                for b in l2:
                    sel = [clean] * 4
                    sel[i], sel[j] = a, b
                    sev.add(tuple(sel))
    else:
        for sel in itertools.product(l2, repeat=4):
            sev.add(sel)
    par.pmap(work_sev, sorted(sev), stats=st)
    # option sets: all selections of total length <= 3
    optsel = [s for s in itertools.product(l2, repeat=4) if sum(len(x) for x in s) <= (2 if tier == 'quick' else 3)]
    par.pmap(work_opts, optsel, stats=st)
    par.pmap(work_client, [s for s in itertools.product(l1, repeat=4)] + ([s for s in sev if sum(len(x) for x in s) <= 4][::7] if tier != 'quick' else []), stats=st)
    par.pmap(work_ssh1, [(c, a) for c in range(0, 128, 1 if tier != 'quick' else 3) for a in (0, 0x0c, 0x2c, 0x7e)], stats=st)
    par.pmap(work_asym, asym_tasks(), stats=st)
    from props import zoo
    par.pmap(work_zoo, zoo.names(tier), stats=st, chunk=6)
    par.pmap(work_broken, broken_tasks(tier), stats=st)
    from props import faultinv as _FI
    par.pmap(_FI.work, _FI.tasks(), extra=(('status',),), stats=st, chunk=6)
    par.pmap(work_repeats, repeat_tasks(), stats=st, chunk=4)
    par.pmap(work_long, long_tasks(), stats=st, chunk=4)
    par.pmap(work_sized, sized_tasks(), stats=st, chunk=4)
    par.pmap(work_policy, policy_cases(), stats=st, procs=1)
    par.pmap(work_builtin_policy, builtin_policy_tasks(), stats=st, chunk=4)
    from props import delivery as _DL
    par.pmap(_DL.work, _DL.tasks(tier), extra=(('status',),), stats=st, chunk=12)
    from props import decor as _DC
    par.pmap(_DC.work, _DC.tasks(tier), extra=(('status',),), stats=st, chunk=8)
    vcases = []
    for sel in H.pick(sorted(sev), seed, 12 if tier == 'quick' else 60):
        for opts in H.pick(OPTSETS, seed + len(vcases), 2):
            vcases.append({'label': 'sev %s %s' % (sel, opts), 'opts': list(opts), 'make': (lambda sel=sel: make_server(sel))})
    for arch, plan, fmt in H.pick([t for t in broken_tasks(tier) if t[0] != 'G'], seed, 16 if tier == 'quick' else 80):
        a = F.ARCHETYPES[arch]
        vcases.append({'label': 'broken %s %s %s' % (arch, plan, fmt), 'opts': ['-n'] + a['opts'] + (['-j'] if fmt == 'json' else []),
                       'make': (lambda a=a: a['make'](True)), 'faults': {tuple(k): tuple(f) for k, f in plan}})
    validated = H.validate_traces(vcases, st)
    return evidence.finish(
        PID, tier, seed, st, t0,
        rule='severity classes {fail, fail+warn, warn, clean, unknown} per category (representatives from the DB: %s); %s; '
             'all selections of total length <=%d x %d option sets; every fault of the menu on the initial connection(s) of archetypes A,E,E1,F,G '
             '(truncation every %s byte) x {text,json}; policy verdict cases x {text,json}; every built-in policy x {conforming peer, one cipher removed, one MAC added} x {text,json}: status 0 iff passed, 3 iff failed; direction-asymmetric cipher/MAC lists (every class pair, both roles, 4 option sets); the fold oracle over every peer of props/zoo.py x 4 option sets' % (
                 json.dumps(reps()), 'all four categories crossed at length <=1 plus all pairs of categories with lists of length 0..2'
                 if tier == 'quick' else 'all lists of length 0..2 in all four categories crossed', 2 if tier == 'quick' else 3,
                 len(OPTSETS), '8th' if tier == 'quick' else '1st'),
        assumptions=['"finding" = a [fail]/[warn]-tagged note of the text report', 'representatives stand for their severity class'],
        exhaustive=True, traces_validated=validated)


def replay(path):
    v = json.load(open(path))
    d = v['detail']
    st = evidence.Stats()
    if 'sel' in d and 'opts' not in d:
        check_default(tuple(tuple(x) for x in d['sel']), st)
    elif 'opts' in d:
        work_opts([tuple(tuple(x) for x in d['sel'])], st)
    elif 'plan' in d:
        work_broken([(d['arch'], d['plan'], d['fmt'])], st)
    else:
        print('policy case; re-run the check')
        return 1
    for x in st.violations:
        print('replayed:', x['sig'], json.dumps(x['detail'])[:600])
    return 1 if st.violations else 0
