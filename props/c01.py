"""C01 - the report lists exactly the algorithms the peer advertised (text and JSON, server and client role, SSH-1 masks)."""
import itertools
import json
import time

from mc import evidence, harness as H, par, peer, report, wire

PID = 'C01'

LONG = 'x' * 290 + '@long.example'
NONUTF8 = b'\xff\xfeweird\x80@example.org'
SPECIAL = 'a+b/c=d@e.f_g-h'
# well-formed multi-byte UTF-8 (2-, 3- and 4-byte sequences; a Cyrillic look-alike of a database name): shown as sent, not byte by byte
UTF8 = 'frob-\u03b1\u00e9-\u20ac-\U0001f600@\u00f6penssh.com'
LOOKALIKE = '\u0430es256-ctr'

ALPHA = {
    'kex': ['curve25519-sha256', 'diffie-hellman-group14-sha256', 'frob-kex@example.org', LONG, NONUTF8, SPECIAL, UTF8, 'hmac-sha2-256',      # (a name the database files under another category: listed where it was sent)
            'gss-gex-sha1-dZuIebMjgUqaxvbF7hDbAw==', 'gss-group14-sha256-a+b/c0==', 'gss-', ''],
    'key': ['ssh-ed25519', 'rsa-sha2-512', 'frob-key@example.org', LONG, NONUTF8, SPECIAL, UTF8, 'aes128-ctr', ''],
    'enc': ['aes256-ctr', 'chacha20-poly1305@openssh.com', 'frob-enc@example.org', LONG, NONUTF8, SPECIAL, LOOKALIKE, 'ssh-rsa', ''],
    'mac': ['hmac-sha2-256', 'hmac-sha1-etm@openssh.com', 'frob-mac@example.org', LONG, NONUTF8, SPECIAL, UTF8, 'curve25519-sha256', ''],
}
BASE = {'kex': ['sntrup761x25519-sha512@openssh.com', 'ext-info-s'], 'key': ['ssh-ed25519', 'ssh-frob@example.org'],
        'enc': ['aes128-ctr', 'aes128-gcm@openssh.com'], 'mac': ['hmac-sha2-512', 'umac-128-etm@openssh.com']}
COMPS = [['none'], ['none', 'zlib@openssh.com'], ['zlib', 'zlib@openssh.com', 'none'], ['frobz@example.org'], [], ['none', 'none'],
         # "as sent": in the peer's order (not the alphabet's), each method as often as it was listed
         ['zlib@openssh.com', 'zlib', 'none'], ['zstd@example.org', 'zlib'], ['zlib', 'zlib'], ['zlib@openssh.com', 'none', 'zlib@openssh.com']]
RENDER = {'plain': ['-n'], 'batch': ['-n', '-b'], 'verbose': ['-n', '-v'], 'json': ['-n', '-j'], 'color': []}
BANNERS = [b'SSH-2.0-OpenSSH_9.6', b'SSH-2.0-dropbear_2022.83', b'SSH-2.0-FrobSSH_1.0 some comment', b'SSH-1.99-OpenSSH_4.3']


def b(x):
    return x if isinstance(x, bytes) else x.encode()


def lists_upto(alpha, n):
    out = [()]
    for k in range(1, n + 1):
        out += list(itertools.product(range(len(alpha)), repeat=k))
    return out


def cases(tier):
    n = 2 if tier == 'quick' else 3
    out = []
    renders = ['plain', 'batch', 'verbose', 'json'] + (['color'] if tier != 'quick' else [])
    for cat in ('kex', 'key', 'enc', 'mac'):
        for idxs in lists_upto(ALPHA[cat], n):
            if tier != 'quick' and len(idxs) == 3 and cat != 'kex' and len(set(idxs)) == 3 and min(idxs) >= 3:
                pass
            for role in ('server', 'client'):
                for r in renders:
                    out.append(('one', cat, idxs, role, r))
    # all four categories crossed at length <= 1
    opts = {c: [()] + [(i,) for i in range(len(ALPHA[c]))] for c in ALPHA}
    for k in opts['kex']:
        for y in opts['key']:
            for e in opts['enc']:
                for m in opts['mac']:
                    for role in ('server', 'client'):
                        out.append(('cross', (k, y, e, m), role, 'plain' if (len(k) + len(y)) % 2 else 'json'))
    # asymmetric c2s / s2c
    for cat in ('enc', 'mac'):
        for i, j in itertools.product(range(len(ALPHA[cat])), repeat=2):
            for role in ('server', 'client'):
                for r in ('plain', 'json'):
                    out.append(('asym', cat, (i,), (j,), role, r))
    for ci, comp in enumerate(COMPS):
        for bi in range(len(BANNERS)):
            for role in ('server', 'client'):
                for r in renders:
                    out.append(('comp', ci, bi, role, r))
    # compression lists that differ by direction (ciphers and MACs alike in both): a server audit reports the server-to-client list
    for ci, cj in itertools.permutations(range(len(COMPS)), 2):
        for r in ('plain', 'json'):
            out.append(('compasym', ci, cj, 'server', r))
    # the peer hangs up right after its KEXINIT (our own writes then fail; every byte it sent is still readable): same report
    for cat in ('kex', 'enc'):
        for idxs in lists_upto(ALPHA[cat], 1):
            for role in ('server', 'client'):
                for r in ('plain', 'json'):
                    out.append(('hangup', cat, idxs, role, r))
    # the same bytes delivered in other TCP segments: the identification line (and the KEXINIT) cut at every offset / byte by byte
    for bi in range(len(BANNERS)):
        for role in ('server', 'client'):
            for r in ('plain', 'json'):
                for k in range(1, len(BANNERS[bi]) + 2):
                    out.append(('seg', bi, ('split', k), role, r))
                out.append(('seg', bi, ('seg1',), role, r))
    # SSH-1 masks
    if tier == 'quick':
        masks = [(c, 0x0c) for c in list(range(128)) + [0x80, 0xff, 0x100 | 0x08, 0xffffffff]] + \
                [(0x48, a) for a in list(range(128)) + [0x80, 0xff, 0xffffffff]]
    else:
        masks = [(c, a) for c in list(range(128)) + [0x80 | 8, 0xffffffff] for a in list(range(0, 128, 2)) + [0x80 | 4, 0xffffffff]] + \
                [(0x48, a) for a in range(1, 128, 2)]
    for c, a in masks:
        for r in (['plain', 'json'] if tier == 'quick' else ['plain', 'batch', 'verbose', 'json']):
            out.append(('ssh1', c, a, r))
    # SSH-1 public-key messages of every length modulo the block size (the padding is 1..8 bytes; key sizes decide the length)
    for hbits in range(1024, 1024 + 64 + 1, 8):
        for sbits in (768, 776):
            for r in ('plain', 'json'):
                out.append(('ssh1', 0x48, 0x2c, r, hbits, sbits))
    return out


def build(case):
    """-> (role, render, lists dict of bytes name lists, comp, banner)"""
    lists = {c: [b(x) for x in BASE[c]] for c in BASE}
    c2s = {}
    comp, banner = ['none'], BANNERS[0]
    kind = case[0]
    if kind == 'one':
        _k, cat, idxs, role, r = case
        lists[cat] = [b(ALPHA[cat][i]) for i in idxs]
    elif kind == 'cross':
        _k, sel, role, r = case
        for cat, idxs in zip(('kex', 'key', 'enc', 'mac'), sel):
            lists[cat] = [b(ALPHA[cat][i]) for i in idxs]
    elif kind == 'asym':
        _k, cat, i_c2s, i_s2c, role, r = case
        lists[cat] = [b(ALPHA[cat][i]) for i in i_s2c]
        c2s[cat] = [b(ALPHA[cat][i]) for i in i_c2s]
        # a key exchange and a host key the tool can probe, so that the follow-up connections happen as well
        lists['kex'] = [b'curve25519-sha256', b'diffie-hellman-group-exchange-sha256']
        lists['key'] = [b'ssh-ed25519', b'rsa-sha2-512']
    elif kind == 'comp':
        _k, ci, bi, role, r = case
        comp, banner = COMPS[ci], BANNERS[bi]
    elif kind == 'seg':
        _k, bi, _f, role, r = case
        banner = BANNERS[bi]
    elif kind == 'hangup':
        _k, cat, idxs, role, r = case
        lists[cat] = [b(ALPHA[cat][i]) for i in idxs]
    elif kind == 'compasym':
        _k, ci, cj, role, r = case
        comp = COMPS[ci]
        c2s['comp'] = COMPS[cj]
    return role, r, lists, c2s, comp, banner


def run_case(case):
    if case[0] == 'ssh1':
        _k, cm, am, r = case[:4]
        cfg = {'cmask': cm, 'amask': am}
        if len(case) > 4:
            cfg.update(host_bits=case[4], server_bits=case[5])
        srv = peer.Server(banner=b'SSH-1.5-OpenSSH_3.4', ssh1=cfg)
        return H.audit(srv, opts=RENDER[r] + ['-1', '--skip-rate-test']), None
    role, r, lists, c2s, comp, banner = build(case)
    faults = None
    if case[0] == 'hangup':
        faults = {('srv' if role == 'server' else 'cli', 0, 1): ('then_reset',)}
    if case[0] == 'seg':
        lab = 'srv' if role == 'server' else 'cli'
        faults = {(lab, 0, 0): case[2]}
        if case[2] == ('seg1',):
            faults[(lab, 0, 1)] = ('seg1',)
    if role == 'server':
        keynames = [x.decode('utf-8', 'replace') for x in lists['key']]
        srv = peer.Server(banner=banner, kex=lists['kex'], key=lists['key'], enc=lists['enc'], mac=lists['mac'],
                          enc_c2s=c2s.get('enc'), mac_c2s=c2s.get('mac'), comp=comp, comp_c2s=c2s.get('comp'),
                          host_keys=peer.standard_host_keys(keynames))
        return H.audit(srv, opts=RENDER[r] + ['--skip-rate-test'], faults=faults), (lists, c2s, comp, banner)
    cli = peer.Client(banner=banner, kex=lists['kex'], key=lists['key'], enc=c2s.get('enc', lists['enc']), mac=c2s.get('mac', lists['mac']),
                      enc_s2c=lists['enc'], mac_s2c=lists['mac'], comp=comp)
    return H.client_audit(cli, opts=RENDER[r], faults=faults), (lists, c2s, comp, banner)


SSH1_CIPHERS = ['none', 'idea', 'des', '3des', 'tss', 'rc4', 'blowfish']
SSH1_AUTHS = [None, 'rhosts', 'rsa', 'password', 'rhosts_rsa', 'tis', 'kerberos']


def collapse(names):
    out = []
    for n in names:
        if not out or out[-1] != n:
            out.append(n)
    return out


def name_kind(cat, n):
    if n == LONG:
        return 'long'
    if '�' in n:
        return 'non-utf8'
    if n == SPECIAL:
        return 'special-chars'
    if n.startswith('gss-'):
        return 'gss'
    return 'db' if n in H.master_db().get(cat, {}) else 'unknown'


def check(case, res, info):
    probs = []
    r = case[3] if case[0] == 'ssh1' else case[-1]
    kind = case[0]
    if res.hang or res.exc or res.status not in (0, 2, 3):
        tail = [l for l in (res.stdout + res.stderr).strip().split('\n') if l.strip()]
        return [('no-report:%s:status-%s:%s' % (kind if kind != 'one' else 'lists', res.status, (tail[-1] if tail else '')[:60]), (res.stdout + res.stderr)[-400:])]
    if kind == 'ssh1':
        _k, cm, am, _r = case[:4]
        exp = {'key': ['ssh-rsa1'], 'enc': [c for i, c in enumerate(SSH1_CIPHERS) if cm & (1 << i)],
               'aut': [a for i, a in enumerate(SSH1_AUTHS) if a and am & (1 << i)]}
        cats = ('key', 'enc', 'aut')
    else:
        lists, c2s, comp, banner = info
        exp = {c: wire.names_of(wire.namelist_bytes(lists[c])) for c in lists}
        cats = ('kex', 'key', 'enc', 'mac')
    asym = kind == 'asym' and case[4] == 'client'
    if r == 'json':
        try:
            doc = json.loads(res.stdout)
        except ValueError as e:
            return [('json-unparseable:%s' % kind, '%s: %r' % (e, res.stdout[:200]))]
        for c in cats:
            got = report.json_names(doc, c)
            if got is None:
                probs.append(('json-missing-category:%s:%s' % (kind, c), 'keys: %s' % sorted(doc)))
                continue
            got = [g for g in got if g.strip() != '']
            if asym:
                pool = set(exp[c]) | set(wire.names_of(wire.namelist_bytes(c2s.get(c, []))))
                if c in c2s and not set(got) <= pool:
                    probs.append(('json-names-invented:%s' % c, 'got %s' % got))
                continue
            if got != exp[c]:
                probs.append(('json-names-differ:%s:%s:%s' % (kind, c, '+'.join(sorted(set(name_kind(c, n) for n in set(got) ^ set(exp[c]))) or ['order/multiplicity'])),
                              'got %s expected %s' % (got, exp[c])))
        if kind != 'ssh1':
            if doc.get('banner', {}).get('raw') != banner.decode():
                probs.append(('json-banner-differs', '%r vs %r' % (doc.get('banner'), banner)))
            gotc = [x for x in (doc.get('compression') or []) if x.strip() != '']
            if gotc != wire.names_of(wire.namelist_bytes(comp)):
                probs.append(('json-compression-differs', '%r vs %r' % (gotc, comp)))
        return probs
    rep = report.TextReport(res.stdout)
    for c in cats:
        got = rep.names(c)
        e = exp[c]
        if r == 'verbose':
            got, e = collapse(got), collapse(e)
        if asym:
            pool = set(e) | set(wire.names_of(wire.namelist_bytes(c2s.get(c, []))))
            if c in c2s and not set(got) <= pool:
                probs.append(('text-names-invented:%s' % c, 'got %s' % got))
            # which half of a client's KEXINIT is rated is not fixed by the property, but every rendering must show the same half
            jres, _info = run_case(case[:-1] + ('json',))
            try:
                jgot = [n for n in (report.json_names(json.loads(jres.stdout), c) or []) if n != '']
            except ValueError:
                jgot = None
            if jgot is not None and (collapse(jgot) if r == 'verbose' else jgot) != got:
                probs.append(('text-and-json-show-different-halves:%s' % c, 'text %s json %s' % (got, jgot)))
            continue
        if got != e:
            probs.append(('text-names-differ:%s:%s:%s:%s' % (kind, r, c, '+'.join(sorted(set(name_kind(c, n) for n in set(got) ^ set(e))) or ['order/multiplicity'])),
                          'got %s expected %s' % (got, e)))
    # nothing may be shown in a category it was not advertised in
    for c in report.CATS:
        if c not in cats and rep.names(c):
            probs.append(('text-extra-category:%s' % c, str(rep.names(c))))
    if kind != 'ssh1':
        if rep.gen.get('banner') != banner.decode():
            probs.append(('text-banner-differs', '%r vs %r' % (rep.gen.get('banner'), banner)))
        shown = rep.gen.get('compression', '')
        want = [x for x in wire.names_of(wire.namelist_bytes(comp)) if x != 'none']
        wanttxt = 'enabled (%s)' % ', '.join(want) if want else 'disabled'
        if shown != wanttxt:
            probs.append(('text-compression-differs', '%r vs %r' % (shown, wanttxt)))
    return probs


def work(chunk, st):
    for case in chunk:
        res, info = run_case(case)
        st.execution(res.world, outcome=(case[0], res.status), root=case, nontrivial=case)
        for sig, detail in check(case, res, info):
            st.violation(sig, {'case': _jsonable(case), 'what': detail, 'status': res.status})
        if st.evaluations % 700 == 3:
            st.sample({'case': _jsonable(case), 'status': res.status})


# ---- the same oracle over the peers every other check builds (certificates, group exchange, vendor banners, whole-database lists ...)
def work_zoo(chunk, st):
    from props import zoo
    for e in map(zoo.get, chunk):
        if e['ssh1']:
            continue
        want = {c: [n for n in e['lists'][c] if n != ''] for c in e['lists']}
        for r in ('plain', 'verbose', 'json'):
            res = zoo.audit(e, RENDER[r])
            st.execution(res.world, outcome=('zoo', res.status, r), root=('zoo', e['name'], r), nontrivial=('zoo', e['name'], r))
            d = {'peer': e['name'], 'render': r, 'status': res.status}
            if res.hang or res.exc or res.status not in (0, 2, 3):
                st.violation('zoo:no-report:status-%s' % res.status, dict(d, tail=(res.stdout + res.stderr)[-300:]))
                continue
            if r == 'json':
                try:
                    doc = json.loads(res.stdout)
                except ValueError:
                    st.violation('zoo:json-unparseable', dict(d, stdout=res.stdout[:200]))
                    continue
                got = {c: [n for n in (report.json_names(doc, c) or []) if n != ''] for c in want}     # empty names are not names
            else:
                rep = report.TextReport(res.stdout)
                got = {c: (collapse(rep.names(c)) if r == 'verbose' else rep.names(c)) for c in want}
            for c in want:
                w = collapse(want[c]) if r == 'verbose' else want[c]
                if got[c] != w:
                    st.violation('zoo:%s-names-differ:%s' % ('json' if r == 'json' else 'text', c), dict(d, cat=c, reported=got[c][:12], advertised=w[:12]))
    st.sample({'zoo_peers': list(chunk[:3])}, cap=3)


def work_zoo_T(chunk, st):
    """the JSON document of a -T run (one target) under the options that filter or add text lines: the lists are all there"""
    from props import zoo
    for name in chunk:
        e = zoo.get(name)
        if e['ssh1']:
            continue
        want = {c: [n for n in e['lists'][c] if n != ''] for c in e['lists']}
        for opts in (['-n', '-j', '-l', 'warn'], ['-n', '-jj', '-l', 'fail'], ['-n', '-j', '-v'], ['-n', '-j', '-b', '-v']):
            srv = e['make']()
            res = H.audit(srv, opts=opts + ['--skip-rate-test'], via_targets_file=True)
            st.execution(res.world, outcome=('zoo-T', res.status, tuple(opts)), root=('zoo-T', name, tuple(opts)), nontrivial=('zoo-T', name, tuple(opts)))
            d = {'peer': name, 'opts': opts, 'status': res.status}
            try:
                doc = json.loads(res.stdout)
                doc = doc[0] if isinstance(doc, list) and len(doc) == 1 else doc
            except ValueError:
                st.violation('multi-target-path:json-unparseable:%s' % ' '.join(o for o in opts if o not in ('-n',)), dict(d, stdout=res.stdout[:200]))
                continue
            if not isinstance(doc, dict):
                st.violation('multi-target-path:json-shape', dict(d, stdout=res.stdout[:200]))
                continue
            for c in want:
                got = [n for n in (report.json_names(doc, c) or []) if n != '']
                if got != want[c]:
                    st.violation('multi-target-path:json-names-differ:%s' % ' '.join(o for o in opts if o not in ('-n',)), dict(d, cat=c, reported=got[:8], advertised=want[c][:8]))
                    break
    st.sample({'zoo_T': list(chunk[:2])}, cap=2)


def byte_value_tasks():
    out = []
    for cat in ('kex', 'key', 'enc', 'mac'):
        for pos in ('last-byte-of-last-name', 'first-byte-of-first-name', 'inside-middle-name', 'last-byte-of-first-name', 'whole-single-name'):
            for lo in range(0, 256, 16):
                out.append((cat, pos, lo, 'server'))
            if cat in ('kex', 'enc'):
                for lo in range(0, 256, 32):
                    out.append((cat, pos, lo, 'client') + ((32,) if True else ()))
    return out


def work_byte_values(chunk, st):
    """every byte value at the edges and in the middle of a name, at the edges of a list: the JSON report shows the names as sent
    (independent decode: split at commas, UTF-8 with replacement), whatever the byte is - blank, tab, CR, LF, NUL, '?', '@', 0x80, 0xff ..."""
    for task in chunk:
        cat, pos, lo, role = task[:4]
        span = task[4] if len(task) > 4 else 16
        for v in range(lo, lo + span):
            bv = bytes([v])
            names = [b(x) for x in BASE[cat]] + [b'zz-last@example.org']
            if pos == 'last-byte-of-last-name':
                names[-1] = names[-1] + bv
            elif pos == 'first-byte-of-first-name':
                names[0] = bv + names[0]
            elif pos == 'inside-middle-name':
                names[1] = names[1][:3] + bv + names[1][3:]
            elif pos == 'last-byte-of-first-name':
                names[0] = names[0] + bv
            else:
                names = [b'n' + bv + b'm' if v not in (0x2c,) else b'n,m']
            lists = {c: [b(x) for x in BASE[c]] for c in BASE}
            lists[cat] = names
            if role == 'server':
                srv = peer.Server(kex=lists['kex'], key=lists['key'], enc=lists['enc'], mac=lists['mac'])
                res = H.audit(srv, opts=['-n', '-j', '--skip-rate-test'])
            else:
                res = H.client_audit(peer.Client(kex=lists['kex'], key=lists['key'], enc=lists['enc'], mac=lists['mac']), opts=['-n', '-j'])
            root = ('byte', cat, pos, v, role)
            st.execution(res.world, outcome=('byte', res.status, pos), root=root, nontrivial=root, detail='light')
            d = {'category': cat, 'position': pos, 'byte': '0x%02x' % v, 'role': role, 'status': res.status}
            if res.hang or res.exc or res.status not in (0, 2, 3):
                st.violation('byte-value:no-report:%s' % pos, dict(d, tail=(res.stdout + res.stderr)[-200:]))
                continue
            try:
                doc = json.loads(res.stdout)
            except ValueError:
                st.violation('byte-value:json-unparseable:%s' % pos, dict(d, stdout=res.stdout[:200]))
                continue
            want = wire.names_of(wire.namelist_bytes(names))
            got = [g for g in (report.json_names(doc, cat) or []) if g.strip() != '']
            if got != want:
                cls = 'whitespace' if v in (9, 10, 11, 12, 13, 32) else 'control' if v < 32 or v == 127 else 'comma' if v == 0x2c else 'non-ascii' if v >= 128 else 'printable'
                st.violation('byte-value:json-names-differ:%s:%s' % (pos, cls), dict(d, reported=got, advertised=want))
    st.sample({'byte_values': list(chunk[0])}, cap=6)


def probe_fault_tasks():
    out = []
    for conn in (1, 2, 3, 4):
        for fault in ((-1, ('refuse',)), (-1, ('timeout',)), (0, ('trunc_stall', 3)), (0, ('reset',)), (0, ('garbage', 40, 7)), (1, ('reset',)), (1, ('trunc_close', 9))):
            for opts in (['-j'], ['-j', '-v'], ['-jj', '-l', 'warn'], ['-j', '-v', '-b'], ['-v'], []):      # (-d is documented to add text to JSON output)
                for via_T in (False, True):
                    out.append((conn, fault, tuple(opts), via_T))
    return out


def work_probe_faults(chunk, st):
    """connection-level trouble on a LATER connection of the same audit (a host-key or group-exchange probe refused, timing out, reset,
    answering rubbish) under every rendering: the lists parsed from the first connection are still what the report shows"""
    lists = dict(kex=['curve25519-sha256', 'diffie-hellman-group-exchange-sha256', 'frob-kex@example.org'], key=['ssh-ed25519', 'rsa-sha2-512', 'frob-key@example.org'],
                 enc=['aes256-ctr', 'frob-enc@example.org'], mac=['hmac-sha2-256', 'frob-mac@example.org'])
    for conn, (msg, fault), opts, via_T in chunk:
        srv = peer.Server(host_keys=peer.standard_host_keys(['ssh-ed25519', 'rsa-sha2-512']), gex=peer.GexPolicy([2048, 4096], peer.STRICT), **lists)
        res = H.audit(srv, opts=['-n', '--skip-rate-test'] + list(opts), faults={(srv.label, conn, msg): fault}, via_targets_file=via_T)
        root = ('probe-fault', conn, msg, fault, opts, via_T)
        st.execution(res.world, outcome=('probe-fault', res.status, opts, via_T), root=root, nontrivial=root)
        d = {'conn': conn, 'msg': msg, 'fault': list(fault), 'opts': list(opts), 'T': via_T, 'status': res.status}
        tag = '%s%s' % (' '.join(opts) or 'plain', ':T' if via_T else '')
        if res.hang or res.exc or res.status not in (0, 2, 3):
            st.violation('probe-fault:no-report:%s' % tag, dict(d, tail=(res.stdout + res.stderr)[-300:]))
            continue
        if any(o in ('-j', '-jj') for o in opts):
            try:
                doc = json.loads(res.stdout)
                doc = doc[0] if isinstance(doc, list) and len(doc) == 1 else doc
                got = {c: report.json_names(doc, c) for c in lists}
            except (ValueError, TypeError, KeyError, AttributeError):
                st.violation('probe-fault:json-unparseable:%s' % tag, dict(d, stdout=res.stdout[:200]))
                continue
        else:
            rep = report.TextReport(res.stdout)
            got = {c: (collapse(rep.names(c)) if '-v' in opts else rep.names(c)) for c in lists}
        for c in lists:
            if got[c] != lists[c]:
                st.violation('probe-fault:names-differ:%s' % tag, dict(d, cat=c, reported=got[c], advertised=lists[c]))
                break
    st.sample({'probe_fault': [chunk[0][0], chunk[0][1][0], list(chunk[0][1][1]), list(chunk[0][2]), chunk[0][3]]}, cap=8)


def _jsonable(case):
    return json.loads(json.dumps(case, default=lambda o: o.decode('latin1') if isinstance(o, bytes) else repr(o)))


def validation_cases(cs, seed, n):
    out = []
    for case in H.pick(cs, seed, n):
        r = case[3] if case[0] == 'ssh1' else case[-1]
        if case[0] == 'ssh1':
            _k, cm, am, _r = case[:4]
            out.append({'label': str(case), 'opts': RENDER[r] + ['-1'], 'make': (lambda cm=cm, am=am: peer.Server(banner=b'SSH-1.5-OpenSSH_3.4', ssh1={'cmask': cm, 'amask': am}))})
            continue
        role, r, lists, c2s, comp, banner = build(case)
        if role == 'server':
            keynames = [x.decode('utf-8', 'replace') for x in lists['key']]
            out.append({'label': str(case)[:80], 'opts': RENDER[r], 'make': (lambda lists=lists, c2s=c2s, comp=comp, banner=banner, keynames=keynames: peer.Server(
                banner=banner, kex=lists['kex'], key=lists['key'], enc=lists['enc'], mac=lists['mac'], enc_c2s=c2s.get('enc'), mac_c2s=c2s.get('mac'), comp=comp, comp_c2s=c2s.get('comp'),
                host_keys=peer.standard_host_keys(keynames)))})
        else:
            out.append({'kind': 'client', 'label': str(case)[:80], 'opts': RENDER[r], 'make': (lambda lists=lists, c2s=c2s, comp=comp, banner=banner: peer.Client(
                banner=banner, kex=lists['kex'], key=lists['key'], enc=c2s.get('enc', lists['enc']), mac=c2s.get('mac', lists['mac']),
                enc_s2c=lists['enc'], mac_s2c=lists['mac'], comp=comp))})
    return out


def run(tier, seed):
    t0 = time.time()
    cs = cases(tier)
    st = par.pmap(work, cs)
    from props import zoo
    zs = zoo.names(tier)
    par.pmap(work_zoo, zs, stats=st, chunk=6)
    par.pmap(work_zoo_T, zs[::3], stats=st, chunk=6)
    pf = probe_fault_tasks()
    par.pmap(work_probe_faults, pf, stats=st, chunk=8)
    par.pmap(work_byte_values, byte_value_tasks(), stats=st, chunk=2)
    from props import delivery as _DL
    par.pmap(_DL.work, _DL.tasks(tier), extra=(('names',),), stats=st, chunk=12)
    from props import decor as _DC
    par.pmap(_DC.work, _DC.tasks(tier), extra=(('names',),), stats=st, chunk=8)
    validated = H.validate_traces(validation_cases(cs, seed, 40 if tier == 'quick' else 200), st)
    return evidence.finish(
        PID, tier, seed, st, t0,
        rule='name alphabet per category (2 DB names, unknown, 303-char, non-UTF-8, special characters; kex adds gss-* with base64 suffixes and '
             '"gss-"): all lists of length 0..%d in one category at a time, full cross of all categories at length <=1, asymmetric c2s/s2c (cipher, MAC and compression lists), '
             'compression lists x banners; each banner cut into two segments at every offset and delivered byte by byte; x role {server, client} x rendering {plain, batch, verbose, json%s}; every SSH-1 cipher mask and '
             'authentication mask; the same oracle over the %d cooperative peers of props/zoo.py (drawn from every other check) in plain, verbose and JSON; '
             '%d (probe connection 1..4, connection-level fault, rendering, single/-T) combinations: trouble on a later connection of the audit leaves the reported lists intact; every byte value 0..255 at five positions of a name / list (edges and middle) per category, JSON, server role (kex and enc also client role); '
             'each distinct case is non-trivial' % (2 if tier == 'quick' else 3, '' if tier == 'quick' else ', colour', len(zs), len(pf)),
        assumptions=['expected names = independent decode of the bytes the scripted peer sent (mc/wire.py)',
                     'verbose rendering compared after collapsing adjacent duplicates', 'empty names are not names'],
        exhaustive=True, traces_validated=validated, extra={'cases': len(cs)})


def replay(path):
    v = json.load(open(path))
    case = v['detail']['case']

    def tup(x):
        return tuple(tup(i) for i in x) if isinstance(x, list) else x
    case = tup(case)
    res, info = run_case(case)
    print(res.stdout[-1200:])
    probs = check(case, res, info)
    for s, d in probs:
        print('replayed:', s, d[:400])
    return 1 if probs else 0
