"""C04 - Terrapin exposure flagged exactly per the published rule (exhaustive product, both tiers)."""
import json
import re
import time

from mc import evidence, harness as H, par, peer, report
from refmodels import terrapin as T

PID = 'C04'
FILL_ENC = 'aes256-ctr'
FILL_MAC = 'hmac-sha2-256'
UNK_CHACHA = 'chacha20-poly1305@example.org'
UNK_CBC = 'foo256-cbc'
UNK_ETM = 'hmac-foo-etm@openssh.com'
UNK_CBC_LONG = 'vendor-' + 'x' * 70 + '-cbc'                      # longer than the 64 characters RFC 4251 allows a name
UNK_ETM_LONG = 'hmac-' + 'y' * 70 + '-etm@openssh.com'
NEAR_ENC = ['des', '3des-ctr', 'none', 'arcfour', '', 'cbc', 'ssh1', 'des-', 'aes128-cbcx', 'cbc-aes128', 'aes128cbc', 'chacha20', 'poly1305', 'xchacha20-poly1305@openssh.com',
            'liu.se', '-', 'aes128-ctr']
NEAR_MAC = ['etm', 'hmac-sha2-256-etm', 'etm@openssh.com', 'hmac-sha2-256etm@openssh.com', '', 'openssh.com', 'hmac-sha2-256', 'hmac-etm']
MARK_S = 'kex-strict-s-v00@openssh.com'
MARK_C = 'kex-strict-c-v00@openssh.com'


def cases(tier):
    enc = H.db_names('enc')
    mac = H.db_names('mac')
    chachas = [[]] + [[n] for n in enc if T.is_chacha(n)] + [[UNK_CHACHA]]
    db_cbc = [n for n in enc if 'cbc' in n]
    cbcs = [[]] + [[n] for n in db_cbc] + [db_cbc[:2], [UNK_CBC], [UNK_CBC_LONG]]
    db_etm = [n for n in mac if 'etm' in n]
    etms = [[]] + [[n] for n in db_etm] + [db_etm[:2], [UNK_ETM], [UNK_ETM_LONG]]
    out = []
    for role in ('server', 'client'):
        for marker in ('none', 'own', 'other', 'both'):
            for ch in chachas:
                for cb in cbcs:
                    for et in etms:
                        out.append((role, marker, tuple(ch), tuple(cb), tuple(et)))
    # the same rule in software contexts where the report has nothing else to say: unrecognised software (no recommendations at all)
    # and a configuration without any other finding (post-quantum kex, AEAD cipher, encrypt-then-MAC MACs only)
    # ... and under identification strings announcing protocol 1.99 (an SSH-2 peer that also speaks SSH-1: the rule is about its SSH-2 offer)
    for ctx in ('unrecognised', 'flawless', 'dropbear', 'libssh', 'tinyssh', 'old-openssh', 'proto-1.99', 'proto-1.99-unrecognised', 'comment'):
        for role in ('server', 'client'):
            for marker in ('none', 'own', 'other', 'both'):
                for ch in ([], ['chacha20-poly1305@openssh.com']):
                    for cb in ([], ['aes128-cbc']) if ctx != 'flawless' else ([],):
                        for et in ([], ['hmac-sha2-256-etm@openssh.com'], ['hmac-sha2-256-etm@openssh.com', 'hmac-sha2-512-etm@openssh.com']):
                            out.append((role, marker, tuple(ch), tuple(cb), tuple(et), ctx))
    # names the database does not know standing before, between and after the names it knows, family by family: what is said about one
    # name of a list does not depend on its neighbours
    dch = [n for n in enc if T.is_chacha(n)][0]
    for role in ('server', 'client'):
        for marker in ('none', 'own', 'other', 'both'):
            for ch in ([], [UNK_CHACHA, dch], [dch, UNK_CHACHA]):
                for cb in ([], [UNK_CBC, db_cbc[0]], [db_cbc[0], UNK_CBC], [db_cbc[0], UNK_CBC, db_cbc[1]]):
                    for et in ([], [UNK_ETM, db_etm[0]], [db_etm[0], UNK_ETM], [db_etm[0], UNK_ETM, db_etm[1]]):
                        if ch or cb or et:
                            out.append((role, marker, tuple(ch), tuple(cb), tuple(et), 'mixed'))
    # the peer hangs up right after its KEXINIT: our own writes fail, everything it sent is still readable - same verdict, same role
    for role in ('server', 'client'):
        for marker in ('none', 'own', 'other', 'both'):
            for ch, cb, et in (([dch], [], []), ([], [db_cbc[0]], [db_etm[0]]), ([dch], [db_cbc[0]], [db_etm[0]]), ([], [], [])):
                out.append((role, marker, tuple(ch), tuple(cb), tuple(et), 'hangup'))
    # the two directions of a KEXINIT differ in exactly what the rule looks at (ETM MACs / CBC ciphers / ChaCha in one direction only):
    # the rule is evaluated on ONE half - the peer's own sending direction - never on a mixture of the two
    for role in ('server', 'client'):
        for marker in ('none', 'own'):
            for shape in ('etm-own-only', 'etm-other-only', 'cbc-own-only', 'cbc-other-only', 'chacha-own-only', 'chacha-other-only', 'cbc-own+etm-other', 'cbc-other+etm-own'):
                out.append((role, marker, (), (), (), 'asym:' + shape))
    # near misses: names that are NOT ChaCha20-Poly1305 / CBC-mode / encrypt-then-MAC but look like fragments, prefixes or relatives of
    # names that are (database names such as 'des' and '3des-ctr' among them, and the empty name), standing where the real thing would
    for role in ('server', 'client'):
        for marker in ('none', 'own'):
            for near in NEAR_ENC:
                out.append((role, marker, (), (near,), (db_etm[0],), 'nearmiss'))
                out.append((role, marker, (), (near,), (), 'nearmiss'))
                out.append((role, marker, (near,), (), (db_etm[0],), 'nearmiss'))
            for near in NEAR_MAC:
                out.append((role, marker, (), (db_cbc[0],), (near,), 'nearmiss'))
                out.append((role, marker, (dch,), (), (near,), 'nearmiss'))
    # siblings: a CBC cipher of the database next to the non-CBC ciphers of the same family (des-cbc with des, des-cfb, ...; 3des-cbc with
    # 3des-ctr ...): the warning goes to the CBC cipher alone, whatever rating rows the family shares in the table
    for c in db_cbc:
        fam = c.split('-')[0]
        sibs = [n for n in enc if n != c and n.split('-')[0].split('@')[0] == fam and not T.is_cbc(n) and not T.is_chacha(n)]
        for role in ('server', 'client'):
            for marker in ('none', 'own'):
                for k in range(0, len(sibs), 2):
                    out.append((role, marker, (), (c,) + tuple(sibs[k:k + 2]), (db_etm[0],), 'nearmiss'))
    # interleaved lists: the members of one class (CBC ciphers, ETM MACs) are not neighbours in the peer's list - other ciphers / MACs, the
    # ChaCha cipher, or members of the other class's look-alikes stand between them (OpenSSH 6.2-6.6 listed arcfour between its CBC ciphers)
    for role in ('server', 'client'):
        for marker in ('none', 'own', 'other'):
            for cb in (tuple(db_cbc[:2]), tuple(db_cbc[:3]), tuple(db_cbc[:4]), ()):
                for et in (tuple(db_etm[:2]), tuple(db_etm[:3]), ()):
                    for ch in ((), (dch,)):
                        if cb or et:
                            out.append((role, marker, ch, cb, et, 'interleaved'))
                            out.append((role, marker, ch, cb, et, 'interleaved-twice'))
    # long lists: the relevant name behind N other names, N on both sides of 50, 64, 128 and 255
    for role in ('server', 'client'):
        for marker in ('none', 'own'):
            for n in (49, 50, 51, 63, 64, 65, 127, 128, 129, 255, 256):
                for ch, cb, et in (([dch], [], []), ([], [db_cbc[0]], [db_etm[0]]), ([], [db_cbc[0]], []), ([], [], [db_etm[0]]), ([dch], [db_cbc[0]], [db_etm[0]])):
                    out.append((role, marker, tuple(ch), tuple(cb), tuple(et), 'long:%d' % n))
    return out


CTX_BANNER = {'interleaved': b'SSH-2.0-OpenSSH_9.6', 'interleaved-twice': b'SSH-2.0-OpenSSH_6.6', 'proto-1.99': b'SSH-1.99-OpenSSH_9.6', 'proto-1.99-unrecognised': b'SSH-1.99-AcmeSSH_1.0', 'comment': b'SSH-2.0-OpenSSH_9.6p1 Debian-3 SSH-1.5-compat',
              'dropbear': b'SSH-2.0-dropbear_2022.83', 'libssh': b'SSH-2.0-libssh_0.10.5', 'tinyssh': b'SSH-2.0-tinyssh_20230101', 'old-openssh': b'SSH-2.0-OpenSSH_7.4',
              'default': b'SSH-2.0-OpenSSH_9.6', 'mixed': b'SSH-2.0-OpenSSH_9.6', 'nearmiss': b'SSH-2.0-OpenSSH_9.6', 'hangup': b'SSH-2.0-OpenSSH_9.6', 'unrecognised': b'SSH-2.0-AcmeSSH_1.0', 'flawless': b'SSH-2.0-OpenSSH_9.6'}


def banner_of(case):
    ctx = case[5] if len(case) > 5 else 'default'
    return CTX_BANNER['default' if ctx.startswith(('long:', 'asym:')) else ctx]


def kind(name):
    for cat in ('enc', 'mac'):
        if name in H.master_db()[cat]:
            return 'db'
    return 'unknown-name'


def build(case):
    role, marker, ch, cb, et = case[:5]
    ctx = case[5] if len(case) > 5 else 'default'
    kex = ['curve25519-sha256'] if ctx != 'flawless' else ['sntrup761x25519-sha512@openssh.com']
    own, other = (MARK_S, MARK_C) if role == 'server' else (MARK_C, MARK_S)
    if marker in ('own', 'both'):
        kex.append(own)
    if marker in ('other', 'both'):
        kex.append(other)
    enc = [FILL_ENC if ctx != 'flawless' else 'aes256-gcm@openssh.com'] + list(ch) + list(cb)
    mac = [FILL_MAC if ctx != 'flawless' else 'hmac-sha2-512-etm@openssh.com'] + [m for m in et if ctx != 'flawless' or m != 'hmac-sha2-512-etm@openssh.com']
    if ctx.startswith('asym:'):
        return kex, [FILL_ENC], [FILL_MAC]
    if ctx.startswith('interleaved'):
        fe, fm = ['aes128-ctr', 'arcfour', 'aes256-gcm@openssh.com', 'aes256-ctr'], ['hmac-sha2-256', 'hmac-md5', 'umac-64@openssh.com', 'hmac-sha2-512']
        enc, mac = [], []
        for i, c in enumerate(cb):
            enc += [c, fe[i % 4]] + (list(ch) if i == 0 else [])
        for i, m in enumerate(et):
            mac += [m, fm[i % 4]]
        if ctx == 'interleaved-twice':      # and once more round: every member twice, still never next to a relative
            enc, mac = enc + enc, mac + mac
        return kex, (enc or [FILL_ENC] + list(ch)), (mac or [FILL_MAC])
    if ctx.startswith('long:'):
        n = int(ctx[5:])
        enc = ['filler-enc-%03d@example.org' % i for i in range(n - 1)] + [FILL_ENC] + list(ch) + list(cb)
        mac = ['filler-mac-%03d@example.org' % i for i in range(n - 1)] + [FILL_MAC] + list(et)
        return kex, enc, mac
    if ctx != 'default':
        return kex, enc, mac
    if ch and ch[0] in H.master_db()['mac']:
        mac.append(ch[0])            # the database also knows this name as a MAC; a MAC of that name is not an encrypt-then-MAC MAC
    if et and len(et) == 2:
        enc.append(et[0])            # an (unknown) cipher that merely carries an ETM MAC's name
    if cb and len(cb) == 2:
        mac.append(cb[0])            # and a MAC that carries a CBC cipher's name
    return kex, enc, mac


def run_one(case, fmt):
    role, marker, ch, cb, et = case[:5]
    kex, enc, mac = build(case)
    opts = ['-n'] + (['-j'] if fmt.startswith('json') else []) + (fmt.split('+', 1)[1].split() if '+' in fmt else [])
    if len(case) > 5 and case[5].startswith('asym:'):
        return run_asym(case, fmt, kex, opts)
    hang = len(case) > 5 and case[5] == 'hangup'
    if role == 'server':
        srv = peer.Server(kex=kex, enc=enc, mac=mac, banner=banner_of(case))
        return H.audit(srv, opts=opts + ['--skip-rate-test'], faults={('srv', 0, 1): ('then_reset',)} if hang else None), kex, enc, mac
    cli = peer.Client(kex=kex, enc=enc, mac=mac, banner=banner_of(case))
    return H.client_audit(cli, opts=opts, faults={('cli', 0, 1): ('then_reset',)} if hang else None), kex, enc, mac


ASYM = {'etm': 'hmac-sha2-256-etm@openssh.com', 'cbc': 'aes128-cbc', 'chacha': 'chacha20-poly1305@openssh.com'}


def asym_halves(shape):
    """-> (own-direction ciphers, own-direction MACs, other-direction ciphers, other-direction MACs)"""
    oe, om, xe, xm = [FILL_ENC], [FILL_MAC], [FILL_ENC], [FILL_MAC]
    for part in shape.split('+'):
        what, where = part.split('-')[0], part.split('-')[1]
        tgt_e, tgt_m = (oe, om) if where == 'own' else (xe, xm)
        if what == 'etm':
            tgt_m.append(ASYM['etm'])
        else:
            tgt_e.append(ASYM[what])
    # a CBC cipher / ETM MAC needs its counterpart to matter: give the single-sided shapes the counterpart in BOTH directions
    if shape.startswith('etm-'):
        oe.append(ASYM['cbc'])
        xe.append(ASYM['cbc'])
    if shape.startswith('cbc-') and '+' not in shape:
        om.append(ASYM['etm'])
        xm.append(ASYM['etm'])
    return oe, om, xe, xm


def run_asym(case, fmt, kex, opts):
    role, shape = case[0], case[5][5:]
    oe, om, xe, xm = asym_halves(shape)
    if role == 'server':       # a server's own sending direction is server-to-client
        srv = peer.Server(kex=kex, enc=oe, mac=om, enc_c2s=xe, mac_c2s=xm, banner=banner_of(case))
        return H.audit(srv, opts=opts + ['--skip-rate-test']), kex, oe, om
    cli = peer.Client(kex=kex, enc=oe, mac=om, enc_s2c=xe, mac_s2c=xm, banner=banner_of(case))
    return H.client_audit(cli, opts=opts), kex, oe, om


def check_case(case, st):
    role, marker, ch, cb, et = case[:5]
    problems = []
    fmts = ['text', 'json']
    if len(case) > 5 and case[5] in ('mixed', 'unrecognised', 'flawless', 'dropbear'):
        # the JSON document does not depend on the minimum level or on verbosity; the text report at -v says the same about Terrapin
        fmts += ['json+-l fail', 'json+-l warn', 'json+-v', 'json+-j', 'text+-v', 'text+-b']
    for fmt in fmts:
        res, kex, enc, mac = run_one(case, fmt)
        has_marker = T.marker_present(kex, role == 'client')
        v_enc, v_mac = T.exposed(enc, mac)
        V = v_enc + v_mac
        st.execution(res.world, outcome=(res.status, has_marker, bool(V)), root=(case, fmt),
                     nontrivial=(role, marker, len(ch), cb[:1], et[:1]) if V else None)
        if res.status not in (0, 2, 3) or res.hang or res.exc:
            last = [l for l in res.stdout.strip().split('\n') if l.strip()][-1:] or ['']
            exc = last[0].split(':')[0]
            kinds = sorted(set(kind(n) for n in V)) or ['none']
            problems.append(('crash:%s:%s' % (exc, '+'.join(kinds)), 'status %r: %s' % (res.status, last[0])))
            continue
        flagged, noted, added = [], None, []
        if fmt.startswith('text'):
            rep = report.TextReport(res.stdout)
            for cat in ('kex', 'key', 'enc', 'mac'):
                for a in rep.algs[cat]:
                    if any(T.TERRAPIN_NOTE in t for _l, t in a['notes']):
                        flagged.append((cat, a['name']))
                        if not any(l == 'warn' and T.TERRAPIN_NOTE in t for l, t in a['notes']):
                            problems.append(('terrapin-note-not-warning:%s' % kind(a['name']), a['name']))
            for n in rep.nfo:
                k = n.find('vulnerable SSH channels with this target: ')
                if k >= 0:
                    tail = n[k + len('vulnerable SSH channels with this target: '):]
                    noted = tail.split('.  If any CBC')[0].split(', ')
            added = [name for sign, name, _c, _v, _n in rep.rec if sign == '+']
        else:
            try:
                doc = json.loads(res.stdout)
            except ValueError:
                problems.append(('json-unparseable', res.stdout[:200]))
                continue
            for cat in ('kex', 'key', 'enc', 'mac'):
                for e in doc[cat]:
                    notes = e.get('notes', {})
                    if any(T.TERRAPIN_NOTE in t for lv in notes for t in notes[lv]):
                        flagged.append((cat, e['algorithm']))
            for n in doc.get('additional_notes', []):
                k = n.find('vulnerable SSH channels with this target: ')
                if k >= 0:
                    tail = n[k + len('vulnerable SSH channels with this target: '):]
                    noted = tail.split('.  If any CBC')[0].split(', ')
            for lvl, acts in doc.get('recommendations', {}).items():
                for cat, lst in acts.get('add', {}).items():
                    added += [x['name'] for x in lst]
        exp_flagged = [] if has_marker else [('enc', n) for n in v_enc] + [('mac', n) for n in v_mac]
        if len(case) > 5 and case[5].startswith('asym:') and role == 'client':
            # a client audit lists the other direction; a warning can only be seen on a name that is listed there too
            _oe, _om, xe, xm = asym_halves(case[5][5:])
            exp_flagged = [(c, n) for c, n in exp_flagged if n in (xe if c == 'enc' else xm)]
        exp_noted = V if (has_marker and V) else None
        if sorted(flagged) != sorted(exp_flagged):
            miss = [n for c, n in exp_flagged if (c, n) not in flagged]
            extra = ['%s(as %s)' % (n, c) if (('enc' if c == 'mac' else 'mac'), n) in exp_flagged else n for c, n in flagged if (c, n) not in exp_flagged]
            for n in miss:
                problems.append(('missing-warning:%s:%s' % (fmt, n if kind(n) == 'db' else kind(n)),
                                 'expected Terrapin warning on %s; flagged=%s' % (n, flagged)))
            for n in extra:
                problems.append(('spurious-warning:%s:%s' % (fmt, n if kind(n) == 'db' else kind(n)),
                                 'unexpected Terrapin warning on %s; expected=%s' % (n, exp_flagged)))
        if (noted is None) != (exp_noted is None) or (noted is not None and sorted(noted) != sorted(exp_noted)):
            bad = sorted(set(noted or []) ^ set(exp_noted or []))
            problems.append(('advisory-note:%s:%s' % (fmt, ','.join(n if kind(n) == 'db' else kind(n) for n in bad)),
                             'advisory note lists %s, expected %s' % (noted, exp_noted)))
        for n in added:
            if len(case) > 5 and case[5].startswith('asym:'):
                break       # which half decides what counts as "disabled by the operator" is not fixed by the property when the halves differ
            if T.is_chacha(n) or T.is_cbc(n) or T.is_etm(n):
                problems.append(('recommends-adding:%s:%s' % (fmt, n), 'recommended for addition: %s' % n))
    # a problem the plain text / JSON run of the same case shows as well is reported once, under the plain format
    plain = set(sig for sig, _d in problems if ':text:' in sig + ':' or ':json:' in sig + ':')
    out = []
    for sig, d in problems:
        m = re.search(r':((?:text|json)\+[^:]*)(:|$)', sig)
        if m and sig.replace(m.group(1), m.group(1).split('+')[0]) in plain:
            continue
        out.append((sig, d))
    return out


def work(chunk, st):
    for case in chunk:
        for sig, detail in check_case(case, st):
            st.violation(sig, {'case': list(case), 'what': detail})
        if st.evaluations % 400 < 2:
            st.sample({'case': list(case), 'lists': [list(x) for x in build(case)]})


HIST = {
    'exposed-all': (['curve25519-sha256'], ['aes256-ctr', 'chacha20-poly1305@openssh.com', 'aes128-cbc', '3des-cbc'], ['hmac-sha2-256', 'umac-64-etm@openssh.com', 'hmac-sha2-512-etm@openssh.com']),
    'hardened-all': (['curve25519-sha256', MARK_S], ['aes256-ctr', 'chacha20-poly1305@openssh.com', 'aes128-cbc', '3des-cbc'], ['hmac-sha2-256', 'umac-64-etm@openssh.com', 'hmac-sha2-512-etm@openssh.com']),
    'cbc-only': (['curve25519-sha256'], ['aes256-ctr', 'aes128-cbc', '3des-cbc'], ['hmac-sha2-256']),
    'etm-only': (['curve25519-sha256'], ['aes256-ctr'], ['hmac-sha2-256', 'umac-64-etm@openssh.com']),
    'none': (['curve25519-sha256'], ['aes256-ctr'], ['hmac-sha2-256']),
}


_alone = {}


def work_history(chunk, st):
    for kinds, fmt in chunk:
        servers = [peer.Server(kex=HIST[k][0], enc=HIST[k][1], mac=HIST[k][2], banner=b'SSH-2.0-OpenSSH_9.6') for k in kinds]
        res, outs = H.audit_sequence(servers, opts=['-n', '--skip-rate-test'] + (['-j'] if fmt == 'json' else []))
        st.execution(res.world, outcome=('history', fmt, len(kinds)), root=('history', kinds, fmt), nontrivial=('history', kinds, fmt))
        if outs is None or len(outs) != len(kinds):
            st.violation('history:output-shape', {'kinds': kinds, 'fmt': fmt, 'stdout': res.stdout[-200:]})
            continue
        for k, o in zip(kinds, outs):
            kex, enc, mac = HIST[k]
            v_enc, v_mac = T.exposed(enc, mac)
            want = [] if T.marker_present(kex, False) else v_enc + v_mac
            flagged = []
            if fmt == 'json':
                for cat in ('enc', 'mac'):
                    for e in o.get(cat, []):
                        if any(T.TERRAPIN_NOTE in t for lv in e.get('notes', {}) for t in e['notes'][lv]):
                            flagged.append(e['algorithm'])
            else:
                rep = report.TextReport(o)
                for cat in ('enc', 'mac'):
                    flagged += [a['name'] for a in rep.algs[cat] if any(T.TERRAPIN_NOTE in t for _l, t in a['notes'])]
            if sorted(flagged) != sorted(want):
                st.violation('history:warnings-depend-on-earlier-targets:%s' % fmt, {'targets_in_run': kinds, 'target': k, 'flagged': flagged, 'expected': want})
            # ... and so are the recommendations (what is, and is not, recommended for addition follows the same rule): those of a fresh audit
            # of this target alone
            if k not in _alone:
                _alone[k] = {}
            if fmt not in _alone[k]:
                one = H.audit(peer.Server(kex=kex, enc=enc, mac=mac, banner=b'SSH-2.0-OpenSSH_9.6'), opts=['-n', '--skip-rate-test'] + (['-j'] if fmt == 'json' else []))
                try:
                    _alone[k][fmt] = json.dumps(json.loads(one.stdout).get('recommendations'), sort_keys=True) if fmt == 'json' else sorted(report.TextReport(one.stdout).rec)
                except ValueError:
                    _alone[k][fmt] = None
            got = json.dumps(o.get('recommendations'), sort_keys=True) if fmt == 'json' else sorted(report.TextReport(o).rec)
            if _alone[k][fmt] is not None and got != _alone[k][fmt]:
                st.violation('history:recommendations-depend-on-earlier-targets:%s' % fmt, {'targets_in_run': kinds, 'target': k, 'got': str(got)[:300], 'alone': str(_alone[k][fmt])[:300]})
    st.sample({'history': list(chunk[0][0]), 'fmt': chunk[0][1]}, cap=14)


def run(tier, seed):
    t0 = time.time()
    cs = cases(tier)
    st = par.pmap(work, cs)
    import itertools
    hist = [(k, f) for n in (2, 3) for k in itertools.product(list(HIST), repeat=n) for f in ('text', 'json') if n == 2 or tier != 'quick' or k[0] == k[2]]
    par.pmap(work_history, hist, stats=st, chunk=4)
    from props import delivery as _DL
    par.pmap(_DL.work, _DL.tasks(tier), extra=(('terrapin',),), stats=st, chunk=12)
    from props import decor as _DC
    par.pmap(_DC.work, _DC.tasks(tier), extra=(('terrapin',),), stats=st, chunk=8)
    vcases = []
    for case in H.pick(cs, seed, 30 if tier == 'quick' else 150):
        role, marker, ch, cb, et = case[:5]
        kex, enc, mac = build(case)
        bn = banner_of(case)
        fmt = ['-n', '-j'] if (len(vcases) % 2) else ['-n']
        if role == 'server':
            vcases.append({'label': str(case), 'opts': fmt, 'make': (lambda kex=kex, enc=enc, mac=mac, bn=bn: peer.Server(kex=kex, enc=enc, mac=mac, banner=bn))})
        else:
            vcases.append({'kind': 'client', 'label': str(case), 'opts': fmt, 'make': (lambda kex=kex, enc=enc, mac=mac, bn=bn: peer.Client(kex=kex, enc=enc, mac=mac, banner=bn))})
    validated = H.validate_traces(vcases, st)
    return evidence.finish(
        PID, tier, seed, st, t0,
        rule='full product role(2) x marker(4) x chacha{absent, each DB name, unknown} x cbc{absent, each DB name, two, unknown} '
             'x etm{absent, each DB name, two, unknown} x {text, json}; a reduced product again for unrecognised software and for a configuration '
             'with no other finding; plus histories: every ordered pair (thorough: triple) of 5 target kinds in ONE '
             '-T invocation, rule applied to each target; a case is non-trivial when the exposed set V is non-empty',
        assumptions=['virtual socket layer models TCP delivery in whole segments', 'reference rule: refmodels/terrapin.py',
                     'lists are symmetric (c2s == s2c)'],
        exhaustive=True, traces_validated=validated, extra={'cases': len(cs)})


def replay(path):
    v = json.load(open(path))
    case = v['detail']['case']
    case = (case[0], case[1], tuple(case[2]), tuple(case[3]), tuple(case[4]))
    st = evidence.Stats()
    probs = check_case(case, st)
    for sig, d in probs:
        print('replayed:', sig, d)
    return 1 if any(s == v['sig'] for s, _ in probs) else 0
