"""C03 - an algorithm's rating depends only on the algorithm (and documented context), in every view."""
import json
import re
import time

from mc import evidence, harness as H, par, peer, report
from refmodels import terrapin as T

PID = 'C03'
MARK_S, MARK_C = 'kex-strict-s-v00@openssh.com', 'kex-strict-c-v00@openssh.com'
NEIGH = {
    'kex': ['sntrup761x25519-sha512@openssh.com', 'ext-info-s'],
    'key': ['ssh-ed25519', 'sk-ssh-ed25519@openssh.com'],
    'enc': ['aes256-ctr', 'aes128-gcm@openssh.com'],
    'mac': ['hmac-sha2-256', 'hmac-sha2-512'],
}
GSS_SUFFIXES = ['dZuIebMjgUqaxvbF7hDbAw==', 'a+b/c0==', 'toWM5Slw5Ew8Mqkay+al2g==']
UNKNOWN = {'kex': 'frob-kex@example.org', 'key': 'frob-key@example.org', 'enc': 'frob-enc@example.org', 'mac': 'frob-mac@example.org'}
UNKNOWN_SHAPED = [('enc', 'aes999-cbc'), ('enc', 'chacha20-poly1305@example.org'), ('mac', 'hmac-frob-etm@openssh.com'),
                  ('kex', 'kex-strict-x-v00@example.org'),
                  # a known name with surrounding blanks is another name (a peer that separates its lists with ", " sends these)
                  ('enc', ' aes128-ctr'), ('enc', 'aes192-ctr '), ('mac', '\thmac-sha1'), ('mac', 'hmac-sha2-512-etm@openssh.com\u00a0'), ('kex', ' diffie-hellman-group14-sha256'), ('key', ' ecdsa-sha2-nistp256')]


def instantiate(cat, name):
    if cat == 'kex' and name.startswith('gss-') and name.endswith('-*'):
        return [name[:-1] + s for s in GSS_SUFFIXES]
    return [name]


def tasks(tier):
    out = []
    for cat in ('kex', 'key', 'enc', 'mac'):
        for name in H.db_names(cat):
            for inst in instantiate(cat, name):
                out.append((cat, name, inst))
        out.append((cat, None, UNKNOWN[cat]))
    # unknown names shaped like the algorithms the Terrapin rule looks for: in a vulnerable context they must still be flagged unknown
    for cat, name in UNKNOWN_SHAPED:
        out.append((cat, None, name))
    return out


def contexts(tier):
    """(marker, CBC neighbour, ETM neighbour, size-bearing neighbours).  With the last flag the peer also offers a 1024-bit RSA
    key, a certificate signed by a 1024-bit CA and a 1024-bit group-exchange modulus, all of which earn size notes of their own."""
    ctx = []
    for marker in (False, True):
        for cbc in (False, True):
            for etm in (False, True):
                ctx.append((marker, cbc, etm, False))
    if tier == 'quick':
        ctx = [(False, False, False, False), (False, True, True, False), (True, True, True, False), (True, False, True, False)]
    ctx += [(False, False, False, True), (True, True, True, True)]
    # the strict-KEX marker of the *other* role (and an unknown kex-strict-* name) is just another neighbour
    ctx += [('other', True, True, False), ('other', False, False, False)]
    # the half of the KEXINIT that is not rated differs from the rated half in exactly what the Terrapin rule looks at
    ctx += [(False, True, False, False, 'other-half-has-etm'), (False, True, True, False, 'other-half-lacks-etm'), (False, False, True, False, 'other-half-has-cbc'),
            (False, True, True, False, 'other-half-lacks-cbc'), (True, True, True, False, 'other-half-lacks-etm')]
    return ctx


SIZE_NEIGH_KEYS = ['rsa-sha2-512', 'ssh-rsa-cert-v01@openssh.com']
SIZE_NEIGH_KEX = ['curve25519-sha256', 'diffie-hellman-group-exchange-sha256']


def build_lists(cat, inst, pos, ctx, role):
    marker, cbc, etm, small = ctx[:4]
    lists = {c: list(NEIGH[c]) for c in NEIGH}
    if small:
        lists['key'] = SIZE_NEIGH_KEYS + lists['key']
        lists['kex'] = SIZE_NEIGH_KEX + lists['kex']
    if cbc:
        lists['enc'].append('aes128-cbc')
    if etm:
        lists['mac'].append('hmac-sha2-256-etm@openssh.com')
    if marker == 'other':
        lists['kex'] += [MARK_C if role == 'server' else MARK_S, 'kex-strict-x-v99@example.org']
    elif marker:
        lists['kex'].append(MARK_S if role == 'server' else MARK_C)
    base = [n for n in lists[cat] if n != inst]
    if pos == 'alone':
        # keep context-bearing neighbours, drop the plain ones
        keep = [n for n in base if n not in NEIGH[cat]]
        lists[cat] = [inst] + keep
    elif pos == 'first':
        lists[cat] = [inst] + base
    elif pos == 'middle':
        lists[cat] = base[:1] + [inst] + base[1:]
    else:
        lists[cat] = base + [inst]
    return lists


def ctx_key(cat, inst, lists, role, small=False):
    """The documented context that may legitimately influence the notes of `inst`."""
    marker = T.marker_present(lists['kex'], role == 'client')
    if cat == 'enc' and T.is_chacha(inst):
        return ('chacha', marker)
    if cat == 'enc' and T.is_cbc(inst):
        return ('cbc', marker, any(T.is_etm(m) for m in lists['mac']))
    if cat == 'mac' and T.is_etm(inst):
        return ('etm', marker, any(T.is_cbc(c) for c in lists['enc']))
    if small and cat == 'key' and ('rsa' in inst):
        return ('measured-rsa-size', 1024)       # RSA-family names and RSA certificates share the measured key / CA
    if small and cat == 'kex' and inst.startswith('diffie-hellman-group-exchange'):
        return ('measured-modulus', 1024)
    if small and cat == 'key' and '-cert-' in inst:
        return ('measured-ca-size', 1024)
    return ()


def other_half(lists, asym):
    """the cipher / MAC lists of the direction the report does not rate"""
    enc, mac = list(lists['enc']), list(lists['mac'])
    if asym == 'other-half-has-etm':
        mac = mac + ['hmac-sha2-512-etm@openssh.com']
    elif asym == 'other-half-lacks-etm':
        mac = [m for m in mac if not T.is_etm(m)] or ['hmac-sha2-512']
    elif asym == 'other-half-has-cbc':
        enc = enc + ['aes256-cbc']
    elif asym == 'other-half-lacks-cbc':
        enc = [c for c in enc if not T.is_cbc(c)] or ['aes128-ctr']
    return enc, mac


def observe(cat, inst, lists, role, fmt, small=False, asym=None):
    opts = ['-n'] + (['-j'] if fmt == 'json' else [])
    if asym:
        oenc, omac = other_half(lists, asym)
        if role == 'server':
            srv = peer.Server(kex=lists['kex'], key=lists['key'], enc=lists['enc'], mac=lists['mac'], enc_c2s=oenc, mac_c2s=omac, banner=b'SSH-2.0-dropbear_2022.83',
                              host_keys=peer.standard_host_keys(lists['key']))
            res = H.audit(srv, opts=opts + ['--skip-rate-test'])
        else:
            cli = peer.Client(kex=lists['kex'], key=lists['key'], enc=oenc, mac=omac, enc_s2c=lists['enc'], mac_s2c=lists['mac'], banner=b'SSH-2.0-dropbear_2022.83')
            res = H.client_audit(cli, opts=opts)
    elif role == 'server':
        srv = peer.Server(kex=lists['kex'], key=lists['key'], enc=lists['enc'], mac=lists['mac'], banner=b'SSH-2.0-dropbear_2022.83',
                          host_keys=peer.standard_host_keys(lists['key'], rsa_bits=1024 if small else 3072, ca='rsa', ca_bits=1024 if small else 3072),
                          gex=peer.GexPolicy([1024], peer.STRICT) if small else None)
        res = H.audit(srv, opts=opts + ['--skip-rate-test'])
    else:
        cli = peer.Client(kex=lists['kex'], key=lists['key'], enc=lists['enc'], mac=lists['mac'], banner=b'SSH-2.0-dropbear_2022.83')
        res = H.client_audit(cli, opts=opts)
    if res.status not in (0, 2, 3) or res.hang or res.exc:
        return res, None
    if fmt == 'json':
        try:
            doc = json.loads(res.stdout)
        except ValueError:
            return res, None
        notes = None
        for e in doc.get(cat, []):
            if e['algorithm'] == inst:
                notes = sorted((lv, t) for lv in ('fail', 'warn', 'info') for t in e.get('notes', {}).get(lv, []))
                break
        return res, notes
    rep = report.TextReport(res.stdout)
    for a in rep.algs[cat]:
        if a['name'] == inst or (inst != inst.strip() and a['name'] == inst.strip()):      # the text layout cannot show surrounding blanks
            return res, sorted((lv, t) for lv, t in a['notes'] if t != '')
    return res, None


def lookup_notes(cat, dbname):
    res = H.lookup([dbname])
    rep = report.TextReport(res.stdout)
    for a in rep.algs[cat]:
        if a['name'] == dbname:
            return res, sorted((lv, t) for lv, t in a['notes'] if t != '')
    return res, None


# ---- --lookup of several names at once: what is printed for a name (its notes; whether it counts as unknown) and the exit status do
# not depend on the order the names are given in, nor on the other names given - every ordered pair and triple over a pool drawn from
# all four categories, an unknown name, a gss-* instantiation and a strict-KEX marker
def lookup_list_tasks():
    import itertools as _it
    pool = [H.db_names('kex')[0], H.db_names('key')[0], H.db_names('enc')[0], H.db_names('mac')[0], 'frob-x@example.org',
            'gss-group14-sha256-a+b/c0==', '3des-cbc', 'kex-strict-s-v00@openssh.com']
    pool = [n for i, n in enumerate(pool) if n not in pool[:i]]
    return [tuple(c) for n in (2, 3) for c in _it.permutations(pool, n)]


def _lookup_view(names):
    res = H.lookup(list(names))
    rep = report.TextReport(res.stdout)
    notes = {}
    for cat in ('kex', 'key', 'enc', 'mac'):
        for a in rep.algs[cat]:
            notes[(cat, a['name'])] = sorted((lv, t) for lv, t in a['notes'] if t != '')
    txt = report.strip_ansi(res.stdout)
    unknown = []
    if '# unknown algorithms' in txt:
        for l in txt.split('# unknown algorithms', 1)[1].split('\n')[1:]:
            if not l.strip() or l.startswith(('#', '(')):
                break
            unknown.append(l.strip())
    return res, notes, sorted(unknown)


def work_lookup_lists(chunk, st):
    singles = {}
    for names in chunk:
        res, notes, unknown = _lookup_view(names)
        root = ('lookup-order', names)
        st.execution(None, outcome=('lookup-order', res.status, len(unknown)), root=root, nontrivial=root)
        d = {'asked': list(names), 'status': res.status}
        if res.hang or res.exc:
            st.violation('lookup-list:crash', dict(d, exc=res.exc))
            continue
        exp_notes, exp_unknown, statuses = {}, [], []
        for n in names:
            if n not in singles:
                singles[n] = _lookup_view([n])
            r1, n1, u1 = singles[n]
            exp_notes.update(n1)
            exp_unknown += u1
            statuses.append(r1.status)
        if sorted(unknown) != sorted(exp_unknown):
            st.violation('lookup-list:unknown-section-depends-on-the-other-names', dict(d, listed_as_unknown=unknown, unknown_when_asked_alone=sorted(exp_unknown)))
        elif notes != exp_notes:
            bad = sorted(k for k in set(notes) | set(exp_notes) if notes.get(k) != exp_notes.get(k))
            st.violation('lookup-list:notes-depend-on-the-other-names', dict(d, differs_for=[list(k) for k in bad][:4]))
        elif res.status != max(statuses):
            st.violation('lookup-list:status-%s-but-worst-single-status-%s' % (res.status, max(statuses)), d)
    st.sample({'lookup_list': list(chunk[0])}, cap=3)


def size_note(t):
    return 'modulus' in t and ('bit' in t)


def check_task(task, st, ctxs):
    cat, dbname, inst = task
    seen = {}          # ctx key -> {notes tuple: example}
    kindtag = 'unknown' if dbname is None else ('gss' if inst != dbname else 'db')
    for ctx in ctxs:
        for pos in ('alone', 'first', 'middle', 'last'):
            for role in ('server', 'client'):
                if ctx[3] and role == 'client':
                    continue        # nothing is measured in a client audit
                if len(ctx) > 4 and role == 'client':
                    continue        # a client audit rates one half of the KEXINIT and looks for Terrapin in the other: left open by the property
                lists = build_lists(cat, inst, pos, ctx, role)
                key = ctx_key(cat, inst, lists, role, ctx[3])
                for fmt in ('text', 'json'):
                    res, notes = observe(cat, inst, lists, role, fmt, ctx[3], ctx[4] if len(ctx) > 4 else None)
                    st.execution(res.world, outcome=(res.status, fmt, role), root=(task, ctx, pos, role, fmt),
                                 nontrivial=(cat, inst, key, pos, role, fmt))
                    if notes is None:
                        st.violation('name-not-reported:%s:%s:%s' % (kindtag, cat, fmt),
                                     {'task': list(task), 'ctx': list(ctx), 'pos': pos, 'role': role, 'fmt': fmt, 'status': res.status,
                                      'stdout_tail': res.stdout[-300:]})
                        continue
                    if dbname is None:
                        if not any('unknown' in t for _lv, t in notes) or not any(lv in ('warn', 'fail') for lv, _t in notes):
                            st.violation('unknown-name-not-flagged:%s:%s' % (cat, fmt), {'task': list(task), 'notes': notes, 'fmt': fmt})
                        continue
                    seen.setdefault(key, {}).setdefault(tuple(notes), (ctx, pos, role, fmt))
    if dbname is None:
        res = H.lookup([inst])
        if res.status == 0 or 'unknown' not in res.stdout:
            st.violation('unknown-name-not-flagged:%s:lookup' % cat, {'task': list(task), 'stdout': res.stdout[:300]})
        return
    for key, variants in seen.items():
        if len(variants) > 1:
            vs = list(variants.items())
            a, b = vs[0], vs[1]
            diff = sorted(set(a[0]) ^ set(b[0]))
            fmts = sorted(set(x[1][3] for x in vs))
            st.violation('rating-varies:%s:%s:%s' % (kindtag, cat, 'text-vs-json' if len(fmts) > 1 and _split_by_fmt(variants) else 'position/neighbour/role'),
                         {'task': list(task), 'context': list(key), 'differing_notes': diff[:6],
                          'examples': [{'where': list(map(str, w)), 'notes': list(n)[:8]} for n, w in vs[:3]]})
    # --lookup must agree with the context-free rating (marker present or name not Terrapin-shaped)
    lres, lnotes = lookup_notes(cat, dbname)
    if lnotes is None:
        st.violation('lookup-does-not-print:%s' % cat, {'task': list(task), 'stdout': lres.stdout[:300]})
    else:
        base_keys = [k for k in seen if k == () or (len(k) > 1 and k[1] is True) or (len(k) > 2 and k[2] is False and k[0] != 'chacha')]
        for k in base_keys:
            for notes in seen[k]:
                plain = [x for x in notes if T.TERRAPIN_NOTE not in x[1]]
                if sorted(plain) != lnotes:
                    st.violation('lookup-differs:%s:%s' % (kindtag, cat), {'task': list(task), 'lookup': lnotes, 'audit': list(notes), 'context': list(k)})
                    break
    st.extra['names'] += 1


def _split_by_fmt(variants):
    by = {}
    for n, w in variants.items():
        by.setdefault(w[3], set()).add(n)
    return len(by) > 1 and not (by.get('text', set()) & by.get('json', set()))


def work(chunk, st, ctxs):
    for task in chunk:
        check_task(task, st, ctxs)
        if len(st.samples) < 3:
            st.sample({'category': task[0], 'db_name': task[1], 'advertised_as': task[2]})


# ---- the notes of a name do not depend on what was audited before it in the same invocation either
HIST = {
    'exposed': dict(kex=['curve25519-sha256'], key=['ssh-ed25519', 'rsa-sha2-512'], enc=['chacha20-poly1305@openssh.com', 'aes128-cbc', 'aes256-ctr'], mac=['hmac-sha2-256-etm@openssh.com', 'hmac-sha2-256'], rsa_bits=1024),
    'patched': dict(kex=['curve25519-sha256', MARK_S], key=['ssh-ed25519', 'rsa-sha2-512'], enc=['chacha20-poly1305@openssh.com', 'aes128-cbc', 'aes256-ctr'], mac=['hmac-sha2-256-etm@openssh.com', 'hmac-sha2-256'], rsa_bits=4096),
    'plain': dict(kex=['curve25519-sha256', 'diffie-hellman-group-exchange-sha256'], key=['rsa-sha2-512'], enc=['aes256-ctr', 'aes128-cbc'], mac=['hmac-sha2-256'], rsa_bits=2048, gex=2048),
    'smallgex': dict(kex=['diffie-hellman-group-exchange-sha256', 'curve25519-sha256'], key=['rsa-sha2-512', 'ssh-ed25519'], enc=['aes256-ctr'], mac=['hmac-sha2-256-etm@openssh.com'], rsa_bits=3072, gex=1024),
}


def hist_server(k):
    sp = HIST[k]
    return peer.Server(kex=sp['kex'], key=sp['key'], enc=sp['enc'], mac=sp['mac'], banner=b'SSH-2.0-dropbear_2022.83',
                       host_keys=peer.standard_host_keys(sp['key'], rsa_bits=sp['rsa_bits']), gex=peer.GexPolicy([sp['gex']], peer.STRICT) if sp.get('gex') else None)


def notes_of(out, fmt):
    res = {}
    if fmt == 'json':
        for cat in ('kex', 'key', 'enc', 'mac'):
            for e in out.get(cat, []):
                res[(cat, e['algorithm'])] = sorted((lv, t) for lv in ('fail', 'warn', 'info') for t in e.get('notes', {}).get(lv, []))
    else:
        rep = report.TextReport(out)
        for cat in ('kex', 'key', 'enc', 'mac'):
            for a in rep.algs[cat]:
                res[(cat, a['name'])] = sorted((lv, t) for lv, t in a['notes'] if t != '')
    return res


def work_history(chunk, st):
    for kinds, fmt in chunk:
        opts = ['-n', '--skip-rate-test'] + (['-j'] if fmt == 'json' else [])
        res, outs = H.audit_sequence([hist_server(k) for k in kinds], opts=opts)
        st.execution(res.world, outcome=('history', fmt, res.status), root=('history', kinds, fmt), nontrivial=('history', kinds, fmt))
        if outs is None or len(outs) != len(kinds):
            st.violation('history:output-shape', {'kinds': list(kinds), 'fmt': fmt, 'stdout': res.stdout[-300:]})
            continue
        for i, (k, o) in enumerate(zip(kinds, outs)):
            _r, alone = H.audit_sequence([hist_server(k)], opts=opts)
            a, b = notes_of(o, fmt), notes_of(alone[0], fmt)
            if a != b:
                diff = sorted(x for x in set(a) | set(b) if a.get(x) != b.get(x))
                st.violation('history:rating-depends-on-earlier-targets:%s' % fmt, {'targets_in_run': list(kinds), 'index': i, 'target': k,
                                                                                    'differing': [[list(x), a.get(x), b.get(x)] for x in diff[:4]]})
    st.sample({'history': list(chunk[0][0])}, cap=3)


# ---- measured attributes under faults: whatever goes wrong on a probe connection, an algorithm shown with a given measured size
# carries the notes that name and size earn in a fault-free audit (or it is shown without a size)
def work_gex_faults(chunk, st):
    GEX = 'diffie-hellman-group-exchange-sha256'
    for sizes, style, banner in chunk:
        def mk():
            return peer.Server(label='gf', kex=[GEX, 'curve25519-sha256'], key=['ssh-ed25519'], enc=['aes256-ctr'], mac=['hmac-sha2-256'], banner=banner,
                               host_keys=peer.standard_host_keys(['ssh-ed25519']), gex=peer.GexPolicy(list(sizes), style))
        by_size = {}
        base = H.audit(mk(), opts=['-n', '--skip-rate-test'])
        nconn = len(base.world.conns)
        plans = [None] + [{('gf', i, -1): ('refuse',)} for i in range(1, nconn)] + [{('gf', i, 2): ('reset',)} for i in range(1, nconn)] + \
                [{('gf', i, 2): ('trunc_close', 5)} for i in range(1, nconn)] + [{('gf', i, 1): ('trunc_stall', 3)} for i in range(1, nconn)]
        for fmt in ('text', 'json'):
            for plan in plans:
                res = H.audit(mk(), opts=['-n', '--skip-rate-test'] + (['-j'] if fmt == 'json' else []), faults=plan)
                st.execution(res.world, outcome=('gex-fault', res.status, fmt), root=('gex-fault', sizes, style, banner, fmt, str(plan)), nontrivial=('gex-fault', sizes, style, banner, fmt, str(plan)))
                if res.status not in (0, 2, 3) or res.hang or res.exc:
                    continue
                if fmt == 'json':
                    e = next((x for x in json.loads(res.stdout).get('kex', []) if x['algorithm'] == GEX), None)
                    size = None if e is None else e.get('keysize')
                    notes = None if e is None else tuple(sorted((lv, t) for lv in ('fail', 'warn', 'info') for t in e.get('notes', {}).get(lv, [])))
                else:
                    a = next((x for x in report.TextReport(res.stdout).algs['kex'] if x['name'] == GEX), None)
                    size = None if a is None else a['size']
                    notes = None if a is None else tuple(sorted((lv, t) for lv, t in a['notes'] if t != ''))
                if notes is None:
                    continue
                by_size.setdefault((fmt, size), {}).setdefault(notes, plan)
        for (fmt, size), variants in by_size.items():
            if len(variants) > 1:
                vs = list(variants.items())
                st.violation('rating-varies:measured-size-under-probe-faults:%s' % fmt,
                             {'moduli': list(sizes), 'style': style, 'banner': banner.decode(), 'shown_size': size,
                              'differing_notes': sorted(set(vs[0][0]) ^ set(vs[1][0]))[:4], 'plans': [str(vs[0][1]), str(vs[1][1])]})
    st.sample({'gex_fault_servers': [[list(c[0]), c[1]] for c in chunk[:2]]}, cap=3)


# ---- the measured attribute itself: every name of the RSA family (plain and certificate) x key sizes around every threshold, sizes
# that are not multiples of 8 or 16 included: the size note is the one the documented thresholds give for the size of the key presented,
# the same for a plain key and for the same key inside a certificate, in both formats
RSA_PLAIN = ['ssh-rsa', 'rsa-sha2-256', 'rsa-sha2-512']
RSA_CERT = ['ssh-rsa-cert-v01@openssh.com', 'rsa-sha2-256-cert-v01@openssh.com', 'rsa-sha2-512-cert-v01@openssh.com']
SIZE_SWEEP = [1023, 1024, 1031, 2040, 2041, 2047, 2048, 2049, 2056, 3064, 3065, 3071, 3072, 3073, 4095, 4096]


def size_class(bits):
    return 'fail' if bits < 2048 else 'warn' if bits < 3072 else None


# the key exchange lists under which the sizes are measured: what is said about a host key does not depend on them (the probes run over the
# first method of the list the tool can speak - a group exchange if that is all there is)
_G256, _G1 = 'diffie-hellman-group-exchange-sha256', 'diffie-hellman-group-exchange-sha1'
SIZE_KEXLISTS = [['curve25519-sha256'], [_G256], ['sntrup761x25519-sha512@openssh.com', _G256, 'kex-strict-s-v00@openssh.com'], [_G1, _G256], ['frob-kex@example.org', _G1],
                 [_G256, 'curve25519-sha256'], ['diffie-hellman-group16-sha512']]


def work_sizes(chunk, st):
    for task in chunk:
        names, bits, ca, ca_bits = task[:4]
        kexl = SIZE_KEXLISTS[task[4] if len(task) > 4 else 0]
        names = list(names)
        for fmt in ('text', 'json'):
            srv = peer.Server(kex=kexl, key=names, enc=['aes256-ctr'], mac=['hmac-sha2-256'], banner=b'SSH-2.0-dropbear_2022.83',
                              host_keys=peer.standard_host_keys(names, rsa_bits=bits, ca=ca, ca_bits=ca_bits),
                              gex=peer.GexPolicy([3072], peer.STRICT) if any('group-exchange' in k for k in kexl) else None)
            res = H.audit(srv, opts=['-n', '--skip-rate-test'] + (['-j'] if fmt == 'json' else []))
            root = ('sizes', tuple(names), bits, ca, ca_bits, fmt, tuple(kexl))
            st.execution(res.world, outcome=('sizes', res.status, fmt), root=root, nontrivial=root)
            d = {'names': names, 'key_bits': bits, 'ca': ca, 'ca_bits': ca_bits, 'fmt': fmt, 'status': res.status, 'kex': kexl}
            if res.status not in (0, 2, 3) or res.hang or res.exc:
                st.violation('sizes:no-report', dict(d, tail=res.stdout[-200:]))
                continue
            for n in names:
                if fmt == 'json':
                    e = next((x for x in json.loads(res.stdout).get('key', []) if x['algorithm'] == n), None)
                    notes = None if e is None else [(lv, t) for lv in ('fail', 'warn', 'info') for t in e.get('notes', {}).get(lv, [])]
                else:
                    a = next((x for x in report.TextReport(res.stdout).algs['key'] if x['name'] == n), None)
                    notes = None if a is None else [(lv, t) for lv, t in a['notes'] if t != '']
                if notes is None:
                    st.violation('sizes:name-not-reported:%s' % fmt, dict(d, name=n))
                    continue
                kind = 'cert' if '-cert-' in n else 'plain'
                sz = [(lv, t) for lv, t in notes if size_note(t)]
                rsa_ca = kind == 'cert' and ca == 'rsa'
                want = set()
                if size_class(bits) == 'fail':
                    want.add(('fail', 'key', bits))
                if rsa_ca and size_class(ca_bits) == 'fail':
                    want.add(('fail', 'ca', ca_bits))
                if size_class(bits) == 'warn' or (rsa_ca and size_class(ca_bits) == 'warn'):
                    want.add(('warn',))              # one shared wording for the key and for the CA key
                got = set()
                for lv, t in sz:
                    if lv == 'fail':
                        m = re.search(r'(\d+)-bit', t)
                        got.add(('fail', 'ca' if ' CA ' in t else 'key', int(m.group(1)) if m else None))
                    else:
                        got.add((lv,))
                if got != want:
                    which = 'ca-key' if any(len(x) > 1 and x[1] == 'ca' for x in got ^ want) or (rsa_ca and size_class(bits) is None) else 'host-key'
                    st.violation('sizes:%s-size-note-differs-from-thresholds:%s:%s' % (which, kind, fmt), dict(d, name=n, size_notes=sz, expected=sorted(map(str, want))))
    st.sample({'size_sweep': [list(chunk[0][0]), chunk[0][1], chunk[0][2], chunk[0][3]]}, cap=6)


# ---- notes that are attached while an audit runs (Terrapin, measured sizes) stay on the algorithm they belong to: every database name as a
# bystander next to every name that earns such a note
def bystander_tasks():
    out = []
    enc, mac, key, kex = (H.db_names(c) for c in ('enc', 'mac', 'key', 'kex'))
    shaped = lambda n: T.is_cbc(n) or T.is_chacha(n)
    for a in [n for n in enc if shaped(n)]:
        out.append(('enc', a, tuple(b for b in enc if not shaped(b))))
    for a in [n for n in mac if T.is_etm(n)]:
        out.append(('mac', a, tuple(b for b in mac if not T.is_etm(b))))
    for a in ('ssh-rsa', 'rsa-sha2-256', 'rsa-sha2-512'):
        out.append(('key', a, tuple(b for b in key if 'rsa' not in b and '-cert-' not in b)))
    for a in ('diffie-hellman-group-exchange-sha1', 'diffie-hellman-group-exchange-sha256'):
        out.append(('kex', a, tuple(b for b in kex if 'group-exchange' not in b and not b.endswith('-*') and not b.startswith('kex-strict'))))
    return out


def _notes_json(res, cat, name):
    if res.status not in (0, 2, 3) or res.hang or res.exc:
        return None
    for e in json.loads(res.stdout).get(cat, []):
        if e['algorithm'] == name:
            return sorted((lv, t) for lv in ('fail', 'warn', 'info') for t in e.get('notes', {}).get(lv, []))
    return None


def work_bystanders(chunk, st):
    for cat, a, bystanders in chunk:
        base = dict(kex=['curve25519-sha256'], key=['ssh-ed25519'], enc=['aes256-ctr'], mac=['hmac-sha2-256'])
        if cat == 'enc':
            base['mac'] = ['hmac-sha2-256', 'hmac-sha2-256-etm@openssh.com']       # makes a CBC neighbour earn the warning
        if cat == 'mac':
            base['enc'] = ['aes256-ctr', 'aes128-cbc']

        def run(names):
            lists = dict(base)
            lists[cat] = [n for n in base[cat] if n not in names] + list(names) if cat in ('enc', 'mac') else list(names) + [n for n in base[cat] if n not in names]
            srv = peer.Server(kex=lists['kex'], key=lists['key'], enc=lists['enc'], mac=lists['mac'], banner=b'SSH-2.0-dropbear_2022.83',
                              host_keys=peer.standard_host_keys([k for k in lists['key'] if k in ('ssh-ed25519', 'ssh-rsa', 'rsa-sha2-256', 'rsa-sha2-512')], rsa_bits=1024),
                              gex=peer.GexPolicy([1024], peer.STRICT))
            return H.audit(srv, opts=['-n', '-j', '--skip-rate-test'])
        for b in bystanders:
            alone = run([b])
            beside = run([b, a])
            root = ('bystander', cat, a, b)
            st.execution(beside.world, outcome=('bystander', cat, beside.status), root=root, nontrivial=root, detail='light')
            n0, n1 = _notes_json(alone, cat, b), _notes_json(beside, cat, b)
            if n0 is None or n1 is None:
                st.violation('bystander:not-reported:%s' % cat, {'source': a, 'bystander': b, 'status': [alone.status, beside.status]})
            elif n0 != n1:
                st.violation('rating-varies:bystander-of-a-name-that-earns-a-dynamic-note:%s' % cat,
                             {'source': a, 'bystander': b, 'alone': n0, 'beside': n1, 'differing_notes': sorted(set(n0) ^ set(n1))[:4]})
    st.sample({'bystanders_of': [chunk[0][0], chunk[0][1]], 'count': len(chunk[0][2])}, cap=6)


# ---- the two group-exchange methods beside each other, served from different moduli: what is said about one of them (measured size,
# size notes) is what is said when it is offered alone with the same moduli - whichever stands first, whatever the other one is handed
GEXN = ('diffie-hellman-group-exchange-sha1', 'diffie-hellman-group-exchange-sha256')


def gex_neighbour_tasks():
    return [(m, s, t, order, fmt) for m in (0, 1) for s in (1024, 2048, 3072, 4096) for t in (1024, 2048, 4096, 8192, None) for order in (0, 1) for fmt in ('text', 'json')]


def _gex_notes(res, fmt, name):
    if fmt == 'json':
        try:
            e = next((x for x in json.loads(res.stdout).get('kex', []) if x['algorithm'] == name), None)
        except ValueError:
            return None
        return None if e is None else (e.get('keysize'), sorted((lv, t) for lv in ('fail', 'warn', 'info') for t in e.get('notes', {}).get(lv, [])))
    a = next((x for x in report.TextReport(res.stdout).algs['kex'] if x['name'] == name), None)
    return None if a is None else sorted((lv, t) for lv, t in a['notes'] if t != '')


def work_gex_neighbours(chunk, st):
    for m, s_bits, t_bits, order, fmt in chunk:
        me, other = GEXN[m], GEXN[1 - m]
        opts = ['-n', '--skip-rate-test'] + (['-j'] if fmt == 'json' else [])
        mk = lambda kexl, gex: peer.Server(kex=kexl + ['curve25519-sha256'], key=['ssh-ed25519'], enc=['aes256-ctr'], mac=['hmac-sha2-256'], banner=b'SSH-2.0-dropbear_2022.83',
                                           host_keys=peer.standard_host_keys(['ssh-ed25519']), gex=gex)
        alone = H.audit(mk([me], {me: peer.GexPolicy([s_bits], peer.STRICT)}), opts=opts)
        both = H.audit(mk([me, other] if order == 0 else [other, me], {me: peer.GexPolicy([s_bits], peer.STRICT), other: peer.GexPolicy([t_bits] if t_bits else [], peer.STRICT)}), opts=opts)
        root = ('gex-neighbours', m, s_bits, t_bits, order, fmt)
        st.execution(both.world, outcome=('gex-neighbours', both.status), root=root, nontrivial=root)
        a, b = _gex_notes(alone, fmt, me), _gex_notes(both, fmt, me)
        if a is None or b is None or a != b:
            st.violation('gex-neighbour:notes-depend-on-the-other-method:%s' % ('first' if order == 0 else 'second'),
                         {'method': me, 'its_modulus': s_bits, 'other_method_modulus': t_bits, 'fmt': fmt, 'alone': str(a)[:300], 'beside_the_other': str(b)[:300]})
    st.sample({'gex_neighbours': list(chunk[0])}, cap=3)


def size_tasks(tier):
    out = []
    for bits in SIZE_SWEEP:
        out.append((tuple(RSA_PLAIN), bits, 'ed25519', 256))
        for c in RSA_CERT:
            out.append(((c,), bits, 'ed25519', 256))
        out.append((tuple(RSA_CERT + RSA_PLAIN), bits, 'rsa', 4096))
        # the CA's own size swept, the certified key held at a size without a note
        out.append(((RSA_CERT[0], RSA_PLAIN[2]), 3072, 'rsa', bits))
        if tier != 'quick':
            for c in RSA_CERT:
                out.append(((c,), 4096, 'rsa', bits))
                out.append(((c,), bits, 'rsa', bits))
    for ki in range(1, len(SIZE_KEXLISTS)):
        for bits in (1024, 2047, 2048, 3071, 3072, 4096):
            out.append((tuple(RSA_PLAIN), bits, 'ed25519', 256, ki))
            out.append(((RSA_CERT[0], RSA_PLAIN[2]), bits, 'rsa', 2048 if bits >= 3072 else 4096, ki))
    return out


def run(tier, seed):
    t0 = time.time()
    ts = tasks(tier)
    ctxs = contexts(tier)
    st = par.pmap(work, ts, extra=(ctxs,), chunk=4)
    gf = [(sz, style, b) for sz in ((2048,), (2048, 3072), (1024, 4096), (3072,)) for style in (peer.OPENSSH, peer.STRICT)
          for b in (b'SSH-2.0-OpenSSH_8.9p1', b'SSH-2.0-dropbear_2022.83')]
    par.pmap(work_gex_faults, gf, stats=st, chunk=1)
    par.pmap(work_sizes, size_tasks(tier), stats=st, chunk=4)
    from props import faultinv as _FI
    par.pmap(_FI.work, _FI.tasks(), extra=(('unaffected',),), stats=st, chunk=6)
    par.pmap(work_bystanders, bystander_tasks(), stats=st, chunk=1)
    import itertools
    hist = [(k, f) for n in ((2,) if tier == 'quick' else (2, 3)) for k in itertools.product(sorted(HIST), repeat=n) for f in ('text', 'json')]
    par.pmap(work_history, hist, stats=st, chunk=4)
    from props import delivery as _DL
    par.pmap(_DL.work, _DL.tasks(tier), extra=(('notes',),), stats=st, chunk=12)
    from props import decor as _DC
    par.pmap(_DC.work, _DC.tasks(tier), extra=(('rating',),), stats=st, chunk=8)
    par.pmap(work_lookup_lists, lookup_list_tasks(), stats=st, chunk=24)
    par.pmap(work_gex_neighbours, gex_neighbour_tasks(), stats=st, chunk=8)
    # comma lists through --lookup
    for cat in ('kex', 'key', 'enc', 'mac'):
        names = H.db_names(cat)[:6]
        res = H.lookup(names)
        rep = report.TextReport(res.stdout)
        st.execution(None, outcome=('lookup-list', res.status), root=('lookup-list', cat))
        if sorted(rep.names(cat)) != sorted(n for n in names):
            st.violation('lookup-list-incomplete:%s' % cat, {'asked': names, 'got': rep.names(cat)})
    vcases = []
    for (cat, dbname, inst) in H.pick(ts, seed, 20 if tier == 'quick' else 100):
        ctx = ctxs[len(vcases) % len(ctxs)]
        pos = ('alone', 'first', 'middle', 'last')[len(vcases) % 4]
        lists = build_lists(cat, inst, pos, ctx, 'server')
        small = ctx[3]
        vcases.append({'label': '%s %s %s' % (cat, inst, ctx), 'opts': ['-n'] + (['-j'] if len(vcases) % 2 else []),
                       'make': (lambda lists=lists, small=small: peer.Server(kex=lists['kex'], key=lists['key'], enc=lists['enc'], mac=lists['mac'], banner=b'SSH-2.0-dropbear_2022.83',
                                host_keys=peer.standard_host_keys(lists['key'], rsa_bits=1024 if small else 3072, ca='rsa', ca_bits=1024 if small else 3072),
                                gex=peer.GexPolicy([1024], peer.STRICT) if small else None))})
    validated = H.validate_traces(vcases, st)
    return evidence.finish(
        PID, tier, seed, st, t0,
        rule='every database name (gss-* entries instantiated with 3 base64 suffixes) and one unknown name per category x position '
             '{alone, first, middle, last} x %d neighbour contexts (marker x CBC x ETM, plus contexts whose neighbours earn measured-size notes: '
             '1024-bit RSA key, certificate with 1024-bit CA, 1024-bit GEX modulus) x role x {text,json}, plus --lookup of every name; each group-exchange method beside the other one served from a different modulus (or none), both orders: same size and notes as alone; --lookup of every ordered pair and triple over 8 names of all categories (unknown, gss, marker among them) against the single-name lookups; '
             'RSA-family names (plain and certificate) x %d key sizes around every threshold (not multiples of 8/16 included) x CA kinds: size notes as the documented thresholds give for the key presented; '
             'every database name as a bystander next to every name that earns a note during the audit (each CBC / ChaCha cipher, each ETM MAC, small RSA keys, small GEX moduli); '
             'histories: every ordered pair (thorough: triple) of four servers sharing names in ONE -T invocation, each name rated as when its target is audited alone; '
             'non-trivial = distinct (category, name, documented context, position, role, format)' % (len(ctxs), len(SIZE_SWEEP)),
        assumptions=['documented context = Terrapin context (refmodels/terrapin.py) and measured sizes (held fixed here)',
                     'notes compared as multisets'],
        exhaustive=True, traces_validated=validated, extra={'names': len(ts)})


def replay(path):
    v = json.load(open(path))
    t = v['detail']['task']
    st = evidence.Stats()
    check_task((t[0], t[1], t[2]), st, contexts('thorough'))
    for x in st.violations:
        print('replayed:', x['sig'], json.dumps(x['detail'])[:800])
    return 1 if st.violations else 0
