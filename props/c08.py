"""C08 - one bad target never costs the others their results.

Target lists mixing healthy archetypes with every failure archetype in every position, x threads x {text, -j},
under the gate scheduler.  Oracle: one block per listed target, labelled; exit status = highest-ranked per-target
status (per-target statuses taken from fresh single-target runs); -j stdout is one JSON array with one element per target.
"""
import itertools
import json
import time

from mc import evidence, harness as H, par, report, sched
from props import multitarget as MT

PID = 'C08'
HEALTHY = ['CLEAN', 'TERR', 'RSA1024']
FAILING = list(MT.FAILING)
RANK = {0: 0, 2: 1, 3: 2, 1: 3, 255: 4}


def expected_status(archs):
    sts = []
    for i, a in enumerate(archs):
        r = MT.run_single(a, i, 'text', None, via_targets_file=False)
        sts.append(r.status)
    worst = max(sts, key=lambda s: RANK.get(s, 4))
    return worst, sts


def check_run(archs, threads, fmt, res, s):
    probs = []
    n = len(archs)
    bad = [a for a in archs if a in MT.FAILING]
    tag = '+'.join(sorted(set(bad))) or 'none'
    if res.hang:
        return [('hang:%s' % tag, res.hang)]
    if res.exc:
        return [('escaped-exception:%s:%s' % (res.exc.split(':')[0], tag), res.exc)]
    exp, sts = expected_status(archs)
    if res.status != exp:
        probs.append(('exit-status:%s:got-%s-expected-%s' % (tag, res.status, exp), 'per-target statuses %s' % sts))
    if fmt == 'json':
        try:
            doc = json.loads(res.stdout)
        except ValueError as e:
            probs.append(('json-not-one-document:%s' % tag, '%s; stdout=%r' % (e, res.stdout[:300])))
            return probs
        if not isinstance(doc, list) or len(doc) != n:
            probs.append(('json-array-length:%s' % tag, 'expected %d elements, got %r' % (n, len(doc) if isinstance(doc, list) else type(doc).__name__)))
            return probs
        # each element is its target's report or an error naming the failure: a target whose audit ended with a connection error has an
        # element that says so, a healthy one has its algorithm lists
        errors = [e for e in doc if isinstance(e, dict) and e.get('error')]
        reports = [e for e in doc if isinstance(e, dict) and not e.get('error') and (e.get('kex') or e.get('enc') or e.get('key'))]
        nfail = sum(1 for s in sts if s == 1)
        if len(errors) != nfail or len(reports) != n - nfail:
            odd = [sorted(e)[:6] if isinstance(e, dict) else type(e).__name__ for e in doc if e not in errors and e not in reports]
            probs.append(('json-element-neither-report-nor-error:%s' % tag, 'targets ending with a connection error: %d, elements carrying an error: %d, elements carrying a report: %d of %d; '
                          'keys of the other elements: %s' % (nfail, len(errors), len(reports), n, odd[:3])))
        return probs
    blocks = MT.split_text(res.stdout)
    if len(blocks) != n:
        probs.append(('block-count:%s' % tag, 'expected %d blocks, got %d; stdout tail %r' % (n, len(blocks), res.stdout[-300:])))
        return probs
    # the blocks are, as a multiset, the blocks each target yields when it is the only line of the targets file
    alone = []
    for i, a in enumerate(archs):
        sb = MT.split_text(MT.run_single(a, i, 'text', None, via_targets_file=True).stdout)
        alone.append(sb[0] if len(sb) == 1 else None)
    if None not in alone and sorted(alone) != sorted(blocks):
        odd = [b for b in blocks if b not in alone]
        probs.append(('block-differs-from-single-target-run:%s' % tag, 'blocks not produced by any target alone: %r' % [b[:400] for b in odd[:2]]))
    seen = {}
    for b in blocks:
        pos = MT.block_host(b)
        if pos is not None and pos not in seen:
            seen[pos] = b
    # error blocks need not name their target (the statement only asks for one block per target); healthy ones must be there
    missing = [archs[i] for i in range(n) if i not in seen and archs[i] in MT.HEALTHY]
    if missing:
        probs.append(('healthy-target-without-block:%s' % tag, 'blocks: %r' % [b[:80] for b in blocks]))
    if any(b.strip() == '' for b in blocks):
        probs.append(('empty-block:%s' % tag, 'blocks: %r' % [b[:80] for b in blocks]))
    for pos, b in seen.items():
        if archs[pos] in MT.HEALTHY:
            rep = report.TextReport(b)
            if not rep.has_alg_report():
                probs.append(('healthy-target-lost-report:%s' % tag, b[:300]))
    return probs


def explore_case(case, st):
    archs, threads, fmt, bound, gates, max_execs = case

    def once(prefix):
        res, s = MT.run_multi(list(archs), threads, fmt, prefix, gates)
        return (res, s), s.points
    nsched = 0
    for prefix, (res, s), points in sched.explore_schedules(once, bound, max_execs):
        nsched += 1
        order = tuple(l[0] for l in s.completion_order)
        st.execution(res.world, outcome=(res.status, len(archs), fmt), root=(case[:3], tuple(prefix)),
                     nontrivial=(archs, threads, fmt, order))
        st.extra['schedules'] += 1
        for sig, detail in check_run(list(archs), threads, fmt, res, s):
            st.violation(sig, {'archs': list(archs), 'threads': threads, 'fmt': fmt, 'schedule': list(prefix), 'gates': list(gates),
                               'what': detail, 'status': res.status})
    if max_execs is not None and nsched >= max_execs:
        st.caps.append('schedule cap %d hit for %s' % (max_execs, list(archs)))
    if len(st.samples) < 12 and nsched > 1:
        st.sample({'targets': list(archs), 'threads': threads, 'format': fmt, 'schedules_explored': nsched})


# ---- target-file syntax failures that involve no peer at all: out-of-range port, blank / whitespace lines
def syntax_cases():
    out = []
    for bad in ('host1.example:0', 'host1.example:65536', 'host1.example:99999', 'host1.example:22x', 'host1.example:ssh', '# note: staging', '', '   ', '\t'):
        for pos in (0, 1):
            for fmt in ('text', 'json'):
                out.append((bad, pos, fmt))
    return out


def check_syntax_case(case, st):
    from mc import runner
    bad, pos, fmt = case
    lines = ['host0.example']
    lines.insert(pos, bad)
    w = MT.build_world(['CLEAN'])
    tf = MT.targets_file(lines)
    argv = ['-n', '--skip-rate-test'] + (['-j'] if fmt == 'json' else []) + ['-T', tf, '--threads', '2']
    res = runner.run_cli(argv, w)
    st.execution(res.world, outcome=('syntax', res.status), root=('syntax', case), nontrivial=('syntax', case))
    blank = bad.strip() == ''
    ok_report = ('aes256-gcm@openssh.com' in res.stdout)
    kind = 'blank-line' if blank else 'port-out-of-range' if bad.rsplit(':', 1)[-1].isdigit() else 'unparsable-entry'
    if not ok_report:
        st.violation('healthy-target-lost-report:%s' % kind, {'lines': lines, 'fmt': fmt, 'status': res.status, 'stdout_tail': res.stdout[-400:]})
    if blank:
        exp = MT.run_single('CLEAN', 0, fmt, None).status
        if res.status != exp:
            st.violation('exit-status:%s:got-%s-expected-%s' % (kind, res.status, exp), {'lines': lines, 'fmt': fmt, 'stdout_tail': res.stdout[-300:]})
        if fmt == 'json':
            try:
                doc = json.loads(res.stdout)
                if not isinstance(doc, list) or len(doc) != 1:
                    st.violation('json-array-length:%s' % kind, {'lines': lines, 'got': len(doc)})
            except ValueError as e:
                st.violation('json-not-one-document:%s' % kind, {'lines': lines, 'stdout': res.stdout[:300]})
        else:
            if len(MT.split_text(res.stdout)) != 1:
                st.violation('block-count:%s' % kind, {'lines': lines, 'stdout_tail': res.stdout[-300:]})
    else:
        if res.status == 0 or res.status not in (0, 1, 2, 3, 255):
            st.violation('exit-status:%s:got-%s' % (kind, res.status), {'lines': lines, 'fmt': fmt})
        if fmt == 'json':
            try:
                doc = json.loads(res.stdout)
                if not isinstance(doc, list) or len(doc) != 2:
                    st.violation('json-array-length:%s' % kind, {'lines': lines, 'got': len(doc)})
            except ValueError as e:
                st.violation('json-not-one-document:%s' % kind, {'lines': lines, 'stdout': res.stdout[:300]})


# ---- the failing target written in each documented form (the forms only matter on the error paths, which format host and port)
FORMS = {
    '[v6]:port': lambda i: ('[2001:db8::%d]:2222' % (i + 1), '2001:db8::%d' % (i + 1), 2222),
    '[v6]': lambda i: ('[2001:db8::%d]' % (i + 1), '2001:db8::%d' % (i + 1), 22),
    'v6': lambda i: ('2001:db8::%d' % (i + 1), '2001:db8::%d' % (i + 1), 22),
    'v4:port': lambda i: ('10.7.%d.1:2222' % i, '10.7.%d.1' % i, 2222),
    'v4': lambda i: ('10.7.%d.1' % i, '10.7.%d.1' % i, 22),
    'name:port': lambda i: ('named%d.example:2222' % i, 'named%d.example' % i, 2222),
}


def form_cases():
    out = []
    for f in FAILING:
        for form in FORMS:
            if f == 'UNRESOLVABLE' and not form.startswith('name'):
                continue
            for pos in (0, 1):
                for fmt in ('text', 'json'):
                    out.append(('form', f, form, pos, fmt))
    # a port outside 1-65535 inside a bracketed target: an error for that target only
    for form_line in ('[2001:db8::1]:70000', '[2001:db8::1]:0'):
        for pos in (0, 1):
            for fmt in ('text', 'json'):
                out.append(('form', 'BADPORT', form_line, pos, fmt))
    return out


def check_form_case(case, st):
    import socket as _s
    from mc import runner, vnet
    _t, f, form, pos, fmt = case
    servers, resolver, faults = {}, {}, {}
    if f == 'BADPORT':
        line, exp_bad = form, None
    else:
        line, host, port = FORMS[form](pos)
        exp_bad = MT.run_single(f, pos, 'text', None, via_targets_file=False).status
        if f == 'UNRESOLVABLE':
            resolver[host] = _s.gaierror(-2, 'Name or service not known')
        else:
            srv = MT.ALL[f]('bad')
            faults.update({('bad',) + k[1:]: v for k, v in getattr(MT.ALL[f]('bad'), '_planned', {}).items()})
            ip = host if not host.startswith('named') else '10.8.%d.1' % pos
            if host.startswith('named'):
                resolver[host] = [(int(_s.AF_INET), ip)]
            servers[(ip, port)] = srv
    good_host = MT.host_label(1 - pos)
    servers[('10.0.%d.1' % (1 - pos), 22)] = MT.ALL['CLEAN'](good_host)
    resolver[good_host] = [(int(_s.AF_INET), '10.0.%d.1' % (1 - pos))]
    lines = [good_host]
    lines.insert(pos, line)
    w = vnet.World(servers=servers, resolver=resolver, faults=faults)
    res = runner.run_cli(['-n', '--skip-rate-test'] + (['-j'] if fmt == 'json' else []) + ['-T', MT.targets_file(lines), '--threads', '2'], w)
    st.execution(res.world, outcome=('form', res.status, fmt), root=case, nontrivial=case)
    d = {'targets': lines, 'archetype': f, 'fmt': fmt, 'status': res.status, 'stdout_tail': res.stdout[-400:], 'stderr_tail': res.stderr[-300:]}
    tag = '%s:%s' % (f if f in ('BADPORT', 'UNRESOLVABLE') else 'failing-target', form if f != 'BADPORT' else 'bracketed')
    if res.hang or res.exc:
        st.violation('target-form:hang-or-escaped-exception:%s' % tag, dict(d, hang=res.hang, exc=res.exc))
        return
    good = MT.run_single('CLEAN', 1 - pos, 'text', None, via_targets_file=False).status
    if exp_bad is not None:
        exp = max((exp_bad, good), key=lambda x: RANK.get(x, 4))
        if res.status != exp:
            st.violation('target-form:exit-status:%s' % tag, dict(d, expected=exp))
    elif res.status in (0, 2, 3) or res.status not in (1, 255):
        st.violation('target-form:exit-status:%s' % tag, dict(d, expected='1 or 255'))
    if 'aes256-gcm@openssh.com' not in res.stdout:
        st.violation('target-form:healthy-target-lost-report:%s' % tag, d)
    if fmt == 'json':
        try:
            doc = json.loads(res.stdout)
            if not isinstance(doc, list) or len(doc) != 2:
                st.violation('target-form:json-array-length:%s' % tag, d)
        except ValueError:
            st.violation('target-form:json-not-one-document:%s' % tag, d)
    elif len(MT.split_text(res.stdout)) != 2:
        st.violation('target-form:block-count:%s' % tag, d)


# ---- the other audit modes over a targets file: policy audits (a built-in policy by name, a policy file), policy creation is single-target only
def mode_cases():
    out = []
    for pol in ('builtin', 'file'):
        for archs in (('CLEAN', 'TERR'), ('REFUSED', 'CLEAN'), ('CLEAN', 'BADBLOCK', 'RSA2048'), ('UNRESOLVABLE',), ('CLOSEAFTERBANNER', 'TERR')):
            for threads in (1, 2):
                for fmt in ('text', 'json'):
                    out.append(('mode', pol, archs, threads, fmt))
    return out


def check_mode_case(case, st):
    from mc import runner
    _k, pol, archs, threads, fmt = case
    if pol == 'builtin':
        BP = runner.M['builtin_policies'].BUILTIN_POLICIES
        policy = sorted(n for n in BP if BP[n]['server_policy'])[-1]
    else:
        policy = H.tmp_path('c08-policy.txt')
        with open(policy, 'w') as f:
            f.write('name = "c08"\nversion = 1\nallow_larger_keys = true\nciphers = aes256-gcm@openssh.com\n')
    res, s = MT.run_multi(list(archs), threads, fmt, (), ('connect',), policy)
    st.execution(res.world, outcome=('mode', pol, res.status, fmt), root=case, nontrivial=case)
    d = {'targets': list(archs), 'policy': pol, 'threads': threads, 'fmt': fmt, 'status': res.status}
    n = len(archs)
    if res.hang or res.exc or res.status not in (0, 1, 3):
        st.violation('policy-mode:%s' % ('hang-or-escaped-exception' if (res.hang or res.exc) else 'exit-status-%s' % res.status), dict(d, hang=res.hang, exc=res.exc, tail=(res.stdout + res.stderr)[-300:]))
        return
    if any(a in MT.FAILING for a in archs) and res.status != 1:
        st.violation('policy-mode:exit-status-%s-with-a-failing-target' % res.status, d)
    if fmt == 'json':
        try:
            doc = json.loads(res.stdout)
        except ValueError:
            st.violation('policy-mode:json-not-one-document', dict(d, stdout_tail=res.stdout[-200:]))
            return
        if not isinstance(doc, list) or len(doc) != n:
            st.violation('policy-mode:json-array-length', dict(d, got=len(doc) if isinstance(doc, list) else None))
    elif len(MT.split_text(res.stdout)) != n:
        st.violation('policy-mode:block-count', dict(d, got=len(MT.split_text(res.stdout)), stdout_tail=res.stdout[-200:]))


# ---- the same structure under every presentation option (and pairs of them): with -j / -jj the whole of stdout is one JSON array
# with one element per target whatever else was asked for (-v, -b, -l ...); in text mode there is one block per target
# (-d, the debugging switch, writes its trace to stdout in every mode, JSON included, on the unchanged tree: a developer's option outside the
# statement's "text and JSON"; observed, not enumerated - DESIGN.md 7.3, round 23)
OPTION_SETS = [('-v',), ('-b',), ('-l', 'warn'), ('-l', 'fail'), ('-v', '-b'), ('-v', '-l', 'fail'), ('-b', '-l', 'warn'), ('-v', '-l', 'warn', '-b')]


def option_cases():
    out = []
    for archs in (('CLEAN', 'REFUSED'), ('REFUSED', 'TERR'), ('CLEAN', 'BADBLOCK', 'RSA2048'), ('UNRESOLVABLE', 'CLEAN'), ('CLOSEAFTERBANNER',), ('TERR',)):
        for threads in (1, 2):
            for fmt in ('text', 'json', 'jj'):
                for extra in OPTION_SETS:
                    if fmt == 'text' and '-d' in extra:
                        continue        # debugging output in text mode is free-form
                    out.append(('options', archs, threads, fmt, extra))
    return out


def check_option_case(case, st):
    _k, archs, threads, fmt, extra = case
    res, s = MT.run_multi(list(archs), threads, 'json' if fmt != 'text' else 'text', (), ('connect',), None, extra=tuple(extra) + (('-j',) if fmt == 'jj' else ()))
    st.execution(res.world, outcome=('options', fmt, res.status), root=case, nontrivial=case)
    d = {'targets': list(archs), 'threads': threads, 'fmt': fmt, 'options': list(extra), 'status': res.status}
    n = len(archs)
    if res.hang or res.exc or res.status not in (0, 1, 2, 3):
        st.violation('options:%s' % ('hang-or-escaped-exception' if (res.hang or res.exc) else 'exit-status-%s' % res.status), dict(d, hang=res.hang, exc=res.exc, tail=(res.stdout + res.stderr)[-300:]))
        return
    ref, _s = MT.run_multi(list(archs), threads, 'json' if fmt != 'text' else 'text', (), ('connect',), None)
    if res.status != ref.status:
        st.violation('options:exit-status-changes-with-presentation-options', dict(d, without_them=ref.status))
    if fmt != 'text':
        try:
            doc = json.loads(res.stdout)
        except ValueError:
            st.violation('options:json-not-one-document:%s' % ' '.join(extra), dict(d, stdout_head=res.stdout[:200]))
            return
        if not isinstance(doc, list) or len(doc) != n:
            st.violation('options:json-array-length', dict(d, got=len(doc) if isinstance(doc, list) else None))
    elif '-l' not in extra and len(MT.split_text(res.stdout)) != n:
        st.violation('options:block-count', dict(d, got=len(MT.split_text(res.stdout)), stdout_tail=res.stdout[-200:]))


# ---- long runs: many slow targets on few workers (each silent target costs one timeout; the run lasts far longer than any single audit)
def slow_cases():
    out = []
    for n_silent, extra in ((70, ()), (69, ('CLEAN',)), (40, ('TERR', 'REFUSED'))):
        for threads in (1, 2):
            for fmt in ('text', 'json'):
                out.append(('slow', n_silent, extra, threads, fmt))
    return out


def check_slow_case(case, st):
    _k, n_silent, extra, threads, fmt = case
    archs = list(extra[:1]) + ['SILENT'] * n_silent + list(extra[1:])
    res, s = MT.run_multi(archs, threads, fmt, (), ('connect',))
    st.execution(res.world, outcome=('slow', res.status, fmt, threads), root=case, nontrivial=case)
    d = {'targets': '%d silent + %s' % (n_silent, list(extra)), 'threads': threads, 'fmt': fmt, 'status': res.status, 'virtual_seconds': round(res.clock, 1)}
    if res.hang or res.exc:
        st.violation('long-run:hang-or-escaped-exception', dict(d, hang=res.hang, exc=res.exc, tail=(res.stdout + res.stderr)[-200:]))
        return
    if res.status != 1:
        st.violation('long-run:exit-status-%s-expected-1' % res.status, dict(d, tail=(res.stdout + res.stderr)[-200:]))
    if fmt == 'json':
        try:
            doc = json.loads(res.stdout)
            if not isinstance(doc, list) or len(doc) != len(archs):
                st.violation('long-run:json-array-length', dict(d, got=len(doc) if isinstance(doc, list) else None))
        except ValueError:
            st.violation('long-run:json-not-one-document', dict(d, stdout_tail=res.stdout[-200:]))
    elif len(MT.split_text(res.stdout)) != len(archs):
        st.violation('long-run:block-count', dict(d, got=len(MT.split_text(res.stdout))))


# ---- big targets files (several hundred entries, tens of kilobytes; names of 20 and of 200 characters): every line is read, every entry
# gets its result, and the status is that of the worst entry wherever it stands
def bigfile_cases():
    out = []
    for n, namelen in ((300, 20), (450, 20), (700, 20), (40, 200), (45, 200), (120, 200)):
        for last in ('CLEAN', 'REFUSED'):
            for fmt in ('text', 'json'):
                out.append(('bigfile', n, namelen, last, fmt))
    return out


def check_bigfile_case(case, st):
    import socket as _s
    from mc import runner, vnet
    _k, n, namelen, last, fmt = case
    servers, resolver, lines = {}, {}, []
    for i in range(n):
        # all entries but the last resolve to nothing (cheap), the last is a healthy server or refuses the connection
        h = ('t%04d-' % i + 'x' * 300)[:namelen - 8] + '.example'
        lines.append(h)
        if i < n - 1:
            resolver[h] = _s.gaierror(-2, 'Name or service not known')
        else:
            ip = '10.7.7.1'
            resolver[h] = [(int(_s.AF_INET), ip)]
            if last == 'CLEAN':
                servers[(ip, 22)] = MT.ALL['CLEAN'](h)
    w = vnet.World(servers=servers, resolver=resolver, budget=400000)
    res, _sc = sched.run_scheduled(runner.run_cli, ['-n', '--skip-rate-test'] + (['-j'] if fmt == 'json' else []) + ['-T', MT.targets_file(lines), '--threads', '2'], w, (), ('connect',))
    st.execution(res.world, outcome=('bigfile', res.status, fmt), root=case, nontrivial=case)
    d = {'entries': n, 'name_length': namelen, 'file_bytes': sum(len(l) + 1 for l in lines), 'last_entry': last, 'fmt': fmt, 'status': res.status}
    if res.hang or res.exc:
        st.violation('big-targets-file:hang-or-escaped-exception', dict(d, hang=res.hang, exc=res.exc))
        return
    asked = len(set(r[0] for r in w.resolves))
    if asked != n:
        st.violation('big-targets-file:entries-never-looked-up', dict(d, names_resolved=asked))
    if fmt == 'json':
        try:
            doc = json.loads(res.stdout)
            got = len(doc) if isinstance(doc, list) else None
        except ValueError:
            got = None
    else:
        got = len(MT.split_text(res.stdout))
    if got != n:
        st.violation('big-targets-file:result-count', dict(d, results=got))
    if res.status != 1:
        st.violation('big-targets-file:exit-status', dict(d, expected=1))
    if last == 'CLEAN' and 'aes256-gcm@openssh.com' not in res.stdout:
        st.violation('big-targets-file:last-entry-lost-its-report', d)


# ---- a target that sends part of its identification string late and then stays silent, next to healthy targets: it costs one timeout
def partial_cases():
    out = []
    for x in sorted(MT.FAILING_EXTRA):
        for archs in ((x, 'CLEAN'), ('TERR', x, 'CLEAN'), (x, x)):
            for threads in (1, 2):
                for fmt in ('text', 'json'):
                    out.append(('partial', archs, threads, fmt))
    return out


def check_partial_case(case, st):
    _k, archs, threads, fmt = case
    res, s = MT.run_multi(list(archs), threads, fmt, (), ('connect',))
    st.execution(res.world, outcome=('partial', res.status, fmt, threads), root=case, nontrivial=case)
    for sig, detail in check_run(list(archs), threads, fmt, res, s):
        st.violation('partial-then-silent:' + sig.replace(':none', ''), {'archs': list(archs), 'threads': threads, 'fmt': fmt, 'what': detail, 'status': res.status,
                                                                         'virtual_seconds': round(res.clock, 1)})
    if not res.hang and res.clock > 16.0 * len(archs):
        st.violation('partial-then-silent:target-costs-more-than-its-timeouts', {'archs': list(archs), 'threads': threads, 'virtual_seconds': round(res.clock, 1)})


# ---- several services of ONE host (same name, different ports), healthy and failing ones mixed: each entry is answered by its own port
def samehost_cases():
    out = []
    for f in FAILING:
        if f == 'UNRESOLVABLE':
            continue
        for order in (0, 1):
            for fmt in ('text', 'json'):
                for threads in (1, 2):
                    out.append(('samehost', f, order, fmt, threads))
    return out


def check_samehost_case(case, st):
    import socket as _s
    from mc import runner, vnet
    _t, f, order, fmt, threads = case
    host, ip = 'svc.example', '10.8.9.1'
    bad = MT.ALL[f]('bad')
    faults = {('bad',) + k[1:]: v for k, v in getattr(MT.ALL[f]('bad'), '_planned', {}).items()}
    good = MT.ALL['CLEAN']('good')
    # the healthy service on the default port and the failing one on 2222, or the other way round
    gp, bp = (22, 2222) if order == 0 else (2222, 22)
    w = vnet.World(servers={(ip, gp): good, (ip, bp): bad}, resolver={host: [(int(_s.AF_INET), ip)]}, faults=faults)
    line = lambda p: host if p == 22 else '%s:%d' % (host, p)
    lines = [line(gp), line(bp)] if order == 0 else [line(bp), line(gp)]
    res, _s2 = sched.run_scheduled(runner.run_cli, ['-n', '--skip-rate-test'] + (['-j'] if fmt == 'json' else []) + ['-T', MT.targets_file(lines), '--threads', str(threads)], w, (), ('connect',))
    st.execution(res.world, outcome=('samehost', res.status, fmt), root=case, nontrivial=case)
    d = {'targets': lines, 'failing': f, 'fmt': fmt, 'threads': threads, 'status': res.status, 'stdout_tail': res.stdout[-300:]}
    if res.hang or res.exc:
        st.violation('same-host:hang-or-escaped-exception', dict(d, hang=res.hang, exc=res.exc))
        return
    exp_bad = MT.run_single(f, 0, 'text', None, via_targets_file=False).status
    exp_good = MT.run_single('CLEAN', 1, 'text', None, via_targets_file=False).status
    exp = max((exp_bad, exp_good), key=lambda x: RANK.get(x, 4))
    if res.status != exp:
        st.violation('same-host:exit-status:got-%s-expected-%s' % (res.status, exp), d)
    if not good.records or (f not in ('REFUSED', 'CONNTIMEOUT') and not bad.records):
        st.violation('same-host:a-listed-service-was-never-contacted', dict(d, good_connections=len(good.records), failing_connections=len(bad.records)))
    if fmt == 'json':
        try:
            doc = json.loads(res.stdout)
        except ValueError:
            st.violation('same-host:json-not-one-document', d)
            return
        if not isinstance(doc, list) or len(doc) != 2:
            st.violation('same-host:json-array-length', d)
            return
        mine = [e for e in doc if isinstance(e, dict) and str(e.get('target', '')).endswith(':%d' % gp)]
        if len(mine) != 1 or 'enc' not in mine[0] or [x['algorithm'] for x in mine[0]['enc']] != ['aes256-gcm@openssh.com']:
            st.violation('same-host:healthy-service-lost-or-swapped-report', d)
    else:
        blocks = MT.split_text(res.stdout)
        if len(blocks) != 2:
            st.violation('same-host:block-count', d)
            return
        want_label = '(gen) target: %s' % (host if gp == 22 else '%s:%d' % (host, gp))
        mine = [b for b in blocks if any(l.rstrip() in (want_label, want_label + ':22') or l.startswith(want_label) for l in b.split('\n'))]
        if not any('aes256-gcm@openssh.com' in b for b in mine):
            st.violation('same-host:healthy-service-lost-or-swapped-report', d)


# ---- the same target listed more than once: every *listed* target yields a result block
def dup_cases():
    out = []
    for lines in (['host0.example', 'host0.example'], ['host0.example', 'host1.example', 'host0.example'], ['host1.example', 'host1.example'],
                  ['host0.example', ' host0.example ', 'host0.example:22'], ['nosuch.example', 'host0.example', 'nosuch.example']):
        for fmt in ('text', 'json'):
            for threads in (1, 3):
                out.append(('dup', tuple(lines), fmt, threads))
    return out


def check_dup_case(case, st):
    from mc import runner
    _t, lines, fmt, threads = case
    w = MT.build_world(['CLEAN', 'REFUSED'])
    argv = ['-n', '--skip-rate-test'] + (['-j'] if fmt == 'json' else []) + ['-T', MT.targets_file(list(lines)), '--threads', str(threads)]
    res = runner.run_cli(argv, w)
    st.execution(res.world, outcome=('dup', res.status, fmt), root=case, nontrivial=case)
    d = {'lines': list(lines), 'fmt': fmt, 'threads': threads, 'status': res.status, 'stdout_tail': res.stdout[-300:]}
    if res.hang or res.exc:
        st.violation('repeated-target:hang-or-escaped-exception', dict(d, hang=res.hang, exc=res.exc))
        return
    n = len(lines)
    if fmt == 'json':
        try:
            doc = json.loads(res.stdout)
            if not isinstance(doc, list) or len(doc) != n:
                st.violation('repeated-target:json-array-length', dict(d, got=len(doc) if isinstance(doc, list) else None, listed=n))
        except ValueError:
            st.violation('repeated-target:json-not-one-document', d)
    elif len(MT.split_text(res.stdout)) != n:
        st.violation('repeated-target:block-count', dict(d, got=len(MT.split_text(res.stdout)), listed=n))
    bad = any('host1' in l or 'nosuch' in l for l in lines)
    good = any('host0' in l for l in lines)
    exp = 1 if bad else MT.run_single('CLEAN', 0, 'text', None, via_targets_file=False).status
    if res.status != exp:
        st.violation('repeated-target:exit-status', dict(d, expected=exp))


# ---- JSON on a stdout that can only carry ASCII (LANG=C, PYTHONIOENCODING=ascii) with targets and algorithm names that are not ASCII
def ascii_cases():
    return [('ascii', threads, order, opt) for threads in (1, 2) for order in (0, 1) for opt in ('-j', '-jj')]


def check_ascii_case(case, st):
    import socket as _s
    from mc import runner, vnet, peer as P
    _t, threads, order, opt = case
    odd = P.Server(label='odd', kex=['curve25519-sha256'], key=['ssh-ed25519'], enc=['aes256-ctr', 'aes256-ctr@\u0433\u043e\u0441\u0442.example'], mac=['hmac-sha2-256'])
    servers = {('10.0.0.1', 22): MT.ALL['CLEAN']('c'), ('10.0.1.1', 22): odd}
    resolver = {'host0.example': [(int(_s.AF_INET), '10.0.0.1')], 'b\u00fccher.example': [(int(_s.AF_INET), '10.0.1.1')], 'nosuch.example': _s.gaierror(-2, 'Name or service not known')}
    lines = ['host0.example', 'b\u00fccher.example', 'nosuch.example']
    if order:
        lines.reverse()
    w = vnet.World(servers=servers, resolver=resolver)
    res = runner.run_cli(['-n', '--skip-rate-test', opt, '-T', MT.targets_file(lines), '--threads', str(threads)], w, stdout_mode='ascii')
    st.execution(res.world, outcome=('ascii', res.status, opt), root=case, nontrivial=case)
    d = {'lines': lines, 'threads': threads, 'option': opt, 'status': res.status, 'exc': res.exc, 'stdout_tail': res.stdout[-300:], 'stderr_tail': res.stderr[-300:]}
    if res.hang or res.exc:
        st.violation('ascii-stdout:hang-or-escaped-exception', d)
        return
    try:
        doc = json.loads(res.stdout)
        if not isinstance(doc, list) or len(doc) != 3:
            st.violation('ascii-stdout:json-array-length', d)
    except ValueError:
        st.violation('ascii-stdout:json-not-one-document', d)
    if res.status != 1:
        st.violation('ascii-stdout:exit-status', dict(d, expected=1))


# ---- the connection-rate check switched on (it is per target and takes an early exit for targets without any Diffie-Hellman-style key
# exchange): lists mixing such targets with ordinary and failing ones still end, with one result per target
def rate_cases():
    out = []
    for others in (('TERR',), ('GEX4096',), ('REFUSED', 'TERR'), ('TERR', 'BADBLOCK'), ('PQONLY',), ('CLEAN', 'RSA2048')):
        for pos in range(len(others) + 1):
            archs = others[:pos] + ('PQONLY',) + others[pos:]
            for threads in (1, 2):
                for fmt in ('text', 'json'):
                    out.append(('rate', archs, threads, fmt))
    return out


def check_rate_case(case, st):
    _k, archs, threads, fmt = case
    res, s = MT.run_multi(list(archs), threads, fmt, (), ('connect',), rate=True)
    st.execution(res.world, outcome=('rate', res.status, fmt), root=case, nontrivial=case)
    d = {'archs': list(archs), 'threads': threads, 'fmt': fmt, 'status': res.status}
    n = len(archs)
    if res.hang or res.exc:
        st.violation('rate-check-on:%s' % ('hang-or-deadlock' if res.hang else 'escaped-exception'), dict(d, hang=res.hang, exc=res.exc, stdout_tail=res.stdout[-200:]))
        return
    if fmt == 'json':
        try:
            doc = json.loads(res.stdout)
        except ValueError as e:
            st.violation('rate-check-on:json-not-one-document', dict(d, error=str(e), stdout_tail=res.stdout[-200:]))
            return
        if not isinstance(doc, list) or len(doc) != n:
            st.violation('rate-check-on:json-array-length', dict(d, got=len(doc) if isinstance(doc, list) else None))
        return
    blocks = MT.split_text(res.stdout)
    if len(blocks) != n:
        st.violation('rate-check-on:block-count', dict(d, got=len(blocks), stdout_tail=res.stdout[-200:]))
        return
    for i, a in enumerate(archs):
        if a in MT.FAILING:
            continue
        mine = [b for b in blocks if MT.block_host(b) == i]
        if len(mine) != 1 or not report.TextReport(mine[0]).has_alg_report():
            st.violation('rate-check-on:healthy-target-lost-report', dict(d, target=a))


def work(chunk, st):
    for case in chunk:
        if case[0] == 'mode':
            check_mode_case(case, st)
        elif case[0] == 'options':
            check_option_case(case, st)
        elif case[0] == 'slow':
            check_slow_case(case, st)
        elif case[0] == 'partial':
            check_partial_case(case, st)
        elif case[0] == 'bigfile':
            check_bigfile_case(case, st)
        elif case[0] == 'rate':
            check_rate_case(case, st)
        elif case[0] == 'samehost':
            check_samehost_case(case, st)
        elif case[0] == 'ascii':
            check_ascii_case(case, st)
        elif case[0] == 'dup':
            check_dup_case(case, st)
        elif case[0] == 'form':
            check_form_case(case, st)
        elif len(case) == 3:
            check_syntax_case(case, st)
        else:
            explore_case(case, st)


def cases(tier):
    out = []
    conn = ('connect',)
    if tier == 'quick':
        for f in FAILING:
            for h in HEALTHY[:2]:
                for order in ((f, h), (h, f)):
                    for fmt in ('text', 'json'):
                        out.append((order, 1, fmt, 0, conn, None))
                        out.append((order, 2, fmt, 1, conn, None))
        for f in FAILING:
            out.append((('CLEAN', f, 'TERR'), 2, 'text', 1, conn, None))
    else:
        for f in FAILING:
            for h in HEALTHY:
                for order in ((f, h), (h, f)):
                    for fmt in ('text', 'json'):
                        out.append((order, 1, fmt, 0, conn, None))
                        out.append((order, 2, fmt, 2, conn, None))
        for f in FAILING:
            for h1, h2 in itertools.permutations(HEALTHY, 2):
                for perm in set(itertools.permutations((f, h1, h2))):
                    for th in (1, 2, 3):
                        out.append((perm, th, 'text', 2 if th > 1 else 0, conn, 3000))
                    out.append((perm, 2, 'json', 1, conn, None))
        for f1, f2 in itertools.product(FAILING, repeat=2):
            out.append(((f1, 'CLEAN', f2), 2, 'text', 1, conn, None))
            out.append(((f1, f2, 'CLEAN'), 2, 'json', 1, conn, None))
    # boundary: a targets file with exactly one entry is still a multi-target run
    for a in FAILING + HEALTHY:
        for fmt in ('text', 'json'):
            for th in (1, 2):
                out.append(((a,), th, fmt, 0, conn, None))
    out += syntax_cases()
    out += form_cases()
    out += dup_cases()
    out += ascii_cases()
    out += rate_cases()
    out += samehost_cases()
    out += slow_cases()
    out += partial_cases()
    out += bigfile_cases()
    out += mode_cases()
    out += option_cases()
    return out


def run(tier, seed):
    t0 = time.time()
    cs = cases(tier)
    st = par.pmap(work, cs, chunk=3)
    real_ok = [f for f in FAILING if f not in ('UNRESOLVABLE', 'REFUSED', 'CONNTIMEOUT')]    # the twin always accepts the connection
    mcases = []
    for i, f in enumerate(H.pick(real_ok, seed, 5 if tier == 'quick' else len(real_ok))):
        def mkbad(f=f):
            return MT.FAILING[f]('t0')
        proto = MT.FAILING[f]('t0')
        mkbad.faults = getattr(proto, '_planned', {})
        makers = [mkbad, (lambda: MT.HEALTHY['CLEAN']('t1'))]
        if i % 2:
            makers.reverse()
            # labels are positional: the failing server must keep the label its fault plan was written for
            def mkbad2(f=f):
                return MT.FAILING[f]('t1')
            mkbad2.faults = getattr(MT.FAILING[f]('t1'), '_planned', {})
            makers = [(lambda: MT.HEALTHY['CLEAN']('t0')), mkbad2]
        mcases.append((makers, ['-j'] if i % 3 == 0 else [], 1))
    validated = H.validate_multi_traces(mcases, st)
    return evidence.finish(
        PID, tier, seed, st, t0,
        rule='target lists of length 2 (quick; plus one triple per failure) / 2-3 (thorough) mixing healthy archetypes %s with every failure '
             'archetype %s in every position x threads x {text,-j}; DFS over gate schedules (preemption bound quick 1 / thorough 2); plus '
             'targets-file syntax failures (out-of-range port, blank/whitespace lines); the same target listed two or three times; every failing archetype written as [v6]:port, [v6], v6, v4:port, v4, name:port next to a healthy target; lists with the connection-rate check switched on around a target it has nothing to measure on; a healthy and a failing service of one host name on two ports; runs of 40-70 silent targets on 1-2 workers (virtual hours); policy audits (built-in policy by name, policy file) over five target lists; non-trivial = distinct (list, threads, format, completion order)' % (HEALTHY, FAILING),
        assumptions=['thread switches only at virtual I/O gates', 'per-target statuses come from fresh single-target runs in the same environment'],
        exhaustive=True, traces_validated=validated, extra={'cases': len(cs)})


def replay(path):
    v = json.load(open(path))
    d = v['detail']
    st = evidence.Stats()
    if 'lines' in d:
        print('syntax case; re-run the check to reproduce:', d)
        return 1
    res, s = MT.run_multi(d['archs'], d['threads'], d['fmt'], d['schedule'], tuple(d['gates']))
    probs = check_run(d['archs'], d['threads'], d['fmt'], res, s)
    print(res.stdout[-600:])
    for sig, det in probs:
        print('replayed:', sig, str(det)[:600])
    return 1 if probs else 0
