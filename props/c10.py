"""C10 - wire encoding/decoding are exact inverses and emitted packets are well framed."""
import itertools
import json
import struct
import time
import zlib

from mc import evidence, harness as H, par, peer as P, runner, vnet, wire

PID = 'C10'
ReadBuf = runner.M['readbuf'].ReadBuf
WriteBuf = runner.M['writebuf'].WriteBuf
SSH2_Kex = runner.M['ssh2_kex'].SSH2_Kex
SSH2_KexParty = runner.M['ssh2_kexparty'].SSH2_KexParty
PKM = runner.M['ssh1_publickeymessage'].SSH1_PublicKeyMessage
SSH1 = runner.M['ssh1'].SSH1
SSH_Socket = runner.M['ssh_socket'].SSH_Socket
OutputBuffer = runner.M['outputbuffer'].OutputBuffer

WORDS = [0, 1, 0x7fffffff, 0x80000000, 0xffffffff, 0x80000001]


def int_class(n):
    if n >= 0:
        return 'non-negative'
    b = wire.mpint_bytes(n)
    low = b[-4:] if len(b) >= 4 else b
    return 'negative'


def check_mpint2(n, st, fam):
    w = WriteBuf()
    try:
        w.write_mpint2(n)
        enc = w.write_flush()
        dec = ReadBuf(enc).read_mpint2()
    except Exception as e:
        st.violation('mpint2:exception:%s:%s' % (type(e).__name__, int_class(n)), {'n': str(n)[:80], 'what': str(e)})
        return
    ref = wire.mpint(n)
    st.execution(None, outcome=(fam, dec == n, enc == ref), root=('mp2', n), nontrivial=('mp2', n))
    if enc != ref:
        st.violation('mpint2:encoding-differs-from-rfc4251:%s' % int_class(n), {'n': str(n)[:80], 'tool': enc.hex()[:80], 'rfc': ref.hex()[:80]})
    if dec != n:
        st.violation('mpint2:decode(encode(n))!=n:%s' % int_class(n), {'n': str(n)[:80], 'decoded': str(dec)[:80], 'encoding': enc.hex()[:80]})
    # independent encoding decoded by the tool
    try:
        d2 = ReadBuf(ref).read_mpint2()
        if d2 != n:
            st.violation('mpint2:decode-of-rfc-encoding-wrong:%s' % int_class(n), {'n': str(n)[:80], 'decoded': str(d2)[:80], 'encoding': ref.hex()[:80]})
    except Exception as e:
        st.violation('mpint2:exception:%s:%s' % (type(e).__name__, int_class(n)), {'n': str(n)[:80], 'what': str(e)})


def check_mpint1(n, st, fam):
    w = WriteBuf()
    try:
        w.write_mpint1(n)
        enc = w.write_flush()
        dec = ReadBuf(enc).read_mpint1()
    except Exception as e:
        st.violation('mpint1:exception:%s' % type(e).__name__, {'n': str(n)[:80], 'what': str(e)})
        return
    ref = wire.ssh1_mpint(n)
    st.execution(None, outcome=(fam, dec == n, enc == ref), root=('mp1', n), nontrivial=('mp1', n))
    if enc != ref:
        st.violation('mpint1:encoding-differs-from-ssh1-spec', {'n': str(n)[:80], 'tool': enc.hex()[:80], 'spec': ref.hex()[:80]})
    if dec != n:
        st.violation('mpint1:decode(encode(n))!=n', {'n': str(n)[:80], 'decoded': str(dec)[:80]})


def work_ints(chunk, st):
    for fam, lo, hi in chunk:
        if fam == 'window':
            for n in range(lo, hi):
                check_mpint2(n, st, fam)
                if n >= 0:
                    check_mpint1(n, st, fam)
        elif fam == 'pow2':
            for k in range(lo, hi):
                for d in range(-3, 4):
                    for sgn in (1, -1):
                        n = sgn * (1 << k) + d
                        check_mpint2(n, st, fam)
                        if n >= 0:
                            check_mpint1(n, st, fam)
        elif fam == 'words':
            for ws in itertools.product(WORDS, repeat=3):
                mag = (ws[0] << 64) | (ws[1] << 32) | ws[2]
                for n in (mag, -mag, mag >> 1, -(mag >> 1), (mag << 8) | 0x80, -((mag << 8) | 0x80)):
                    check_mpint2(n, st, fam)
                    if n >= 0:
                        check_mpint1(n, st, fam)
    st.sample({'family': chunk[0][0], 'range': [chunk[0][1], chunk[0][2]]}, cap=6)


def check_scalars(st):
    for v in range(256):
        w = WriteBuf()
        w.write_byte(v)
        enc = w.write_flush()
        st.execution(None, outcome=('byte',), root=('byte', v), nontrivial=('byte', v))
        if enc != bytes([v]) or ReadBuf(enc).read_byte() != v:
            st.violation('byte-roundtrip', {'v': v})
    for v in (True, False):
        w = WriteBuf()
        w.write_bool(v)
        enc = w.write_flush()
        st.execution(None, outcome=('bool',), root=('bool', v))
        if ReadBuf(enc).read_bool() != v or enc != (b'\x01' if v else b'\x00'):
            st.violation('bool-roundtrip', {'v': v})
    for v in [0, 1, 255, 256, 0x7fffffff, 0x80000000, 0xfffffffe, 0xffffffff] + [1 << k for k in range(32)]:
        w = WriteBuf()
        w.write_int(v)
        enc = w.write_flush()
        st.execution(None, outcome=('int',), root=('int', v), nontrivial=('int', v))
        if enc != struct.pack('>I', v) or ReadBuf(enc).read_int() != v:
            st.violation('int-roundtrip', {'v': v})
    # names are opaque between the commas: blanks, tabs, line ends and other white space at their edges (or making up the whole name) belong to them
    names = ['', 'a', 'aes256-ctr', 'x@y.z', 'naïve', 'gss-group14-sha256-a+b/c0==', ' a', 'a ', '\tb', 'b\n', '\u00a0c', ' ', 'a b', 'c\r', '\u2003d', '\x1ce', 'f\x85']
    for k in range(0, 4):
        for lst in itertools.product(names, repeat=k):
            lst = list(lst)
            w = WriteBuf()
            w.write_list(lst)
            enc = w.write_flush()
            ref = wire.sstring(','.join(lst).encode('utf-8'))
            dec = ReadBuf(enc).read_list()
            st.execution(None, outcome=('list', dec == lst), root=('list', tuple(lst)), nontrivial=('list', tuple(lst)))
            if enc != ref:
                st.violation('list:encoding-differs', {'list': lst})
            if dec != lst and ','.join(dec) != ','.join(lst):
                st.violation('list:decode(encode(l))-differs-beyond-empty-names', {'list': lst, 'decoded': dec})
            elif dec != lst:
                # e.g. [] -> [''] : the empty name-list and the list holding one empty name share an encoding
                if lst == []:
                    st.violation('list:empty-list-decodes-as-one-empty-name', {'list': lst, 'decoded': dec})
            w2 = WriteBuf()
            w2.write_list(dec)
            if w2.write_flush() != enc:
                st.violation('list:encode(decode(b))!=b', {'list': lst})
    for s in [b'', b'a', b'\x00\xff' * 10, bytes(range(256))]:
        w = WriteBuf()
        w.write_string(s)
        enc = w.write_flush()
        st.execution(None, outcome=('string',), root=('string', s), nontrivial=('string', s))
        if enc != wire.sstring(s) or ReadBuf(enc).read_string() != s:
            st.violation('string-roundtrip', {'s': s.hex()})


def check_short_input(st):
    """a value that stops short of its own length is refused, not completed with zeroes: every fixed-width reader on every shorter buffer, and
    a whole KEXINIT / SSH-1 public key message cut by 1..8 bytes"""
    for nbytes, name in ((4, 'read_int'), (1, 'read_byte'), (1, 'read_bool')):
        for have in range(0, nbytes):
            buf = ReadBuf(b'\x01\x02\x03\x04'[:have])
            st.execution(None, outcome=('short', name), root=('short', name, have), nontrivial=('short', name, have))
            try:
                v = getattr(buf, name)()
            except Exception:
                continue
            st.violation('short-input:%s-returns-a-value-from-%d-bytes' % (name, have), {'value': repr(v)})
    k = SSH2_Kex(OutputBuffer(), b'\x07' * 16, ['curve25519-sha256'], ['ssh-ed25519'], SSH2_KexParty(['aes256-ctr'], ['hmac-sha2-256'], ['none'], ['']),
                 SSH2_KexParty(['aes256-ctr'], ['hmac-sha2-256'], ['none'], ['']), False, 0)
    payload = k.payload
    for cut in range(1, 9):
        st.execution(None, outcome=('short-kexinit',), root=('short-kexinit', cut), nontrivial=('short-kexinit', cut))
        try:
            k2 = SSH2_Kex.parse(OutputBuffer(), payload[:-cut])
        except Exception:
            continue
        st.violation('short-input:kexinit-missing-its-last-bytes-is-decoded', {'bytes_missing': cut, 're_encodes_to_the_same_bytes': k2.payload == payload[:-cut]})
    full = wire.ssh1_pubkey_payload(0x48, 0x0c, 1024, 768)
    for cut in (1, 2, 3, 4, 5, 8, 9, 12, 13, 40, 140):
        st.execution(None, outcome=('short-pkm',), root=('short-pkm', cut), nontrivial=('short-pkm', cut))
        try:
            PKM.parse(full[:-cut])
        except Exception:
            continue
        st.violation('short-input:ssh1-public-key-message-missing-its-last-bytes-is-decoded', {'bytes_missing': cut})


def check_messages(st):
    alpha = [[], ['a'], ['curve25519-sha256', 'x@y'], ['naïve'], ['gss-gex-sha1-dZuIebMjgUqaxvbF7hDbAw==', 'b'], ['a', ' b', 'c ', '\td'],
             ['a', 'b', 'a'], ['x@y', 'x@y'], ['', 'a', '', 'a']]        # a name may be listed twice: the message says so twice
    for kex, key, enc, mac in itertools.product(alpha, repeat=4):
        for follows, unused in ((False, 0), (True, 0xffffffff)):
            cli = SSH2_KexParty(enc or [''], mac or [''], ['none'], [''])
            srv = SSH2_KexParty(mac or [''], enc or [''], ['zlib@openssh.com', 'none'], [''])
            k = SSH2_Kex(OutputBuffer(), b'\x07' * 16, kex or [''], key or [''], cli, srv, follows, unused)
            payload = k.payload
            k2 = SSH2_Kex.parse(OutputBuffer(), payload)
            st.execution(None, outcome=('kexinit',), root=('kexinit', tuple(kex), tuple(key), tuple(enc), tuple(mac), follows), nontrivial=('kexinit', tuple(kex), tuple(key), tuple(enc), tuple(mac), follows))
            same = (k2.cookie == k.cookie and k2.kex_algorithms == k.kex_algorithms and k2.key_algorithms == k.key_algorithms and
                    k2.client.encryption == k.client.encryption and k2.server.encryption == k.server.encryption and
                    k2.client.mac == k.client.mac and k2.server.mac == k.server.mac and k2.client.compression == k.client.compression and
                    k2.server.compression == k.server.compression and k2.follows == k.follows and k2.unused == k.unused)
            if not same:
                st.violation('kexinit:decode(encode(m))!=m', {'kex': kex, 'key': key})
            if k2.payload != payload:
                st.violation('kexinit:encode(decode(b))!=b', {'kex': kex, 'key': key})
            # independent decoder agrees
            d = wire.parse_kexinit(bytes([wire.MSG_KEXINIT]) + payload)
            if d['kex'] != ','.join(kex or ['']).encode() or d['enc_s2c'] != ','.join(mac or ['']).encode():
                st.violation('kexinit:independent-decoder-disagrees', {'kex': kex, 'key': key})
    # every one of the ten name-lists carries its own distinct value (any swap or shift between slots is visible); lists of 0..2 names
    slots = ['kex', 'key', 'enc_c2s', 'enc_s2c', 'mac_c2s', 'mac_s2c', 'comp_c2s', 'comp_s2c', 'lang_c2s', 'lang_s2c']
    for variant in range(len(slots) + 2):
        vals = {}
        for i, sl in enumerate(slots):
            n = 1 if variant >= len(slots) else (0 if i == variant else 2)
            if variant == len(slots) + 1:
                n = 2 if i % 2 else 1
            vals[sl] = ['%s-%d@slot.example' % (sl.replace('_', '-'), j) for j in range(n)]
        payload = wire.serialize(wire.kexinit_tree(vals['kex'], vals['key'], vals['enc_c2s'], vals['enc_s2c'], vals['mac_c2s'], vals['mac_s2c'],
                                                   vals['comp_c2s'], vals['comp_s2c'], vals['lang_c2s'], vals['lang_s2c'], 1, 0x01020304, b'\x09' * 16))[1:]
        k = SSH2_Kex.parse(OutputBuffer(), payload)
        got = {'kex': k.kex_algorithms, 'key': k.key_algorithms, 'enc_c2s': k.client.encryption, 'enc_s2c': k.server.encryption, 'mac_c2s': k.client.mac,
               'mac_s2c': k.server.mac, 'comp_c2s': k.client.compression, 'comp_s2c': k.server.compression, 'lang_c2s': k.client.languages, 'lang_s2c': k.server.languages}
        st.execution(None, outcome=('kexinit-slots',), root=('kexinit-slots', variant), nontrivial=('kexinit-slots', variant))
        for sl in slots:
            want = vals[sl] if vals[sl] else ['']
            if got[sl] != want:
                st.violation('kexinit:decoded-field-differs:%s' % sl, {'slot': sl, 'decoded': got[sl], 'sent': want})
        if k.cookie != b'\x09' * 16 or k.follows is not True or k.unused != 0x01020304:
            st.violation('kexinit:decoded-field-differs:cookie/follows/reserved', {'follows': k.follows, 'unused': k.unused})
        if k.payload != payload:
            st.violation('kexinit:encode(decode(b))!=b', {'variant': variant})
    for sbits, hbits in itertools.product((0, 1, 767, 768, 1024), (8, 1023, 1024, 2048)):
        for e in (1, 3, 65537):
            for pf, cm, am in ((0, 0, 0), (2, 0x48, 0x0c), (0xffffffff, 0xffffffff, 0xffffffff)):
                # the announced sizes are fields of their own: they need not equal the bit length of the modulus next to them
                for ds, dh in ((0, 0), (1, 0), (0, 1), (-1, -1), (4096, 7)):
                    asb, ahb = max(0, sbits + ds), max(0, hbits + dh)
                    m = PKM(b'\x05' * 8, (asb, e, wire.modulus_with_bits(sbits)), (ahb, e, wire.modulus_with_bits(hbits)), pf, cm, am)
                    payload = m.payload
                    m2 = PKM.parse(payload)
                    st.execution(None, outcome=('pkm',), root=('pkm', sbits, hbits, e, pf, ds, dh), nontrivial=('pkm', sbits, hbits, e, pf, ds, dh))
                    if (m2.payload != payload or m2.server_key_public_modulus != m.server_key_public_modulus or
                            m2.host_key_public_modulus != m.host_key_public_modulus or m2.supported_ciphers_mask != cm or
                            m2.supported_authentications_mask != am or m2.protocol_flags != pf or m2.host_key_bits != ahb or
                            m2.server_key_bits != asb or m2.host_key_public_exponent != e or m2.server_key_public_exponent != e or
                            m2.cookie != b'\x05' * 8):
                        st.violation('ssh1-pubkey-message-roundtrip', {'sbits': sbits, 'hbits': hbits, 'announced': [asb, ahb], 'e': e})
                    ref = wire.ssh1_pubkey_payload(cm, am, hbits, sbits, pf, b'\x05' * 8)
                    if e == 65537 and (ds, dh) == (0, 0) and payload != ref:
                        st.violation('ssh1-pubkey-message:independent-encoder-disagrees', {'sbits': sbits, 'hbits': hbits})


class RawServer(P.Server):
    def __init__(self, chunks):
        P.Server.__init__(self, label='raw')
        self.chunks = chunks

    def script(self, c):
        for ch in self.chunks:
            if ch == 'AGAIN':
                yield ('again',)
                continue
            yield ('send', ch, 'raw')
        if getattr(self, 'then_abort', False):
            yield ('reset_known',)      # abortive close that the tool's sending side sees at once; the bytes above stay readable
        while True:
            yield ('packet',)


def framed_by_tool(payload):
    srv = RawServer([])
    w = H.world_for(srv)
    vnet.set_world(w)
    s = SSH_Socket(OutputBuffer(), H.HOST, 22)
    err = s.connect()
    assert err is None, err
    s.write(payload)
    s.send_packet()
    data = bytes(w.conns[0].sent)
    s.close()
    return data


def read_by_tool(data, sshv=2, exit_on_error=True):
    srv = RawServer([data])
    w = H.world_for(srv)
    vnet.set_world(w)
    s = SSH_Socket(OutputBuffer(), H.HOST, 22, timeout=1)
    s.connect()
    try:
        return s.read_packet(sshv) if exit_on_error else s.read_packet(sshv, exit_on_error=False)
    except SystemExit:
        return ('exit', b'')
    finally:
        s.close()


def work_framing(chunk, st):
    for n in chunk:
        payload = bytes((i * 7 + n) & 0xff for i in range(n))
        data = framed_by_tool(payload)
        r = wire.read_packet(data)
        st.execution(None, outcome=('frame', len(data) % 8), root=('frame', n), nontrivial=('frame', n))
        if r is None:
            st.violation('framing:independent-decoder-cannot-read', {'payload_len': n, 'data_head': data[:16].hex()})
            continue
        p2, rest, info = r
        probs = [p for p in info['problems'] if p != 'empty payload']
        if rest:
            probs.append('%d trailing bytes' % len(rest))
        if p2 != payload:
            probs.append('payload changed')
        if probs:
            st.violation('framing:rfc4253-section6:%s' % probs[0].split(' ')[0], {'payload_len': n, 'problems': probs, 'data_head': data[:16].hex()})
        if n >= 1:
            t, back = read_by_tool(data)
            if t != payload[0] or back != payload[1:]:
                st.violation('framing:own-reader-does-not-read-back', {'payload_len': n, 'type': t, 'got_len': len(back)})
    st.sample({'payload_lengths': [chunk[0], chunk[-1]]}, cap=4)


def read_stream_by_tool(chunks, npackets):
    """the tool's reader over a byte stream delivered in the given segments: -> list of (type, payload)"""
    srv = RawServer(list(chunks))
    w = H.world_for(srv)
    vnet.set_world(w)
    s = SSH_Socket(OutputBuffer(), H.HOST, 22, timeout=1)
    s.connect()
    out = []
    try:
        for _ in range(npackets):
            out.append(s.read_packet(2))
    except SystemExit:
        out.append(('exit', b''))
    finally:
        s.close()
    return out


def stream_tasks(tier):
    # (length of first payload, length of second payload); large ones straddle the reader's 2048-byte receive size
    small = [(a, b) for a in (1, 2, 5, 11, 12, 13, 20) for b in (1, 7)]
    large = [(a, 9) for a in list(range(2028, 2052)) + list(range(4076, 4100)) + ([] if tier == 'quick' else list(range(6120, 6150)))]
    return small + large


def work_stream(chunk, st):
    for a, b in chunk:
        p1 = bytes((i * 5 + a) & 0xff for i in range(a))
        p2 = bytes((i * 3 + b) & 0xff for i in range(b))
        d1, d2 = framed_by_tool(p1), framed_by_tool(p2)
        data = d1 + d2
        want = [(p1[0], p1[1:]), (p2[0], p2[1:])]
        if a <= 20:
            cuts = [[data[:c], data[c:]] for c in range(1, len(data))] + [[bytes([x]) for x in data]] + \
                   [[data[:c], data[c:c + 1], data[c + 1:]] for c in range(1, len(data) - 1)]
            # the same cuts with the receive call in between answered EAGAIN (once, twice): the bytes are not there yet, they are not lost
            cuts += [[data[:c], 'AGAIN', data[c:]] for c in range(0, len(data))] + [[data[:c], 'AGAIN', 'AGAIN', data[c:]] for c in range(0, len(data), 3)]
        else:
            cuts = [[data]] + [[data[:c], data[c:]] for c in range(len(d1) - 12, len(d1) + 6)] + [['AGAIN', data]] + [[data[:c], 'AGAIN', data[c:]] for c in range(len(d1) - 12, len(d1) + 6, 3)]
        for segs in cuts:
            got = read_stream_by_tool(segs, 2)
            st.execution(None, outcome=('stream', len(segs) if len(segs) < 4 else 'bytes'), root=('stream', a, b, tuple(len(x) for x in segs[:4]), len(segs), 'AGAIN' in segs),
                         nontrivial=('stream', a, b, tuple(len(x) for x in segs[:4]), len(segs), 'AGAIN' in segs))
            if got != want and 'AGAIN' in segs:
                st.violation('stream:own-reader-loses-a-packet-after-EAGAIN', {'payload_lens': [a, b], 'segment_lens': [x if x == 'AGAIN' else len(x) for x in segs[:6]],
                                                                               'got_types': [str(t) for t, _p in got]})
            elif got != want:
                where = 'one-segment' if len(segs) == 1 else 'one-byte-segments' if len(segs) > 3 else \
                    ('cut-in-padding-of-first' if len(d1) - (d1[4]) <= len(segs[0]) < len(d1) else 'cut-elsewhere')
                st.violation('stream:own-reader-loses-framing:%s' % where, {'payload_lens': [a, b], 'segment_lens': [len(x) for x in segs[:6]],
                                                                            'got_types': [str(t) for t, _p in got]})
    st.sample({'two_packet_streams': [list(x) for x in chunk[:2]]}, cap=4)


def check_crc_threads(st, tier):
    """two or three worker threads verifying their first SSH-1 packets at the same time: every interleaving of the source lines of the
    lazily created checksum object (loops contribute their first two iterations), preemption bound 2"""
    from mc import linesched
    datas = [bytes((i * 11 + k) & 0xff for i in range(40 + k)) for k in range(3)]
    refs = [wire.ssh1_crc(d) for d in datas]
    for nthreads, bound in ((2, 1), (3, 1)) if tier == 'quick' else ((2, 2), (3, 2)):
        def make(nthreads=nthreads):
            runner.reset_state()
            SSH1._crc32 = None
            return [(lambda i=i: SSH1.crc32(datas[i])) for i in range(nthreads)]

        def check(results, errors, trace):
            probs = []
            for i, (r, e) in enumerate(zip(results, errors)):
                if e is not None:
                    probs.append('thread %d raised %r' % (i, e))
                elif r != refs[i]:
                    probs.append('thread %d computed a wrong checksum' % i)
            return probs
        n = 0
        for prefix, probs, points, trace in linesched.explore(make, ('ssh1_crc32.py', 'ssh1.py'), bound, check, max_execs=6000, repeat_cap=2):
            n += 1
            st.evaluations += 1
            st.transitions += len(points)
            st.states.add(hash(('crc-threads', nthreads, tuple(prefix))))
            st.nontrivial.add(hash(('crc-threads', nthreads, tuple(prefix))))
            st.outcomes[('crc-threads', nthreads, bool(probs))] += 1
            for p in probs:
                st.violation('ssh1-crc:concurrent-first-use:%s' % ('exception' if 'raised' in p else 'wrong-checksum'), {'threads': nthreads, 'schedule': list(prefix), 'what': p})
        if n >= 6000:
            st.caps.append('line-level schedule cap 6000 hit for %d CRC threads' % nthreads)
        st.sample({'crc_threads': nthreads, 'preemption_bound': bound, 'schedules': n}, cap=4)
    runner.reset_state()
    SSH1._crc32 = None


def check_ssh1(st):
    SSH1._crc32 = None
    for n in range(0, 513):
        data = bytes((i * 13 + n) & 0xff for i in range(n))
        got = SSH1.crc32(data)
        ref = (zlib.crc32(data, 0xffffffff) ^ 0xffffffff) & 0xffffffff
        st.execution(None, outcome=('crc', got == ref), root=('crc', n), nontrivial=('crc', n))
        if got != ref or got != wire.ssh1_crc(data):
            st.violation('ssh1-crc32-differs-from-reference', {'len': n, 'tool': got, 'ref': ref})
    # data with zero bytes in front, behind, on both sides, and nothing but zero bytes (zero bytes in FRONT do not change this CRC; those behind do)
    for core in (b'', b'\x01', b'\x00', b'ab\x00cd', bytes(range(1, 20))):
        for lead in (0, 1, 3, 8):
            for trail in (0, 1, 2, 4, 9):
                data = b'\x00' * lead + core + b'\x00' * trail
                got = SSH1.crc32(data)
                ref = (zlib.crc32(data, 0xffffffff) ^ 0xffffffff) & 0xffffffff
                st.execution(None, outcome=('crc-zeros', got == ref), root=('crc-zeros', core, lead, trail), nontrivial=('crc-zeros', core, lead, trail))
                if got != ref:
                    st.violation('ssh1-crc32-differs-from-reference:%s' % ('data-ends-in-zero-bytes' if trail or core.endswith(b'\x00') or not core else 'other'),
                                 {'data': data.hex(), 'tool': got, 'ref': ref})
    # the reader reads back correct packets of every length (every amount of padding, 1..8 bytes), whatever their last bytes are
    for ln in range(1, 42):
        for tail in (b'\x07', b'\x00', b'\x00\x00\x00\x00'):
            body = (bytes((i * 7 + ln) & 0xff or 1 for i in range(ln)) + tail)[-ln:] if ln >= len(tail) else bytes([9] * ln)
            pkt = wire.serialize(wire.ssh1_packet_tree(2, body))
            t, payload = read_by_tool(pkt, 1)
            st.execution(None, outcome=('ssh1-read-len', t == 2), root=('ssh1-read-len', ln, tail), nontrivial=('ssh1-read-len', ln, tail))
            if t != 2 or payload != body:
                st.violation('ssh1-reader-rejects-correct-packet:%s' % ('length-multiple-of-8' if (ln + 5) % 8 == 0 else 'data-ends-in-zero-bytes' if body.endswith(b'\x00') else 'other'),
                             {'body_length': ln, 'packet_length_field': ln + 5, 'type': t, 'packet': pkt.hex()[:80]})
    # the reader accepts a correct packet and rejects every single-bit corruption
    body = wire.ssh1_pubkey_payload(0x48, 0x0c, 64, 32)[:27]
    pkt = wire.serialize(wire.ssh1_packet_tree(2, body))
    t, payload = read_by_tool(pkt, 1)
    st.execution(None, outcome=('ssh1-read', t), root=('ssh1-read', 'ok'))
    if t != 2 or payload != body:
        st.violation('ssh1-reader-rejects-correct-packet', {'type': t, 'packet': pkt.hex()})
    for bit in range(4 * 8, len(pkt) * 8):      # all bits after the length field
        b = bytearray(pkt)
        b[bit // 8] ^= 1 << (bit % 8)
        t, payload = read_by_tool(bytes(b), 1)
        st.execution(None, outcome=('ssh1-corrupt', t == 'exit'), root=('ssh1-corrupt', bit), nontrivial=('ssh1-corrupt', bit))
        if t != 'exit' and not (isinstance(t, int) and t < 0):
            st.violation('ssh1-reader-accepts-corrupted-packet', {'bit': bit, 'type': t})
        # ... and the same through the variant of the reader that reports errors to its caller (multi-target scans, probe connections)
        t2, _p2 = read_by_tool(bytes(b), 1, exit_on_error=False)
        st.execution(None, outcome=('ssh1-corrupt-noexit', t2), root=('ssh1-corrupt-noexit', bit), nontrivial=('ssh1-corrupt-noexit', bit))
        if t2 == 'exit' or not (isinstance(t2, int) and t2 < 0):
            st.violation('ssh1-reader-accepts-corrupted-packet:error-returning-variant' if t2 != 'exit' else 'ssh1-reader-exits-although-told-not-to', {'bit': bit, 'type': t2})
    st.sample({'ssh1_packet_len': len(pkt), 'bit_flips': len(pkt) * 8 - 32}, cap=14)


# ---- operation sequences on ONE buffer object (state carried across flushes)
OPS = [('byte', 7), ('bool', True), ('int', 0x01020304), ('string', b'ab'), ('list', ['x', 'yz']), ('mpint2', 0x80), ('mpint2', -129), ('mpint1', 0x1ff),
       ('flush', None), ('reset', None)]


def ref_encode(op, v):
    if op == 'byte':
        return bytes([v])
    if op == 'bool':
        return b'\x01' if v else b'\x00'
    if op == 'int':
        return struct.pack('>I', v)
    if op == 'string':
        return wire.sstring(v)
    if op == 'list':
        return wire.sstring(','.join(v).encode())
    if op == 'mpint2':
        return wire.mpint(v)
    if op == 'mpint1':
        return wire.ssh1_mpint(v)
    return b''


def check_op_sequences(st, depth):
    """Every sequence of write/flush/reset operations up to `depth` on one WriteBuf: each flush returns exactly the
    independent encoding of what was written since the previous flush/reset (reference model: a byte string)."""
    for seq in itertools.product(range(len(OPS)), repeat=depth):
        w = WriteBuf()
        model = b''
        ok = True
        for i in seq:
            op, v = OPS[i]
            if op == 'flush':
                got = w.write_flush()
                if got != model:
                    st.violation('buffer-sequence:flush-returns-wrong-bytes', {'ops': [OPS[j][0] for j in seq], 'got': got.hex(), 'expected': model.hex()})
                    ok = False
                    break
                model = b''
            elif op == 'reset':
                w.reset()
                model = b''
            else:
                getattr(w, 'write_' + op)(v)
                model += ref_encode(op, v)
        if ok:
            got = w.write_flush()
            if got != model:
                st.violation('buffer-sequence:flush-returns-wrong-bytes', {'ops': [OPS[j][0] for j in seq] + ['flush'], 'got': got.hex(), 'expected': model.hex()})
        st.evaluations += 1
        st.transitions += depth
        st.states.add(hash(('seq', seq)))
        st.nontrivial.add(hash(('seq', seq)))
    st.outcomes[('buffer-sequences', depth)] += 1
    # read side: a ReadBuf consumed value by value returns what an independent decoder sees, for every order of 3 values
    vals = [('int', 0xdeadbeef), ('string', b'hello'), ('mpint2', -1), ('mpint2', 1 << 70), ('byte', 200), ('list', ['a', 'b,c'.replace(',', '')])]
    for seq in itertools.permutations(range(len(vals)), 3):
        data = b''.join(ref_encode(*vals[i]) for i in seq)
        r = ReadBuf(data)
        for i in seq:
            op, v = vals[i]
            got = getattr(r, 'read_' + op)()
            st.evaluations += 1
            if got != v:
                st.violation('buffer-sequence:read-returns-wrong-value', {'ops': [vals[j][0] for j in seq], 'at': op, 'got': repr(got)})
                break
        if r.unread_len != 0:
            st.violation('buffer-sequence:unread-bytes-left', {'ops': [vals[j][0] for j in seq]})
    st.sample({'buffer_operation_alphabet': [o[0] for o in OPS], 'depth': depth}, cap=14)


def check_packet_streams(st, n):
    """Several packets through ONE socket object: the stream decodes (independently) into exactly those payloads, and the
    tool's own reader reads the same stream back packet by packet."""
    lens = [1, 5, 8, 11, 12, 13, 16, 40]
    for combo in itertools.product(lens, repeat=n):
        payloads = [bytes(((i * 7 + k * 31 + ln) & 0xff) or 1 for i in range(ln)) for k, ln in enumerate(combo)]
        srv = RawServer([])
        w = H.world_for(srv)
        vnet.set_world(w)
        s = SSH_Socket(OutputBuffer(), H.HOST, 22)
        s.connect()
        for p in payloads:
            s.write(p)
            s.send_packet()
        data = bytes(w.conns[0].sent)
        s.close()
        st.evaluations += 1
        st.transitions += n
        st.states.add(hash(('stream', combo)))
        st.nontrivial.add(hash(('stream', combo)))
        pk = wire.parse_packets(data)
        got = [p[1] for p in pk]
        if got != payloads or any(p[2].get('problems') for p in pk):
            st.violation('framing:packet-stream-differs', {'payload_lengths': list(combo), 'decoded_lengths': [len(x) if isinstance(x, bytes) else -1 for x in got]})
            continue
        srv = RawServer([data])
        w = H.world_for(srv)
        vnet.set_world(w)
        s = SSH_Socket(OutputBuffer(), H.HOST, 22, timeout=1)
        s.connect()
        for p in payloads:
            t, back = s.read_packet(2)
            if t != p[0] or back != p[1:]:
                st.violation('framing:own-reader-does-not-read-back-stream', {'payload_lengths': list(combo)})
                break
        s.close()
    st.sample({'packets_per_connection': n, 'payload_lengths': lens}, cap=14)


def traffic_problems(srv, kexnames=None):
    """Decode everything the tool sent to a scripted server: framing, first packet is KEXINIT, every message is one the protocol
    calls for at that point and is well formed.  -> [(signature, detail)]"""
    import struct as _s
    out = []
    for r in srv.records:
        types = []
        for pk in r.get('packets_in', []):
            types.append(pk['type'])
            probs = [x for x in pk['problems'] if x != 'empty payload']
            if probs:
                out.append(('traffic:framing', {'conn': r['index'], 'problems': probs}))
            payload = pk['payload']
            try:
                if pk['type'] == 20:
                    wire.parse_kexinit(payload)
                elif pk['type'] == 34:
                    if len(payload) != 13:
                        raise wire.WireError('GEX_REQUEST length %d' % len(payload))
                    mn, pref, mx = _s.unpack('>III', payload[1:])
                    if not (mn <= pref <= mx):
                        out.append(('traffic:gex-request-not-ordered', {'request': [mn, pref, mx]}))
                elif pk['type'] in (30, 32):
                    rd = wire.Reader(payload[1:])
                    body = rd.string()
                    if not rd.done() or len(body) == 0:
                        raise wire.WireError('KEX init body')
                else:
                    out.append(('traffic:unexpected-message-type', {'conn': r['index'], 'type': pk['type']}))
            except wire.WireError as e:
                out.append(('traffic:malformed-message:type-%s' % pk['type'], {'conn': r['index'], 'what': str(e), 'payload_head': payload[:24].hex()}))
        if types and types[0] != 20:
            out.append(('traffic:first-packet-not-kexinit', {'conn': r['index'], 'types': types}))
        if r.get('client_banner') is not None and not r['client_banner'].startswith(b'SSH-'):
            out.append(('traffic:bad-client-banner', {'banner': repr(r['client_banner'])}))
    return out


def fault_traffic_tasks(tier):
    from mc import explore
    from props import faultspace as F
    out = []
    for arch in ('B', 'C', 'D2'):
        sc = F.scenario(arch, True)
        base, plans = explore.first_level_tasks(sc, level='message' if tier == 'quick' else 'full', trunc_step=5)
        out += [(arch, p, None) for p in plans]
    for p in (0, 1, 2, 3, 4, 5, 7, 23):
        for g in (0, 1, 2):
            out.append(('D2', [], (p, g)))
            out.append(('C2', [], (p, g)))
    return out


def work_fault_traffic(chunk, st):
    from mc import explore
    from props import faultspace as F
    for arch, plan, degenerate in chunk:
        if degenerate is not None:
            p, g = degenerate
            if arch == 'D2':
                srv = F._srv_D2(g=g, p=p)
            else:       # both group-exchange algorithms after a normal kex: the degenerate group is met in the GEX phase, reconnects follow
                srv = P.Server(label='C2', kex=['curve25519-sha256', 'diffie-hellman-group-exchange-sha256', 'diffie-hellman-group-exchange-sha1'],
                               key=['ssh-ed25519'], host_keys=P.standard_host_keys(['ssh-ed25519']), gex=P.GexPolicy([2048], P.ROUNDUP, g=g))
                srv._gex_prime = lambda bits, p=p: p
            res = H.audit(srv)
        else:
            res = explore.run_plan(F.scenario(arch, True), plan)
            srv = res.peer
        st.execution(res.world, outcome=('fault-traffic', arch, res.status), root=('fault-traffic', arch, plan, degenerate), nontrivial=('fault-traffic', arch, plan, degenerate))
        for sig, d in traffic_problems(srv):
            st.violation('fault-' + sig, dict(d, arch=arch, plan=plan, degenerate_group=degenerate))
    st.sample({'fault_traffic': chunk[0][0], 'plan': chunk[0][1], 'degenerate_group': chunk[0][2]}, cap=18)


def check_audit_traffic(st):
    """Every packet the tool sends during complete audits (initial handshake, host-key probes, group-exchange probes) is well
    framed and is exactly the message the protocol calls for at that point."""
    import struct as _s
    key = ['rsa-sha2-512', 'ssh-ed25519']
    for kex, gex in ((['curve25519-sha256'], None), (['diffie-hellman-group14-sha256'], None), (['ecdh-sha2-nistp256'], None),
                     (['diffie-hellman-group-exchange-sha256', 'diffie-hellman-group-exchange-sha1'], P.GexPolicy([2048, 4096], P.STRICT)),
                     (['curve25519-sha256', 'diffie-hellman-group-exchange-sha256'], P.GexPolicy([3072], P.OPENSSH))):
        srv = P.Server(kex=kex, key=key, enc=['aes256-ctr', 'aes128-ctr'], mac=['hmac-sha2-256'], host_keys=P.standard_host_keys(key), gex=gex,
                       banner=b'SSH-2.0-OpenSSH_8.9p1')
        res = H.audit(srv)
        npk = 0
        for r in srv.records:
            types = []
            for pk in r.get('packets_in', []):
                npk += 1
                types.append(pk['type'])
                probs = [x for x in pk['problems'] if x != 'empty payload']
                if probs:
                    st.violation('audit-traffic:framing', {'kex': kex, 'conn': r['index'], 'problems': probs})
                payload = pk['payload']
                try:
                    if pk['type'] == 20:
                        d = wire.parse_kexinit(payload)
                        if r['index'] > 0 and not set(wire.names_of(d['kex'])) <= set(kex):
                            st.violation('audit-traffic:probe-kexinit-offers-foreign-kex', {'kex': kex, 'sent': wire.names_of(d['kex'])})
                        if wire.names_of(d['enc_s2c']) != (['aes256-ctr', 'aes128-ctr'] if r['index'] > 0 else wire.names_of(d['enc_s2c'])):
                            st.violation('audit-traffic:probe-kexinit-ciphers-differ', {'conn': r['index'], 'sent': wire.names_of(d['enc_s2c'])})
                    elif pk['type'] == 34:
                        if len(payload) != 13:
                            raise wire.WireError('GEX_REQUEST length %d' % len(payload))
                        mn, pref, mx = _s.unpack('>III', payload[1:])
                        if not (mn <= pref <= mx):
                            st.violation('audit-traffic:gex-request-not-ordered', {'request': [mn, pref, mx]})
                    elif pk['type'] in (30, 32):
                        rd = wire.Reader(payload[1:])
                        body = rd.string()
                        if not rd.done() or len(body) == 0:
                            raise wire.WireError('KEX init body')
                    else:
                        st.violation('audit-traffic:unexpected-message-type', {'kex': kex, 'conn': r['index'], 'type': pk['type']})
                except wire.WireError as e:
                    st.violation('audit-traffic:malformed-message:type-%s' % pk['type'], {'kex': kex, 'conn': r['index'], 'what': str(e), 'payload_head': payload[:24].hex()})
            if types and types[0] != 20:
                st.violation('audit-traffic:first-packet-not-kexinit', {'kex': kex, 'conn': r['index'], 'types': types})
            if r.get('client_banner') is not None and not r['client_banner'].startswith(b'SSH-2.0-'):
                st.violation('audit-traffic:bad-client-banner', {'banner': repr(r['client_banner'])})
        st.execution(res.world, outcome=('audit-traffic', npk), root=('audit-traffic', tuple(kex)), nontrivial=('audit-traffic', tuple(kex)))
        if npk < 3:
            st.violation('audit-traffic:too-few-packets-observed', {'kex': kex, 'packets': npk})
        st.sample({'audit_traffic_kex': kex, 'connections': len(srv.records), 'packets_checked': npk}, cap=16)


def real_traffic(st):
    """Bytes captured from the real CLI over real loopback TCP: framing and message shape, compared with the in-model capture."""
    import os
    if os.environ.get('VERIF_NO_REALNET'):
        return 0
    from mc import realnet
    n = 0
    key = ['rsa-sha2-512', 'ssh-ed25519']
    for kex, gex in ((['curve25519-sha256'], None), (['diffie-hellman-group14-sha256', 'diffie-hellman-group-exchange-sha256'], P.GexPolicy([2048, 4096], P.STRICT))):
        def mk(kex=kex, gex=gex):
            return P.Server(kex=kex, key=key, enc=['aes256-ctr'], mac=['hmac-sha2-256'], host_keys=P.standard_host_keys(key), gex=gex, banner=b'SSH-2.0-OpenSSH_8.9p1')
        real_srv = mk()
        tw = realnet.TwinServer(real_srv, {})
        try:
            argv = ['-n', '-t', '1', '--skip-rate-test', '127.0.0.1:%d' % tw.port]
            rs, rout, rerr = realnet.run_real_cli(argv)
        finally:
            tw.close()
        model_srv = mk()
        H.audit(model_srv)

        def shape(srv):
            # the DH public value depends on the random exponent (pinned in the model), so its length is not compared
            return [[(pk['type'], None if pk['type'] in (30, 32) else pk['len'], tuple(pk['problems'])) for pk in r.get('packets_in', [])] for r in srv.records]
        if shape(real_srv) == shape(model_srv) and all(not pk['problems'] or pk['problems'] == ['empty payload'] for r in real_srv.records for pk in r.get('packets_in', [])):
            n += 1
        else:
            st.extra['trace_validation_mismatches'] += 1
            print('TRACE-VALIDATION-MISMATCH: packets sent over real TCP %s vs in the model %s' % (shape(real_srv)[:4], shape(model_srv)[:4]))
    return n


def run(tier, seed):
    t0 = time.time()
    W = 1 << (13 if tier == 'quick' else 17)
    K = 2048 if tier == 'quick' else 8192
    tasks = [('window', lo, min(lo + 4096, W + 1)) for lo in range(-W, W + 1, 4096)]
    tasks += [('pow2', k, min(k + 128, K + 1)) for k in range(1, K + 1, 128)]
    tasks += [('words', 0, 0)]
    st = par.pmap(work_ints, tasks, chunk=1)

    def family(fn, *args):
        # an exception raised *inside the tool's codec* while it handles its own encodings is a finding, not a harness failure
        import traceback
        try:
            fn(*args)
        except Exception as e:
            frames = traceback.extract_tb(e.__traceback__)
            inner = frames[-1]
            if '/ssh_audit/' not in inner.filename:
                raise
            caller = next((f for f in reversed(frames) if f.filename.endswith('c10.py')), None)
            st.violation('codec:tool-raises-on-its-own-encoding:%s:%s' % (type(e).__name__, fn.__name__),
                         {'exception': '%s: %s' % (type(e).__name__, e), 'in': '%s:%s' % (inner.filename.split('/ssh_audit/')[-1], inner.name),
                          'check_line': caller.lineno if caller else None})
    family(check_scalars, st)
    family(check_messages, st)
    family(check_short_input, st)
    family(check_ssh1, st)
    family(check_crc_threads, st, tier)
    family(check_op_sequences, st, 4 if tier == 'quick' else 5)
    family(check_packet_streams, st, 2 if tier == 'quick' else 3)
    family(check_audit_traffic, st)
    par.pmap(work_fault_traffic, fault_traffic_tasks(tier), stats=st)
    L = 1024 if tier == 'quick' else 4096
    par.pmap(work_framing, list(range(0, L + 1)), stats=st)
    par.pmap(work_stream, stream_tasks(tier), stats=st, chunk=2)
    validated = real_traffic(st)
    # supplementary (not deciding): seeded random big integers
    import random
    rnd = random.Random(seed)
    sup = evidence.Stats()
    for _ in range(300):
        n = rnd.getrandbits(rnd.randrange(1, 9000)) * rnd.choice((1, -1))
        check_mpint2(n, sup, 'random')
    for v in sup.violations:
        st.violations.append(v)
    return evidence.finish(
        PID, tier, seed, st, t0,
        rule='mpint (SSH-2 both signs, SSH-1 non-negative): every n in [-2^%d, 2^%d]; +-2^k+d for k=1..%d, d in [-3,3]; every 3-word pattern '
             'over %s with both signs and shifted variants; bytes 0..255, bools, 32-bit boundary ints, strings; name-lists of length 0..3 over 6 '
             'names; KEXINIT messages over 5^4 list choices x follows/reserved; SSH-1 public key messages; send_packet framing for payload lengths '
             '0..%d decoded independently and read back by read_packet; every sequence of %d write/flush/reset operations on one buffer '
             'object against a byte-string reference model; every %d-packet stream over 8 payload lengths through one socket object; every packet '
             'sent during complete audits over 5 key-exchange paths decoded as the expected message; SSH-1 CRC for lengths 0..512; SSH-1 reader vs '
             'every single-bit corruption; '
             'supplementary 300 seeded random integers (not counted)' % (13 if tier == 'quick' else 17, 13 if tier == 'quick' else 17, K,
                                                                        [hex(x) for x in WORDS], L, 4 if tier == 'quick' else 5,
                                                                        2 if tier == 'quick' else 3),
        assumptions=['independent codec: mc/wire.py (int.to_bytes signed, zlib CRC)', 'SSH-1 mpints are unsigned by format'],
        exhaustive=True, traces_validated=validated)


def replay(path):
    v = json.load(open(path))
    d = v['detail']
    st = evidence.Stats()
    if 'n' in d:
        n = int(d['n']) if len(d['n']) < 80 else 0
        check_mpint2(n, st, 'replay')
    elif 'payload_len' in d:
        work_framing([d['payload_len']], st)
    else:
        check_scalars(st)
    for x in st.violations:
        print('replayed:', x['sig'], json.dumps(x['detail'])[:400])
    return 1 if st.violations else 0
