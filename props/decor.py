"""Decorated names: a name that differs from a name the tool knows by a few extra bytes is another name.

RFC 4251 compares algorithm names octet for octet.  `aes128-ctr<ESC>[0m`, ` kex-strict-s-v00@openssh.com`, `ssh-ed25519<TAB>`,
`AES128-CTR`, `3des-cbc.` are not `aes128-ctr`, the strict-KEX marker, `ssh-ed25519`, ... - they are names nobody has registered, and a peer
that sends one is to be treated exactly like a peer that sends `frob-algorithm@example.org` in that place.  That is an independent
statement of the right answer (it does not compare two outputs of the same possibly-wrong normalisation): for every base name of BASES,
every decoration of DECOR and the positions front / back / inside, the real CLI audits a peer offering the decorated name and a peer
offering a plain unknown name in its place, and the two reports must say the same - same status, same notes position by position, same
Terrapin verdict, same recommendations, same number of connections and key-exchange requests.  Several checks use it, each reporting the
clauses it owns:
  names (C01)  status (C02)  rating (C03)  terrapin (C04)  recs (C13)  footprint (C19)
"""
import json

from mc import harness as H, peer as P

GEX256 = 'diffie-hellman-group-exchange-sha256'
MARK_S, MARK_C = 'kex-strict-s-v00@openssh.com', 'kex-strict-c-v00@openssh.com'
PLAIN = 'frob-algorithm@example.org'

# what may cling to a name: terminal escape sequences, white space of several kinds, invisible characters, a byte order mark, case
DECOR = ['\x1b[0m', '\x1b[31;1m', '\x1b[2J', '\x1b]0;t\x07', ' ', '\t', '\n', '\r', '\x0b', '\x00', '\x7f', ' ', '​', '﻿', ' ', '.', '_', '"', '%s', '{}']
# (category, base name, what the base name would set off)
BASES = [('kex', 'curve25519-sha256', 'known'), ('kex', MARK_S, 'marker'), ('kex', GEX256, 'gex'), ('kex', 'diffie-hellman-group1-sha1', 'fail'),
         ('key', 'ssh-ed25519', 'hostkey'), ('key', 'ssh-rsa', 'hostkey-fail'), ('enc', 'chacha20-poly1305@openssh.com', 'chacha'), ('enc', 'aes128-cbc', 'cbc'),
         ('enc', '3des-cbc', 'fail'), ('enc', 'aes256-ctr', 'known'), ('mac', 'hmac-sha2-256-etm@openssh.com', 'etm'), ('mac', 'hmac-md5', 'fail'), ('mac', 'hmac-sha2-256', 'known')]


def decorate(name, deco, where):
    if where == 'front':
        return deco + name
    if where == 'back':
        return name + deco
    k = len(name) // 2
    return name[:k] + deco + name[k:]


def variants(name):
    out = []
    for d in DECOR:
        for where in ('front', 'back', 'inside'):
            out.append(('%r:%s' % (d, where), decorate(name, d, where)))
    out.append(('upper-case', name.upper()))
    out.append(('capitalised', name[0].upper() + name[1:]))
    out.append(('doubled', name + name))
    # a decoration that leaves the name as it is (capitalising '3des-cbc') is no decoration
    return [(label, v) for label, v in out if v != name]


def tasks(tier='quick'):
    out = []
    for cat, base, kind in BASES:
        vs = variants(base)
        if tier == 'quick' and kind in ('known', 'fail'):
            vs = vs[::3]
        for label, _n in vs:
            out.append((cat, base, kind, label))
    return out


def _lists(cat, name, kind):
    # a peer that exercises what the base name would set off: ChaCha20 + CBC + ETM around the marker, sized keys and a group exchange to probe
    ls = {'kex': ['curve25519-sha256'], 'key': ['rsa-sha2-512'], 'enc': ['aes256-gcm@openssh.com'], 'mac': ['hmac-sha2-512']}
    if kind == 'marker':
        ls['enc'] += ['chacha20-poly1305@openssh.com', 'aes128-cbc']
        ls['mac'] += ['hmac-sha2-256-etm@openssh.com']
    if kind == 'cbc':
        ls['mac'] += ['hmac-sha2-256-etm@openssh.com']
    if kind == 'etm':
        ls['enc'] += ['aes128-cbc']
    ls[cat] = ls[cat] + [name]
    return ls


def _audit(cat, name, kind):
    ls = _lists(cat, name, kind)
    b = lambda x: x.encode('utf-8')
    keys = [k for k in ls['key'] if k in ('rsa-sha2-512', 'ssh-ed25519', 'ssh-rsa')]
    srv = P.Server(label='dc', banner=b'SSH-2.0-OpenSSH_8.0', kex=[b(x) for x in ls['kex']], key=[b(x) for x in ls['key']], enc=[b(x) for x in ls['enc']], mac=[b(x) for x in ls['mac']],
                   host_keys=P.standard_host_keys(keys, rsa_bits=3072), gex=P.GexPolicy([2048], P.STRICT))
    res = H.audit(srv, opts=['-n', '--skip-rate-test', '-j'])
    reqs = sum(len(r.get('gex_requests', [])) for r in srv.records)
    return res, len(res.world.conns), reqs


def plain_for(name):
    """a plain unknown name of the same Terrapin class (the rule goes by the shape of a name: ChaCha20-Poly1305 by its beginning, CBC and
    encrypt-then-MAC by their ending - refmodels/terrapin.py - so a decoration at the other end leaves the class alone)"""
    from refmodels import terrapin as T
    if T.is_chacha(name):
        return 'chacha20-poly1305@frob.example.org'
    if T.is_cbc(name):
        return 'frob128-cbc'
    if T.is_etm(name):
        return 'frob-etm@openssh.com'
    return PLAIN


def _shape(doc, cat, name):
    """the report with the name in question made anonymous: position by position (algorithm name or '<it>', notes)"""
    out = {}
    for c in ('kex', 'key', 'enc', 'mac'):
        out[c] = [('<it>' if e.get('algorithm') == name else e.get('algorithm'), json.dumps(e.get('notes', {}), sort_keys=True), e.get('keysize')) for e in doc.get(c, [])]
    recs = json.dumps(doc.get('recommendations', {}), sort_keys=True).replace(json.dumps(name)[1:-1], '<it>')
    notes = json.dumps(doc.get('additional_notes', []), sort_keys=True).replace(json.dumps(name)[1:-1], '<it>').replace(name, '<it>')
    return out, recs, notes


def _names_nfc(s):
    return s


def work(chunk, st, clauses):
    for cat, base, kind, label in chunk:
        name = dict(variants(base))[label]
        res, nconn, nreq = _audit(cat, name, kind)
        plain = plain_for(name)
        ref, rconn, rreq = _audit(cat, plain, kind)
        root = ('decorated', cat, base, label)
        st.execution(res.world, outcome=('decorated', cat, kind, res.status), root=root, nontrivial=root, detail='light')
        d = {'category': cat, 'looks_like': base, 'decoration': label, 'name_sent': repr(name), 'status': res.status, 'status_with_a_plain_unknown_name': ref.status}
        tag = '%s:%s' % (kind, 'white-space' if label[1:2] in (' ', '\\') and label[1:3] not in ('\\x',) and not label.startswith("'\\x1b") else
                         'escape-sequence' if label.startswith("'\\x1b") else 'case' if label in ('upper-case', 'capitalised') else 'other')
        if res.hang or res.exc or res.status not in (0, 2, 3):
            for cl in ('names', 'status', 'rating'):
                if cl in clauses:
                    st.violation('decorated:no-report:%s' % tag, dict(d, hang=res.hang, exc=res.exc, tail=res.stdout[-200:]))
            continue
        try:
            doc, rdoc = json.loads(res.stdout), json.loads(ref.stdout)
        except ValueError:
            if 'names' in clauses:
                st.violation('decorated:json-unparseable:%s' % tag, dict(d, stdout=res.stdout[:200]))
            continue
        listed = [e.get('algorithm') for e in doc.get(cat, [])]
        if 'names' in clauses and (listed.count(base) != _lists(cat, name, kind)[cat].count(base) or len(listed) != len(rdoc.get(cat, []))):
            st.violation('decorated:reported-as-the-name-it-resembles:%s' % tag, dict(d, listed=listed))
        # the name as the report spells it (the tool may show unprintable characters its own way): the entry at the position of the name
        pos = len(_lists(cat, name, kind)[cat]) - 1
        shown = listed[pos] if pos < len(listed) else None
        sh, recs, notes = _shape(doc, cat, shown)
        rsh, rrecs, rnotes = _shape(rdoc, cat, plain)
        if 'status' in clauses and res.status != ref.status:
            st.violation('decorated:status-differs-from-a-plain-unknown-name:%s' % tag, d)
        if 'rating' in clauses:
            for c in sh:
                if [x[1:] for x in sh[c]] != [x[1:] for x in rsh[c]]:
                    k = next((i for i, (x, y) in enumerate(zip(sh[c], rsh[c])) if x[1:] != y[1:]), None)
                    st.violation('decorated:notes-differ-from-a-plain-unknown-name:%s:%s' % (c if c != cat else 'itself', tag),
                                 dict(d, list=c, this=sh[c][k] if k is not None else len(sh[c]), plain=rsh[c][k] if k is not None else len(rsh[c])))
                    break
        if 'terrapin' in clauses:
            t1 = sorted((c, x[0]) for c in sh for x in sh[c] if 'errapin' in x[1]), notes
            t2 = sorted((c, x[0]) for c in rsh for x in rsh[c] if 'errapin' in x[1]), rnotes
            if t1 != t2:
                st.violation('decorated:terrapin-verdict-differs-from-a-plain-unknown-name:%s' % tag, dict(d, this=str(t1)[:300], plain=str(t2)[:300]))
        if 'recs' in clauses and recs != rrecs:
            st.violation('decorated:recommendations-differ-from-a-plain-unknown-name:%s' % tag, dict(d, this=recs[:300], plain=rrecs[:300]))
        if 'footprint' in clauses and (nconn, nreq) != (rconn, rreq):
            st.violation('decorated:connections-or-requests-differ-from-a-plain-unknown-name:%s' % tag,
                         dict(d, connections=nconn, plain_connections=rconn, group_exchange_requests=nreq, plain_group_exchange_requests=rreq))
    st.sample({'decorated': [chunk[0][0], chunk[0][1], chunk[0][3]]}, cap=6)
