"""Single-fault invariance: one probe connection of an audit goes wrong, everything else is reported as in the fault-free audit.

An audit makes one connection per measurement (a host key, one group-exchange request).  A fault confined to ONE of those connections -
it cannot be set up, it dies before the reply, the reply is garbled - can at most cost the measurement that connection was for.  For
every server of SERVERS, every probe connection and every fault of MENU this module runs the real CLI and hands the fault-free and the
faulted JSON report, plus the set of algorithms the faulted connection was measuring, to the oracles below.  Several checks use it, each
reporting the clauses it owns:
  unaffected   (C03)  an algorithm measured on another connection keeps size and notes
  monotone     (C17)  a fault never adds a failure or a warning to any algorithm (a lost measurement can only remove size notes)
  status       (C02)  the exit status is the fold of the notes the report shows
  recs         (C13)  the recommendations follow from the notes of the same report
"""
import json

from mc import harness as H, peer as P

CATS = ('kex', 'key', 'enc', 'mac')
GEX256, GEX1 = 'diffie-hellman-group-exchange-sha256', 'diffie-hellman-group-exchange-sha1'
RSACERT512, EDCERT = 'rsa-sha2-512-cert-v01@openssh.com', 'ssh-ed25519-cert-v01@openssh.com'

# (message index on the connection, fault): -1 = the connect itself, 0 = banner, 1 = KEXINIT, 2 = the reply carrying the measurement
MENU = [(-1, ('refuse',)), (-1, ('timeout',)), (0, ('trunc_close', 0)), (0, ('reset',)), (0, ('trunc_stall', 3)), (1, ('trunc_close', 9)), (1, ('reset',)),
        (1, ('trunc_stall', 20)), (2, ('trunc_close', 0)), (2, ('reset',)), (2, ('trunc_stall', 0)), (2, ('type', 1)), (2, ('garbage', 40, 5)), (2, ('trunc_close', 7)),
        (2, ('len', 0, 'plus1')),
        # legal interleaving first (MSG_DEBUG / MSG_IGNORE), then the fault
        (2, ('debug_then', ('len', 0, 'plus1'))), (2, ('debug_then', ('emptypayload',))), (2, ('debug_then', ('trunc_close', 3))), (2, ('then_more', ('len', 0, 'plus1'), 4))]


def _mixed():
    keys = ['rsa-sha2-512', 'ssh-rsa', 'ssh-ed25519', 'ecdsa-sha2-nistp256']
    return P.Server(label='fi', banner=b'SSH-2.0-OpenSSH_8.0', kex=['curve25519-sha256', GEX256, 'diffie-hellman-group14-sha1'], key=keys,
                    enc=['aes256-ctr', 'aes128-cbc', 'chacha20-poly1305@openssh.com'], mac=['hmac-sha2-256-etm@openssh.com', 'hmac-sha1'],
                    host_keys=P.standard_host_keys(keys, rsa_bits=2048), gex=P.GexPolicy([2048, 4096], P.STRICT))


def _certs():
    keys = ['rsa-sha2-256-cert-v01@openssh.com', RSACERT512, EDCERT, 'rsa-sha2-512', 'ssh-ed25519']
    return P.Server(label='fi', banner=b'SSH-2.0-OpenSSH_9.6', kex=['sntrup761x25519-sha512@openssh.com', 'curve25519-sha256', GEX256], key=keys,
                    enc=['aes256-gcm@openssh.com', 'aes256-ctr'], mac=['hmac-sha2-512-etm@openssh.com'],
                    host_keys=P.standard_host_keys(keys, rsa_bits=4096, ca='rsa', ca_bits=4096, ca_by_alg={EDCERT: ('ed25519', 256)}), gex=P.GexPolicy([3072], P.STRICT))


def _small():
    keys = ['ssh-rsa', 'rsa-sha2-256', 'ssh-ed25519', 'ssh-rsa-cert-v01@openssh.com']
    return P.Server(label='fi', banner=b'SSH-2.0-dropbear_2022.83', kex=[GEX256, GEX1, 'curve25519-sha256'], key=keys, enc=['aes128-ctr', '3des-cbc'], mac=['hmac-sha1', 'hmac-sha2-256'],
                    host_keys=P.standard_host_keys(keys, rsa_bits=1024, ca='rsa', ca_bits=1024), gex=P.GexPolicy([1024, 2048], P.PREFER))


def _osshgex():
    # OpenSSH's way of answering group-exchange requests (falls back to 2048 bits when the range allows): the tool makes an extra probe to tell
    keys = ['rsa-sha2-512', 'ssh-ed25519']
    return P.Server(label='fi', banner=b'SSH-2.0-OpenSSH_8.4', kex=['curve25519-sha256', GEX256], key=keys, enc=['aes256-ctr'], mac=['hmac-sha2-256-etm@openssh.com'],
                    host_keys=P.standard_host_keys(keys, rsa_bits=3072), gex=P.GexPolicy([2048, 3072, 4096], P.OPENSSH))


SERVERS = {'mixed': _mixed, 'certs': _certs, 'small': _small, 'osshgex': _osshgex}


def entries(doc):
    out = {}
    for cat in CATS:
        for e in doc.get(cat, []):
            out[(cat, e['algorithm'])] = {'keysize': e.get('keysize'), 'casize': e.get('casize'), 'ca': e.get('ca_algorithm'),
                                         'notes': sorted((lv, t) for lv in ('fail', 'warn', 'info') for t in e.get('notes', {}).get(lv, []))}
    return out


def baseline(name, opts=()):
    srv = SERVERS[name]()
    res = H.audit(srv, opts=['-n', '--skip-rate-test', '-j'] + list(opts))
    hit, phase = {}, {}
    for r in srv.records:
        neg = r.get('negotiated')
        if r['index'] == 0 or not neg:
            continue
        reqs = [tuple(q[:3]) for q in r['gex_requests']]
        if reqs and (1024, 2048, 8192) not in reqs:
            hit[r['index']] = {('kex', neg[0])}
            phase[r['index']] = 'gex'
        elif neg[1] in P.RSA_FAMILY:
            hit[r['index']] = {('key', n) for n in P.RSA_FAMILY}
            phase[r['index']] = 'hostkey'
        else:
            hit[r['index']] = {('key', neg[1])}
            phase[r['index']] = 'hostkey'
    res.phase = phase
    return res, hit


def tasks():
    out = []
    for name in sorted(SERVERS):
        _res, hit = baseline(name)
        for conn in sorted(hit):
            for msg, fault in MENU:
                out.append((name, conn, msg, fault))
    return out


_LV = {'fail': 2, 'warn': 1}


def _worst(notes):
    return max([_LV.get(lv, 0) for lv, _t in notes] or [0])


def judge(name, conn, msg, fault, opts=()):
    """-> (faulted result, [(clause, signature, detail)])"""
    base, hit = baseline(name, opts)
    srv = SERVERS[name]()
    res = H.audit(srv, opts=['-n', '--skip-rate-test', '-j'] + list(opts), faults={('fi', conn, msg): fault})
    probs = []
    d = {'server': name, 'connection': conn, 'message': msg, 'fault': list(fault), 'status': res.status, 'measuring': sorted('%s:%s' % x for x in hit.get(conn, ()))}
    if res.hang or res.exc or res.status not in (0, 2, 3):
        return res, [('any', 'no-report-after-a-fault-on-a-probe-connection', dict(d, hang=res.hang, exc=res.exc, tail=res.stdout[-200:]))]
    try:
        doc, bdoc = json.loads(res.stdout), json.loads(base.stdout)
    except ValueError:
        return res, [('any', 'json-unparseable-after-a-fault-on-a-probe-connection', dict(d, stdout=res.stdout[:200]))]
    e0, e1 = entries(bdoc), entries(doc)
    mine = set(hit.get(conn, set()))
    if msg <= 1:
        # a connection that cannot be set up (refused, no banner, no KEXINIT) ends the phase it belongs to: the measurements that
        # phase had still to make are lost with it (the tool's documented behaviour; C12 models the group-exchange part in detail)
        for c in hit:
            if c > conn and base.phase.get(c) == base.phase.get(conn):
                mine |= hit[c]
    for k in e0:
        if k not in e1:
            probs.append(('unaffected', 'algorithm-dropped-from-the-report', dict(d, algorithm='%s:%s' % k)))
            continue
        if k not in mine and e0[k] != e1[k]:
            probs.append(('unaffected', 'measured-on-another-connection-but-changed:%s' % k[0], dict(d, algorithm='%s:%s' % k, fault_free=e0[k], faulted=e1[k])))
        if _worst(e1[k]['notes']) > _worst(e0[k]['notes']):
            probs.append(('monotone', 'fault-adds-a-finding:%s' % k[0], dict(d, algorithm='%s:%s' % k, fault_free=e0[k]['notes'], faulted=e1[k]['notes'])))
        if k in mine and k[0] == 'key' and e1[k]['keysize'] not in (None, e0[k]['keysize']):
            probs.append(('unaffected', 'another-size-after-a-fault:%s' % k[0], dict(d, algorithm='%s:%s' % k, fault_free=e0[k]['keysize'], faulted=e1[k]['keysize'])))
    fold = 3 if any(lv == 'fail' for e in e1.values() for lv, _t in e['notes']) else 2 if any(lv == 'warn' for e in e1.values() for lv, _t in e['notes']) else 0
    if res.status != fold:
        probs.append(('status', 'status-%s-but-report-folds-to-%s-after-a-probe-fault' % (res.status, fold), d))
    from props import c13
    before = set(c13.consistency_problems(bdoc))
    for what, cat, alg in c13.consistency_problems(doc):
        if (what, cat, alg) not in before:
            probs.append(('recs', '%s:after-a-probe-fault' % what, dict(d, algorithm='%s:%s' % (cat, alg))))
    return res, probs


def work(chunk, st, clauses):
    for name, conn, msg, fault in chunk:
        res, probs = judge(name, conn, msg, fault)
        root = ('single-fault', name, conn, msg, fault)
        st.execution(res.world, outcome=('single-fault', name, res.status), root=root, nontrivial=root, detail='light')
        for clause, sig, detail in probs:
            if clause in clauses or clause == 'any':
                st.violation('single-fault:%s' % sig, detail)
    st.sample({'single_fault': [chunk[0][0], chunk[0][1], chunk[0][2], list(chunk[0][3])]}, cap=6)
