"""C13 - recommendations are consistent with the ratings shown in the same report."""
import json
import time

from mc import evidence, harness as H, par, peer as P, report, runner
from props.c14 import numcmp, around, EXTRA

PID = 'C13'
Algorithm = runner.M['algorithm'].Algorithm
CATS = ('kex', 'key', 'enc', 'mac')
FMT = {'OpenSSH': 'SSH-2.0-OpenSSH_%s', 'Dropbear SSH': 'SSH-2.0-dropbear_%s', 'libssh': 'SSH-2.0-libssh-%s', 'TinySSH': 'SSH-2.0-tinyssh_%s'}
UNRECOGNISED = [b'SSH-2.0-FrobSSH_1.0', b'SSH-2.0-', b'SSH-2.0-RomSShell_4.62', b'SSH-2.0-PuTTY_Release_0.80', b'SSH-2.0-OpenSSH',
                # other software whose name begins or ends like a product the database has versions for (libssh2 is not libssh)
                b'SSH-2.0-libssh2_1.11.0', b'SSH-2.0-libssh2-1.4.3', b'SSH-2.0-libssh2_0.18', b'SSH-2.0-libsshd_1.0', b'SSH-2.0-libssh3_1.0', b'SSH-2.0-OpenSSHx_8.0',
                b'SSH-2.0-XOpenSSH_8.9', b'SSH-2.0-openssh_8.9', b'SSH-2.0-dropbear2_2020.81', b'SSH-2.0-Dropbear_2020.81', b'SSH-2.0-mydropbear_2020.81', b'SSH-2.0-libssh',
                b'SSH-2.0-OpenSSH_', b'SSH-2.0-dropbear_', b'SSH-2.0-libssh_x', b'SSH-2.0-AsyncSSH_2.14.0', b'SSH-2.0-paramiko_3.4.0', b'SSH-2.0-Go']
SUFFIXES = {'Dropbear SSH': [b'_agbn_1', b'-Freesco-p49', b'_x'], 'OpenSSH': [b'p1 Debian-5', b'p2', b'p1', b' FreeBSD-20200214']}
CONTROL_NOTE = 'A bug in OpenSSH causes it to fall back to a 2048-bit modulus'


def db_versions():
    """{product: sorted set of server-side first-appeared versions}"""
    db = H.master_db()
    out = {'OpenSSH': set(), 'Dropbear SSH': set(), 'libssh': set()}
    for cat in CATS:
        for name, e in db[cat].items():
            if e[0] and e[0][0]:
                for v in e[0][0].split(','):
                    prod, ver, cli = H.db_version(v)
                    if ver and prod in out:
                        out[prod].add(ver)
    return out


def banners(tier):
    out = []
    dv = db_versions()
    for prod, vers in dv.items():
        vs = set(EXTRA[prod])
        for v in vers:
            vs |= set(around(v))
        vs = sorted(vs)
        if tier == 'quick':
            # every version the database names and the one just below it (the two sides of each availability boundary); of the rest every third
            below = set(x for v in vers for x in around(v) if numcmp(x, v) <= 0)
            vs = sorted(below | set(v for i, v in enumerate(vs) if i % 3 == 0)) + EXTRA[prod][:2]
        for v in sorted(set(vs)):
            out.append((prod, v, (FMT[prod] % v).encode()))
    # vendor builds: a suffix after the version does not make the software older than the release it is built from
    for prod, vers in dv.items():
        sfx = SUFFIXES.get(prod, [])
        for v in sorted(vers):
            for x in (sfx if tier != 'quick' else sfx[:2]):
                out.append((prod, v, (FMT[prod] % v).encode() + x))
    out.append(('TinySSH', '20190101', b'SSH-2.0-tinyssh_20190101'))
    for b in UNRECOGNISED:
        out.append((None, None, b))
    return out


def peer_lists(kind):
    db = H.master_db()
    lists = {}
    for cat in CATS:
        names = [n for n in db[cat] if not n.endswith('-*')]
        if cat == 'kex':
            names += ['gss-gex-sha1-dZuIebMjgUqaxvbF7hDbAw==', 'gss-group14-sha256-a+b/c0==']
        if kind == 'all':
            sel = names
        elif kind == 'even':
            sel = names[0::2]
        elif kind == 'odd':
            sel = names[1::2]
        elif kind == 'clean':
            sel = {'kex': ['sntrup761x25519-sha512@openssh.com'], 'key': ['ssh-ed25519'], 'enc': ['aes256-ctr'], 'mac': ['hmac-sha2-256-etm@openssh.com']}[cat]
        elif kind == 'gex2048':
            sel = {'kex': ['curve25519-sha256', 'diffie-hellman-group-exchange-sha256'], 'key': ['ssh-ed25519', 'rsa-sha2-512'], 'enc': ['aes256-ctr'],
                   'mac': ['hmac-sha2-256']}[cat]
        elif kind == 'gex2048-both':
            sel = {'kex': ['diffie-hellman-group-exchange-sha256', 'diffie-hellman-group-exchange-sha1', 'curve25519-sha256'], 'key': ['ssh-ed25519'], 'enc': ['aes256-ctr'],
                   'mac': ['hmac-sha2-256']}[cat]
        elif kind in ('rsa-partial-2048', 'rsa-partial-1024'):
            sel = {'kex': ['curve25519-sha256'], 'key': ['rsa-sha2-512', 'ssh-ed25519'] if kind.endswith('2048') else ['ssh-rsa'], 'enc': ['aes256-ctr'],
                   'mac': ['hmac-sha2-256']}[cat]
        elif kind == 'terrapin-hardened':
            sel = {'kex': ['curve25519-sha256', 'kex-strict-s-v00@openssh.com'], 'key': ['ssh-ed25519'], 'enc': ['aes256-ctr', 'aes128-gcm@openssh.com'],
                   'mac': ['hmac-sha2-256', 'hmac-sha2-512']}[cat]
        elif kind == 'unknowns':
            sel = names[:3] + ['frob-%s@example.org' % cat]
        elif kind in ('asym-s2c-weak', 'asym-c2s-weak'):
            sel = {'kex': ['curve25519-sha256'], 'key': ['ssh-ed25519'],
                   'enc': ['aes256-ctr', 'aes128-cbc', '3des-cbc', 'chacha20-poly1305@openssh.com'],
                   'mac': ['hmac-sha2-256', 'hmac-sha1-etm@openssh.com', 'hmac-md5']}[cat]
        lists[cat] = list(sel)
    return lists


# the two directions of a KEXINIT may differ; the report rates the server-to-client lists
ASYM_OTHER = {'enc': ['aes256-ctr', 'aes128-gcm@openssh.com'], 'mac': ['hmac-sha2-256', 'hmac-sha2-512']}
PEER_KINDS = ['all', 'even', 'odd', 'clean', 'gex2048', 'gex2048-both', 'rsa-partial-2048', 'rsa-partial-1024', 'terrapin-hardened', 'unknowns', 'asym-s2c-weak', 'asym-c2s-weak']


def make_server(kind, banner):
    l = peer_lists(kind)
    gex = P.GexPolicy([2048] if kind.startswith('gex2048') else [4096], P.OPENSSH if kind.startswith('gex2048') else P.STRICT)
    kw = {}
    if kind == 'asym-s2c-weak':
        kw = dict(enc_c2s=ASYM_OTHER['enc'], mac_c2s=ASYM_OTHER['mac'])
    elif kind == 'asym-c2s-weak':
        kw = dict(enc_c2s=l['enc'], mac_c2s=l['mac'])
        l = dict(l, enc=ASYM_OTHER['enc'], mac=ASYM_OTHER['mac'])
    rsa_bits = 2048 if kind.startswith('gex2048') or kind == 'rsa-partial-2048' else 1024 if kind == 'rsa-partial-1024' else 3072
    l['_rsa_bits'] = rsa_bits
    return P.Server(kex=l['kex'], key=l['key'], enc=l['enc'], mac=l['mac'], banner=banner,
                    host_keys=P.standard_host_keys(l['key'], rsa_bits=rsa_bits), gex=gex, **kw), l


def known_in(prod, version, cat, name):
    """True/False if the DB dates the algorithm for this product (server side); None if the DB has no version info at all."""
    e = H.master_db()[cat].get(name)
    if e is None:
        return False
    if not e[0] or e[0][0] is None:
        return None
    found = False
    for v in e[0][0].split(','):
        p, ver, cli = H.db_version(v)
        if not ver or p != prod or cli:
            continue
        found = True
        try:
            if numcmp(version, ver) >= 0:
                return True
        except ValueError:
            return None
    return False if found or True else None


def dbname(cat, n):
    if cat == 'kex' and n.startswith('gss-'):
        return n[:n.rindex('-')] + '-*'
    return n


def check(prod, version, banner, kind, st):
    check_server(prod, version, banner, kind, (lambda: make_server(kind, banner)), st)


def work_zoo(chunk, st):
    import re
    from props import zoo
    for name in chunk:
        e = zoo.get(name)
        if e['ssh1']:
            continue
        b = e['banner'].decode('utf-8', 'replace')
        prod, version = None, None
        for rx, p in ((r'^SSH-[\d.]+-OpenSSH[_-](\d+(?:\.\d+)*)', 'OpenSSH'), (r'^SSH-[\d.]+-dropbear_(\d+(?:\.\d+)*)', 'Dropbear SSH'), (r'^SSH-[\d.]+-libssh[-_](\d+(?:\.\d+)*)', 'libssh')):
            m = re.match(rx, b)
            if m:
                prod, version = p, m.group(1)
        if prod is None and 'Frob' not in b:
            prod = 'other'       # recognised or not: only the rules that hold either way are applied
        check_server(prod, version, e['banner'], 'zoo:' + name, (lambda e=e: (e['make'](), e['lists'])), st)


def check_server(prod, version, banner, kind, mk, st):
    srv, lists = mk()
    res = H.audit(srv, opts=['-n', '--skip-rate-test', '-j'])
    st.execution(res.world, outcome=(prod, kind if not kind.startswith('zoo:') else 'zoo', res.status), root=(banner, kind), nontrivial=(banner, kind))
    detail = {'banner': banner.decode('utf-8', 'replace'), 'peer': kind}
    if res.status not in (0, 2, 3):
        st.violation('audit-failed', dict(detail, status=res.status, stdout=res.stdout[-300:]))
        return
    doc = json.loads(res.stdout)
    notes = {}
    for cat in CATS:
        for e in doc[cat]:
            notes[(cat, e['algorithm'])] = e.get('notes', {})
    recs = []      # (level, action, cat, name)
    for level, acts in doc.get('recommendations', {}).items():
        for action, cats in acts.items():
            for cat, lst in cats.items():
                for x in lst:
                    recs.append((level, action, cat, x['name']))
    recognised = prod is not None
    # text view shows the same recommendations
    srv2, _ = mk()
    rt = H.audit(srv2, opts=['-n', '--skip-rate-test'])
    rep = report.TextReport(rt.stdout)
    st.execution(rt.world, outcome=('text', rt.status), root=(banner, kind, 'text'))
    sign = {'del': '-', 'add': '+', 'chg': '!'}
    if sorted((sign[a], n, c) for _l, a, c, n in recs) != sorted((s, n, c) for s, n, c, _v, _x in rep.rec):
        st.violation('text-and-json-recommendations-differ', dict(detail, json=sorted((sign[a], n, c) for _l, a, c, n in recs)[:8], text=sorted((s, n, c) for s, n, c, _v, _x in rep.rec)[:8]))
    if not recognised:
        if any(a == 'add' for _l, a, _c, _n in recs):
            st.violation('unrecognised-software-gets-additions', dict(detail, recs=[r for r in recs if r[1] == 'add'][:5]))
    both = set((c, n) for _l, a, c, n in recs if a in ('del', 'chg')) & set((c, n) for _l, a, c, n in recs if a == 'add')
    if both:
        st.violation('recommended-both-ways', dict(detail, names=sorted(both)[:5]))
    for level, action, cat, name in recs:
        adv = name in lists[cat] or any(dbname(cat, a) == name for a in lists[cat])
        nn = notes.get((cat, name), {})
        if action in ('del', 'chg'):
            if not adv:
                st.violation('removal-of-unadvertised-algorithm', dict(detail, cat=cat, name=name))
                continue
            if not (nn.get('fail') or nn.get('warn')):
                st.violation('removal-of-algorithm-without-fail-or-warn', dict(detail, cat=cat, name=name, notes=nn))
            if (level == 'critical') != bool(nn.get('fail')):
                st.violation('critical-not-iff-failure', dict(detail, cat=cat, name=name, level=level, notes=nn))
        else:
            if adv:
                st.violation('addition-of-advertised-algorithm', dict(detail, cat=cat, name=name))
            nf, nw, _ = H.db_levels(cat, name) if name in H.master_db()[cat] else (1, 0, 0)
            if nf or nw:
                st.violation('addition-of-algorithm-with-fail-or-warn', dict(detail, cat=cat, name=name))
            # the RSA signature algorithms share one host key: when the peer's RSA key was measured and rated, none of them is clean
            if cat == 'key' and name in ('ssh-rsa', 'rsa-sha2-256', 'rsa-sha2-512') and lists.get('_rsa_bits', 4096) < 3072 and \
                    any(k in ('ssh-rsa', 'rsa-sha2-256', 'rsa-sha2-512') for k in lists['key']):
                st.violation('addition-of-algorithm-sharing-a-rated-host-key', dict(detail, cat=cat, name=name, rsa_bits=lists['_rsa_bits']))
            if (cat == 'key' and ('-cert-' in name or name.startswith('sk-'))) or (cat == 'kex' and (name.startswith('ext-info-') or name.startswith('kex-strict-'))):
                st.violation('addition-of-cert-sk-or-pseudo-algorithm', dict(detail, cat=cat, name=name))
            if recognised and prod in ('OpenSSH', 'Dropbear SSH', 'libssh') and known_in(prod, version, cat, name) is False:
                st.violation('addition-not-available-in-version:%s' % prod, dict(detail, cat=cat, name=name))
            if prod == 'TinySSH':
                # the database dates no algorithm for TinySSH: nothing can be shown to be available in the identified version
                st.violation('addition-not-available-in-version:TinySSH', dict(detail, cat=cat, name=name))
    if recognised and prod in ('OpenSSH', 'Dropbear SSH', 'libssh'):
        rec_del = set((c, n) for _l, a, c, n in recs if a in ('del', 'chg'))
        for cat in CATS:
            for a in lists[cat]:
                nn = notes.get((cat, a), {})
                if not (nn.get('fail') or nn.get('warn')):
                    continue
                k = known_in(prod, version, cat, dbname(cat, a))
                if k is not True:
                    continue
                if (cat, a) in rec_del or (cat, dbname(cat, a)) in rec_del:
                    continue
                if any(CONTROL_NOTE in t for t in nn.get('info', [])):
                    continue      # the report says this is outside the operator's control
                st.violation('rated-algorithm-not-recommended-for-removal:%s' % ('gss' if a.startswith('gss-') else cat), dict(detail, cat=cat, name=a, notes=nn))
    if st.evaluations % 300 == 2:
        st.sample(dict(detail, recommendations=len(recs)))


# ---- recognised products the database dates nothing for (TinySSH, PuTTY, LANcom ...): the identified version cannot decide anything, so a
# peer announcing the product without a release string gets the removal / change recommendations of the same peer announcing one
UNDATED = [(b'SSH-2.0-tinyssh_', b'SSH-2.0-tinyssh_20190101'), (b'SSH-2.0-lancom', b'SSH-2.0-lancom1.2'), (b'SSH-2.0-PuTTY_Release_', b'SSH-2.0-PuTTY_Release_0.80'),
           (b'SSH-2.0-tinyssh_noversion', b'SSH-2.0-tinyssh_20240101')]


def work_undated(chunk, st):
    for (bare, versioned), kind, role in chunk:
        docs = []
        for b in (bare, versioned):
            if role == 'server':
                res = H.audit(make_server(kind, b), opts=['-n', '--skip-rate-test', '-j'])
            else:
                l = peer_lists(kind)
                res = H.client_audit(P.Client(kex=l['kex'], key=l['key'], enc=l['enc'], mac=l['mac'], banner=b), opts=['-n', '-j'])
            st.execution(res.world, outcome=('undated', res.status), root=('undated', b, kind, role), nontrivial=('undated', b, kind, role))
            try:
                rec = json.loads(res.stdout).get('recommendations', {})
            except ValueError:
                rec = None
            docs.append((res.status, None if rec is None else sorted((lv, a, c, x['name']) for lv, acts in rec.items() for a, cats in acts.items() if a != 'add' for c, lst in cats.items() for x in lst)))
        if docs[0] != docs[1]:
            st.violation('undated-product:removals-depend-on-a-release-string', {'bare': bare.decode(), 'with_release': versioned.decode(), 'peer': kind, 'role': role,
                                                                                  'bare_removals': len(docs[0][1] or []), 'with_release_removals': len(docs[1][1] or []), 'statuses': [docs[0][0], docs[1][0]]})
    st.sample({'undated_pair': [chunk[0][0][0].decode(), chunk[0][0][1].decode()]}, cap=2)


def work(chunk, st):
    for (prod, version, banner), kind in chunk:
        check(prod, version, banner, kind, st)


def work_client(chunk, st):
    """client audits: the single-report consistency rules apply unchanged"""
    for (prod, version, banner), kind in chunk:
        l = peer_lists(kind)
        if kind == 'asym-c2s-weak':       # the client's own sending direction carries the weak names, the other one does not
            cli = P.Client(kex=l['kex'], key=l['key'], enc=l['enc'], mac=l['mac'], enc_s2c=ASYM_OTHER['enc'], mac_s2c=ASYM_OTHER['mac'], banner=banner)
        elif kind == 'asym-s2c-weak':
            cli = P.Client(kex=l['kex'], key=l['key'], enc=ASYM_OTHER['enc'], mac=ASYM_OTHER['mac'], enc_s2c=l['enc'], mac_s2c=l['mac'], banner=banner)
        else:
            cli = P.Client(kex=l['kex'], key=l['key'], enc=l['enc'], mac=l['mac'], banner=banner)
        res = H.client_audit(cli, opts=['-n', '-j'])
        st.execution(res.world, outcome=('client', kind, res.status), root=('client', banner, kind), nontrivial=('client', banner, kind))
        if res.status not in (0, 2, 3):
            st.violation('client:audit-failed', {'banner': banner.decode(), 'peer': kind, 'status': res.status, 'stdout': res.stdout[-200:]})
            continue
        doc = json.loads(res.stdout)
        for what, cat, name in consistency_problems(doc):
            if what == 'rated-algorithm-not-recommended-for-removal':
                continue          # availability in a *client* is not dated by the server-side version columns
            st.violation('client:%s' % what, {'banner': banner.decode(), 'peer': kind, 'cat': cat, 'name': name})
        if prod is None and any('add' in acts for acts in doc.get('recommendations', {}).values()):
            st.violation('client:unrecognised-software-gets-additions', {'banner': banner.decode(), 'peer': kind})


HISTORY_KINDS = ['clean', 'gex2048', 'terrapin-hardened', 'asym-s2c-weak', 'exposed', 'smallrsa']


def history_server(kind, banner):
    if kind == 'exposed':
        return P.Server(kex=['curve25519-sha256'], key=['ssh-ed25519'], enc=['aes256-ctr', 'aes128-cbc', 'chacha20-poly1305@openssh.com'],
                        mac=['hmac-sha2-256', 'hmac-sha2-512-etm@openssh.com'], banner=banner, host_keys=P.standard_host_keys(['ssh-ed25519']))
    if kind == 'terrapin-hardened':
        return P.Server(kex=['curve25519-sha256', 'kex-strict-s-v00@openssh.com'], key=['ssh-ed25519'], enc=['aes256-ctr', 'aes128-cbc', 'chacha20-poly1305@openssh.com'],
                        mac=['hmac-sha2-256', 'hmac-sha2-512-etm@openssh.com'], banner=banner, host_keys=P.standard_host_keys(['ssh-ed25519']))
    if kind == 'smallrsa':
        return P.Server(kex=['curve25519-sha256'], key=['rsa-sha2-512', 'ssh-ed25519'], enc=['aes256-ctr'], mac=['hmac-sha2-256'], banner=banner,
                        host_keys=P.standard_host_keys(['rsa-sha2-512', 'ssh-ed25519'], rsa_bits=1024))
    return make_server(kind, banner)[0]


def consistency_problems(doc):
    """C13 rules that need nothing but one JSON report."""
    out = []
    notes = {}
    for cat in CATS:
        for e in doc.get(cat, []):
            notes[(cat, e['algorithm'])] = e.get('notes', {})
    for level, acts in doc.get('recommendations', {}).items():
        for action, cats in acts.items():
            for cat, lst in cats.items():
                for x in lst:
                    nn = notes.get((cat, x['name']))
                    if action in ('del', 'chg'):
                        if nn is None:
                            out.append(('removal-of-unadvertised-algorithm', cat, x['name']))
                        elif not (nn.get('fail') or nn.get('warn')):
                            out.append(('removal-of-algorithm-without-fail-or-warn', cat, x['name']))
                        elif (level == 'critical') != bool(nn.get('fail')):
                            out.append(('critical-not-iff-failure', cat, x['name']))
                    elif nn is not None:
                        out.append(('addition-of-advertised-algorithm', cat, x['name']))
    rec_del = set((cat, x['name']) for lvl in doc.get('recommendations', {}).values() for a in ('del', 'chg') for cat, lst in lvl.get(a, {}).items() for x in lst)
    for (cat, name), nn in notes.items():
        if (nn.get('fail') or nn.get('warn')) and (cat, name) not in rec_del and name in H.master_db()[cat]:
            if any(CONTROL_NOTE in t for t in nn.get('info', [])):
                continue
            e = H.master_db()[cat][name]
            if e[0] and e[0][0] and any(not v.startswith(('d', 'l')) and not v.endswith('C') for v in e[0][0].split(',')):
                out.append(('rated-algorithm-not-recommended-for-removal', cat, name))
    return out


def work_history(chunk, st):
    import itertools
    banner = b'SSH-2.0-OpenSSH_9.6'
    for kinds in chunk:
        servers = [history_server(k, banner) for k in kinds]
        res, outs = H.audit_sequence(servers, opts=['-n', '--skip-rate-test', '-j'])
        st.execution(res.world, outcome=('history', len(kinds)), root=('history', kinds), nontrivial=('history', kinds))
        if not isinstance(outs, list) or len(outs) != len(kinds):
            st.violation('history:output-shape', {'kinds': kinds, 'stdout': res.stdout[-200:]})
            continue
        for k, doc in zip(kinds, outs):
            for what, cat, name in consistency_problems(doc):
                st.violation('history:%s' % what, {'targets_in_run': kinds, 'target': k, 'cat': cat, 'name': name})
    st.sample({'history': list(chunk[0])}, cap=12)


# ---- names listed more than once (legal, and seen in the wild): the rules speak of algorithms, not of occurrences
REPEAT_SETS = {
    'cbc+etm': dict(enc=['aes256-ctr', 'aes128-cbc'], mac=['hmac-sha2-256-etm@openssh.com', 'hmac-sha2-256'], rep=('enc', 'aes128-cbc')),
    'etm': dict(enc=['aes256-ctr', 'aes128-cbc'], mac=['hmac-sha2-256-etm@openssh.com', 'hmac-sha2-256'], rep=('mac', 'hmac-sha2-256-etm@openssh.com')),
    'chacha': dict(enc=['chacha20-poly1305@openssh.com', 'aes256-ctr'], mac=['hmac-sha2-256'], rep=('enc', 'chacha20-poly1305@openssh.com')),
    'warn-kex': dict(kex=['curve25519-sha256', 'diffie-hellman-group14-sha256'], rep=('kex', 'diffie-hellman-group14-sha256')),
    'fail-mac': dict(mac=['hmac-sha2-256', 'hmac-md5'], rep=('mac', 'hmac-md5')),
    'rsa-2048': dict(key=['rsa-sha2-512', 'ssh-ed25519'], rep=('key', 'rsa-sha2-512')),
}


def work_repeats(chunk, st):
    for name, k, where in chunk:
        spec = REPEAT_SETS[name]
        cat, alg = spec['rep']
        lists = {'kex': ['curve25519-sha256'], 'key': ['ssh-ed25519'], 'enc': ['aes256-ctr'], 'mac': ['hmac-sha2-256']}
        for c in lists:
            if c in spec:
                lists[c] = list(spec[c])
        base = [x for x in lists[cat] if x != alg]
        lists[cat] = {'front': [alg] * k + base, 'back': base + [alg] * k, 'around': [alg] * (k // 2) + base + [alg] * (k - k // 2)}[where]
        banner = b'SSH-2.0-OpenSSH_9.6'

        def mk(lists=lists):
            srv = P.Server(banner=banner, host_keys=P.standard_host_keys(lists['key'], rsa_bits=2048), kex=lists['kex'], key=lists['key'], enc=lists['enc'], mac=lists['mac'])
            return srv, {c: list(v) for c, v in lists.items()}
        check_server('OpenSSH', '9.6', banner, 'repeat:%s:x%d:%s' % (name, k, where), mk, st)
    st.sample({'repeated_name': list(chunk[0])}, cap=4)


def run(tier, seed):
    t0 = time.time()
    bs = banners(tier)
    tasks = [(b, k) for b in bs for k in PEER_KINDS]
    st = par.pmap(work, tasks, chunk=4)
    import itertools
    hist = list(itertools.permutations(HISTORY_KINDS, 2)) + (list(itertools.permutations(HISTORY_KINDS, 3)) if tier != 'quick' else
                                                              [('exposed', 'terrapin-hardened', 'exposed'), ('smallrsa', 'clean', 'smallrsa'), ('gex2048', 'clean', 'gex2048')])
    par.pmap(work_history, hist, stats=st, chunk=2)
    par.pmap(work_undated, [(pr, k, r) for pr in UNDATED for k in ('all', 'even', 'odd', 'clean') for r in ('server', 'client')], stats=st, chunk=2)
    from props import zoo
    par.pmap(work_zoo, [n for n in zoo.names(tier) if not n.startswith('c13:')], stats=st, chunk=4)
    from props import faultinv as _FI
    par.pmap(_FI.work, _FI.tasks(), extra=(('recs',),), stats=st, chunk=6)
    par.pmap(work_repeats, [(n, k, w) for n in sorted(REPEAT_SETS) for k in (2, 3, 8, 9, 10, 11, 30) for w in ('front', 'back', 'around')], stats=st, chunk=4)
    par.pmap(work_client, [(b, k) for b in bs[::4] for k in ('all', 'even', 'odd', 'clean', 'terrapin-hardened', 'unknowns', 'asym-c2s-weak', 'asym-s2c-weak')], stats=st, chunk=4)
    from props import delivery as _DL
    par.pmap(_DL.work, _DL.tasks(tier), extra=(('recs',),), stats=st, chunk=12)
    from props import decor as _DC
    par.pmap(_DC.work, _DC.tasks(tier), extra=(('recs',),), stats=st, chunk=8)
    vcases = []
    for (prod, version, banner), kind in H.pick(tasks, seed, 12 if tier == 'quick' else 60):
        vcases.append({'label': '%s %s' % (banner, kind), 'opts': ['-n'] + (['-j'] if len(vcases) % 2 else []), 'make': (lambda kind=kind, banner=banner: make_server(kind, banner)[0])})
    validated = H.validate_traces(vcases, st)
    return evidence.finish(
        PID, tier, seed, st, t0,
        rule='%d banners (OpenSSH/Dropbear/libssh at every first-appeared version in the DB, its nearest neighbours and multi-digit versions; TinySSH; '
             'unrecognised software) x %d peers (all DB names; even/odd-indexed names so every entry occurs advertised and not advertised; clean; '
             'OpenSSH 2048-bit GEX (one and both algorithms); Terrapin-hardened; unknown names) x {json, text}; the same rules over the peers of props/zoo.py; peers listing one algorithm 2..30 times (six note profiles x three placements)' % (len(bs), len(PEER_KINDS)),
        assumptions=['ratings are read from the same report (JSON notes); availability uses numeric version order',
                     'entries without any version information are not required either way'],
        exhaustive=True, traces_validated=validated, extra={'banners': len(bs)})


def replay(path):
    v = json.load(open(path))
    d = v['detail']
    st = evidence.Stats()
    for (prod, version, banner) in banners('thorough'):
        if banner.decode() == d['banner']:
            check(prod, version, banner, d['peer'], st)
            break
    for x in st.violations:
        print('replayed:', x['sig'], json.dumps(x['detail'])[:500])
    return 1 if st.violations else 0
