"""Shared fault-space exploration for C09 (robustness) and C19 (footprint).

Archetypes are valid transcripts; every (connection, message, fault) of the menu is applied to each (bound 1),
and pairs of message-level faults on different connections at bound 2 (thorough).
"""
import json

from mc import explore, harness as H, peer, report, runner, vnet, wire

TIMEOUT = 5.0

OPENSSH = b'SSH-2.0-OpenSSH_8.9p1 Ubuntu-3'


def _srv_A(short=True):
    # minimal SSH-2 server: nothing the tool can probe
    return peer.Server(label='A', kex=['sntrup761x25519-sha512@openssh.com'], key=['ssh-ed25519-unknown@example.org'],
                       enc=['aes256-ctr'], mac=['hmac-sha2-256'])


def _srv_B(short=True):
    key = ['rsa-sha2-512', 'ssh-ed25519', 'ssh-rsa-cert-v01@openssh.com'] if short else \
          ['rsa-sha2-512', 'rsa-sha2-256', 'ssh-rsa', 'ecdsa-sha2-nistp256', 'ssh-ed25519', 'ssh-rsa-cert-v01@openssh.com',
           'ssh-ed25519-cert-v01@openssh.com']
    kex = ['curve25519-sha256'] if short else ['curve25519-sha256', 'curve25519-sha256@libssh.org', 'ecdh-sha2-nistp256',
                                                'diffie-hellman-group16-sha512', 'kex-strict-s-v00@openssh.com']
    enc = ['aes256-ctr'] if short else ['chacha20-poly1305@openssh.com', 'aes128-ctr', 'aes256-gcm@openssh.com', 'aes128-cbc']
    mac = ['hmac-sha2-256'] if short else ['umac-128-etm@openssh.com', 'hmac-sha2-256-etm@openssh.com', 'hmac-sha1']
    return peer.Server(label='B', kex=kex, key=key, enc=enc, mac=mac, banner=OPENSSH,
                       host_keys=peer.standard_host_keys(key, rsa_bits=2048, ca='rsa', ca_bits=1024))


def _srv_C(short=True):
    kex = ['diffie-hellman-group-exchange-sha256', 'diffie-hellman-group-exchange-sha1']
    if not short:
        kex = ['curve25519-sha256'] + kex + ['diffie-hellman-group14-sha256']
    key = ['ssh-ed25519'] if short else ['rsa-sha2-512', 'ssh-ed25519']
    return peer.Server(label='C', kex=kex, key=key, banner=OPENSSH, host_keys=peer.standard_host_keys(key, rsa_bits=3072),
                       gex=peer.GexPolicy([2048, 3072, 4096] if not short else [1536, 2048], peer.OPENSSH if not short else peer.STRICT))


def _srv_D1(short=True):
    # classic DH group first: the tool computes e = g^x mod p for a fixed group
    key = ['ssh-rsa']
    return peer.Server(label='D1', kex=['diffie-hellman-group14-sha256', 'diffie-hellman-group1-sha1'], key=key,
                       host_keys=peer.standard_host_keys(key, rsa_bits=1024))


def _srv_D2(g=2, pbits=None, p=None):
    # GEX only: the host-key probe itself runs over group exchange with the *server's* p and g
    key = ['ssh-ed25519']
    s = peer.Server(label='D2', kex=['diffie-hellman-group-exchange-sha256'], key=key,
                    host_keys=peer.standard_host_keys(key), gex=peer.GexPolicy([2048], peer.ROUNDUP, g=g))
    if p is not None:
        s._gex_prime = lambda bits: p
    return s


def _srv_E(short=True):
    return peer.Server(label='E', banner=b'SSH-1.5-OpenSSH_3.4', ssh1={'cmask': 0x4c, 'amask': 0x2c}, versions_differ=True)


def _srv_E1(short=True):
    return peer.Server(label='E1', banner=b'SSH-1.5-1.2.27', ssh1={'cmask': 0x0e, 'amask': 0x0c})


def _srv_E2(short=True):
    # an old daemon that accepts none of the versions the tool offers: every connection is answered with the text error
    return peer.Server(label='E2', banner=b'SSH-1.5-OpenSSH_3.4', ssh1={'cmask': 0x4c, 'amask': 0x2c}, versions_differ='always')


def _srv_F(short=True):
    return peer.Server(label='F', banner=b'SSH-1.99-OpenSSH_3.4', ssh1={'cmask': 0x48, 'amask': 0x0c}, versions_differ=True,
                       kex=['diffie-hellman-group1-sha1'], key=['ssh-rsa'], enc=['3des-cbc'], mac=['hmac-md5'])


def _srv_DUP(short=True):
    # a (legal) KEXINIT that repeats names: probing is per distinct algorithm, not per occurrence
    key = ['ssh-ed25519', 'rsa-sha2-512', 'ssh-ed25519', 'rsa-sha2-256', 'rsa-sha2-512']
    gexn = ['diffie-hellman-group-exchange-sha256'] * 4 + ['diffie-hellman-group-exchange-sha1'] * 3
    return peer.Server(label='DUP', kex=['curve25519-sha256'] + gexn + ['curve25519-sha256'], key=key, banner=OPENSSH,
                       host_keys=peer.standard_host_keys(key), gex=peer.GexPolicy([2048, 4096] if short else [], peer.STRICT))


ARCHETYPES = {
    'A': dict(make=_srv_A, opts=[], role='server'),
    'B': dict(make=_srv_B, opts=[], role='server'),
    'C': dict(make=_srv_C, opts=[], role='server'),
    'D1': dict(make=_srv_D1, opts=[], role='server'),
    'D2': dict(make=_srv_D2, opts=[], role='server'),
    'E': dict(make=_srv_E, opts=[], role='server'),
    'E1': dict(make=_srv_E1, opts=['-1'], role='server'),
    'E2': dict(make=_srv_E2, opts=[], role='server'),
    'F': dict(make=_srv_F, opts=[], role='server'),
    'G': dict(make=None, opts=[], role='client'),
    'DUP': dict(make=_srv_DUP, opts=[], role='server'),
}


def scenario(arch, short=True, rate=False, extra_opts=(), world_kw=None, via_targets_file=False):
    """-> callable(faults) -> Result"""
    a = ARCHETYPES[arch]

    def run(faults):
        opts = ['-n'] + list(a['opts']) + list(extra_opts)
        if a['role'] == 'client':
            cli = peer.Client(label='G', kex=['curve25519-sha256', 'kex-strict-c-v00@openssh.com'], key=['ssh-ed25519', 'rsa-sha2-512'],
                              enc=['aes256-ctr', 'aes128-cbc'], mac=['hmac-sha2-256-etm@openssh.com'])
            res = H.client_audit(cli, opts=opts + ['-t', '5'], faults=faults, world_kw=world_kw)
            res.peer = cli
            return res
        srv = a['make'](short)
        if not rate:
            opts.append('--skip-rate-test')
        res = H.audit(srv, opts=opts, faults=faults, world_kw=world_kw, via_targets_file=via_targets_file)
        res.peer = srv
        return res
    return run


# A fault on the initial handshake that leaves the byte stream unchanged (TCP may segment anywhere) or only adds
# text lines before the identification string (RFC 4253 s4.2 allows them) keeps the handshake well-formed.
BENIGN = ('split', 'seg1', 'prelines')


def initial_conns(arch):
    # E and F: the first SSH-2 attempt is answered by "Protocol major versions differ." and the tool reconnects in SSH-1.
    return 2 if arch in ('E', 'E2', 'F') else 1


def advertised(res, arch):
    p = res.peer
    if arch == 'G':
        return {'kex': p.kex, 'key': p.key, 'enc': p.enc_s2c, 'mac': p.mac_s2c}
    if arch in ('E', 'E1', 'E2', 'F'):
        cm, am = p.ssh1['cmask'], p.ssh1['amask']
        ciphers = ['none', 'idea', 'des', '3des', 'tss', 'rc4', 'blowfish']
        auths = ['none', 'rhosts', 'rsa', 'password', 'rhosts_rsa', 'tis', 'kerberos']
        return {'key': ['ssh-rsa1'], 'enc': [c for i, c in enumerate(ciphers) if cm & (1 << i)],
                'aut': [a for i, a in enumerate(auths) if i >= 1 and am & (1 << i)]}
    return {'kex': p.kex, 'key': p.key, 'enc': p.enc, 'mac': p.mac}


WORK_CAP_BITS = 16384


def judge_c09(res, arch, plan):
    """-> list of (signature, detail)"""
    probs = []
    w = res.world
    nconn = len(w.conns)
    plan_t = [(tuple(k), tuple(f)) for k, f in plan]
    if res.hang:
        return [('hang:%s' % _site_sig(plan_t, w), res.hang)]
    if res.exc:
        probs.append(('escaped-exception:%s' % res.exc.split(':')[0], res.exc))
        return probs
    if res.status not in (0, 1, 2, 3):
        tb = [l for l in (res.stdout + res.stderr).strip().split('\n') if l.strip()]
        last = tb[-1] if tb else ''
        site = _trace_site(res.stdout + res.stderr)
        probs.append(('status-%s:%s:%s' % (res.status, last.split(':')[0][:40], site), last[:300]))
        return probs
    # work chosen by the peer: a DH secret drawn for a modulus far beyond anything the tool asks for (it requests at most 8192 bits;
    # a 32768-bit group costs about a minute of exponentiation per probe, which no timeout covers)
    if getattr(w, 'max_random_range_bits', 0) > WORK_CAP_BITS:
        probs.append(('unbounded-work:dh-secret-for-a-%d-bit-peer-chosen-modulus' % (1 << (w.max_random_range_bits - 1).bit_length()), 'secret of %d bits drawn' % w.max_random_range_bits))
    bound = TIMEOUT * (nconn + 2) + 2.0
    if res.clock > bound:
        probs.append(('too-slow:%s' % _site_sig(plan_t, w), 'virtual time %.1fs > %.1fs for %d connections' % (res.clock, bound, nconn)))
    rep = report.TextReport(res.stdout)
    if arch == 'E2':
        # a peer that answers every connection with the version-mismatch text never completes a handshake: whatever else goes wrong,
        # no algorithm report and status 1
        if rep.has_alg_report():
            probs.append(('fooled:%s' % (_site_sig(plan_t, w) or 'no-fault'), 'status %s' % res.status))
        elif res.status != 1:
            probs.append(('no-report-but-status-%s:%s' % (res.status, _site_sig(plan_t, w) or 'no-fault'), res.stdout[-300:]))
        return probs
    init = initial_conns(arch)
    touched_init = [(k, f) for k, f in plan_t if k[1] < init]
    hard_init = [(k, f) for k, f in touched_init if f[0] not in BENIGN]
    adv = advertised(res, arch)
    shown = {c: rep.names(c) for c in adv}
    complete = all(shown[c] == [n for n in adv[c] if n.strip()] for c in adv)
    if not touched_init:
        if not complete or res.status not in (0, 2, 3):
            probs.append(('probe-fault-loses-report:%s' % _last_line(res.stdout),
                          'faults %s; status %s; shown %s; advertised %s' % (_site_sig(plan_t, w), res.status, shown, adv)))
    elif not hard_init:
        if not complete or res.status not in (0, 2, 3):
            probs.append(('wellformed-handshake-rejected:%s' % ','.join(f[0] for _k, f in touched_init),
                          'status %s; shown %s; stdout tail %r' % (res.status, shown, res.stdout[-300:])))
    else:
        # malformed (or possibly still well-formed, e.g. interleaved DEBUG) initial handshake: all-or-nothing
        if rep.has_alg_report():
            if not complete or res.status not in (0, 2, 3):
                probs.append(('fooled:%s' % _site_sig(plan_t, w), 'status %s; shown %s; advertised %s' % (res.status, shown, adv)))
            elif not _stream_preserving(hard_init, w):
                probs.append(('report-after-malformed-handshake:%s' % _site_sig(plan_t, w), 'status %s' % res.status))
        elif res.status != 1:
            probs.append(('no-report-but-status-%s:%s' % (res.status, _site_sig(plan_t, w)), res.stdout[-300:]))
    return probs


def _stream_preserving(faults, w):
    # faults after which the peer's byte stream still starts with a complete, correct handshake:
    # interleaved DEBUG packets; a duplicate of the *last* message of the connection; the final newline of the
    # "Protocol major versions differ." text missing.
    for k, f in faults:
        same = [s for s in w.sites if s['key'][:2] == k[:2] and s['key'][2] >= 0]
        site = next((s for s in same if s['key'] == k), None)
        if f[0] == 'debug':
            continue
        if f[0] in ('dup', 'then_reset') and site is not None and same and same[-1]['key'] == k:
            continue
        if f[0] == 'trunc_close' and site is not None and site['label'] == 'versions_differ' and f[1] >= site['len'] - 1:
            continue
        return False
    return True


def _last_line(text):
    ls = [l.strip() for l in text.strip().split('\n') if l.strip()]
    return (ls[-1] if ls else '')[:80]


def _site_sig(plan_t, w):
    labels = {s['key']: s['label'] for s in w.sites}
    out = []
    for k, f in plan_t:
        lab = labels.get(k, '?')
        fk = f[0]
        if fk == 'len':
            site = next((s for s in w.sites if s['key'] == k), None)
            fname = site['fields'][f[1]][1] if site and f[1] < len(site['fields']) else '?'
            fk = 'len(%s=%s)' % (fname.split('.')[-1], f[2])
        out.append('%s/%s' % (lab, fk))
    return '+'.join(out)


def _trace_site(text):
    """innermost ssh_audit frame of a traceback: 'file.py:function'"""
    import re
    frames = re.findall(r'File "[^"]*/ssh_audit/([a-z0-9_]+\.py)", line \d+, in (\S+)', text)
    return '%s:%s' % frames[-1] if frames else '-'


def judge_c19(res, arch, plan, rate):
    probs = []
    w = res.world
    if res.hang:
        return [('hang', res.hang)]
    p = res.peer
    recs = p.records
    adv_key = getattr(p, 'key', [])
    adv_kex = getattr(p, 'kex', [])
    # "at most one per probed host-key type": every distinct advertised name the probe table knows (the RSA family shares one
    # probe when it succeeds, but each member may be probed when an earlier member's probe failed)
    HK = runner.M['hostkeytest'].HostKeyTest
    probed_types = len(set(t for t in adv_key if t in HK.HOST_KEY_TYPES))
    gex_algs = sorted(set(k for k in adv_kex if k in peer.GEX_NAMES))      # per offered algorithm, however often it is listed
    init = initial_conns(arch)
    rate_cap = 38 + 3 + 20 if rate else 0     # completed + concurrent in flight + attempts during the 1.5 s window
    cap = init + probed_types + 9 * len(gex_algs) + rate_cap
    if arch == 'G':
        cap = 1
    n = len(w.conns)
    if n > cap:
        probs.append(('too-many-connections', '%d connections > bound %d (host-key types %d, gex algs %d, rate %s)' % (n, cap, probed_types, len(gex_algs), rate)))
    # per phase: a fixed-group / curve exchange is only ever started by a host-key probe, and there is at most one probe per distinct key type
    # the peer lists - however often it lists it, and whether or not the probe's reply arrives
    n30 = len([r for r in recs if any(pk['type'] == 30 for pk in r.get('packets_in', []))])
    if arch != 'G' and n30 > probed_types:
        probs.append(('more-host-key-probes-than-key-types', '%d connections carried a key-exchange init, %d distinct probed key types offered' % (n30, probed_types)))
    # ... and each probe connection says which key type it is for (the tool's own KEXINIT on it lists that one type): no type twice
    asked = {}
    for r in recs:
        pks = r.get('packets_in', [])
        if arch == 'G' or not any(pk['type'] == 30 for pk in pks):
            continue
        for pk in pks:
            if pk['type'] == 20 and pk.get('payload'):
                try:
                    ks = wire.names_of(wire.parse_kexinit(bytes(pk['payload']))['key'])
                except Exception:
                    ks = []
                if len(ks) == 1:
                    asked.setdefault(ks[0], []).append(r['index'])
                break
    for t, idxs in sorted(asked.items()):
        if len(idxs) > 1:
            probs.append(('host-key-type-probed-twice', '%s asked for on connections %s' % (t, idxs)))
    # key-exchange computation requests: only on probe connections, at most one exchange per connection
    for r in recs:
        kexmsgs = [pk for pk in r.get('packets_in', []) if pk['type'] in (30, 32, 34)]
        inits = [pk for pk in r.get('packets_in', []) if pk['type'] in (30, 32)]
        if r['index'] < init and kexmsgs and arch != 'G':
            probs.append(('kex-request-on-initial-connection', 'connection %d got %s' % (r['index'], [pk['type'] for pk in kexmsgs])))
        types = [pk['type'] for pk in r.get('packets_in', [])]
        if kexmsgs and (20 not in types or types.index(20) > min(types.index(t) for t in (30, 32, 34) if t in types)):
            probs.append(('kex-request-without-preceding-kexinit', 'connection %d got %s' % (r['index'], types)))
        # one request per connection: a group-exchange request (34) or a fixed-group / curve init (30), never one after the other
        if len(inits) > 1 or len([pk for pk in kexmsgs if pk['type'] == 34]) > 1 or len([pk for pk in kexmsgs if pk['type'] in (30, 34)]) > 1:
            probs.append(('multiple-exchanges-on-one-connection', 'connection %d got %s' % (r['index'], [pk['type'] for pk in kexmsgs])))
    # concurrency (sockets connected at the same time) and closure at exit
    open_now, peak = 0, 0
    live = set()
    for ev in w.log:
        if ev[0] in ('established', 'accept'):
            live.add(ev[1])
            peak = max(peak, len(live))
        elif ev[0] in ('close', 'recv-rst', 'peer-reset-seen'):      # a connection the peer has aborted no longer exists on the target
            live.discard(ev[1])
    maxc = 3 if rate else initial_conns(arch)   # the SSH-1 fallback runs while the first (SSH-2) connection is still held
    if peak > maxc:
        probs.append(('too-many-concurrent', 'peak %d concurrent connections > %d' % (peak, maxc)))
    leaked = [s.fd for s in w.sockets if not s.closed]
    if leaked:
        probs.append(('socket-left-open', '%d sockets not closed at exit: fds %s' % (len(leaked), leaked[:5])))
    return probs
