"""C14 - software versions are ordered numerically, component by component."""
import itertools
import json
import time

from mc import evidence, harness as H, par, peer as P, report, runner

PID = 'C14'
Software = runner.M['software'].Software
Banner = runner.M['banner'].Banner
Product = runner.M['product'].Product
Algorithm = runner.M['algorithm'].Algorithm

COMP = [0, 1, 2, 3, 4, 5, 6, 7, 8, 9, 10, 11, 12, 99, 100, 101, 2013, 2019, 2020]
COMP34 = [0, 1, 9, 10, 11, 99, 100]
PRODUCTS = {
    'OpenSSH': ('SSH-2.0-OpenSSH_%s%s', ['', 'p1', 'p2']),
    'Dropbear SSH': ('SSH-2.0-dropbear_%s%s', ['', 'test1']),
    'libssh': ('SSH-2.0-libssh-%s%s', ['']),
}


def mk(product, ver, patch=''):
    fmt, _ = PRODUCTS[product]
    b = Banner.parse(fmt % (ver, patch))
    return Software.parse(b)


def vt(ver):
    return tuple(int(x) for x in ver.split('.'))


def numcmp(a, b):
    ta, tb = vt(a), vt(b)
    n = max(len(ta), len(tb))
    ta, tb = ta + (0,) * (n - len(ta)), tb + (0,) * (n - len(tb))
    return (ta > tb) - (ta < tb)


def sign(x):
    return (x > 0) - (x < 0)


def vclass(a, b):
    """which kind of pair: multi-digit component involved or not"""
    multi = any(len(x) != len(y) for x, y in zip(a.split('.'), b.split('.')))
    return 'multi-digit-component' if multi else 'same-width-components'


def versions12():
    out = [str(a) for a in COMP]
    out += ['%d.%d' % (a, b) for a in COMP for b in COMP]
    return out


def versions34(tier):
    # three- and four-component versions both (an earlier revision cut this list off before the first four-component entry)
    c3 = [0, 9, 10, 100] if tier == 'quick' else [0, 1, 9, 10, 99, 100]
    c4 = [0, 9, 10] if tier == 'quick' else [0, 1, 9, 10]
    out = ['%d.%d.%d' % t for t in itertools.product(c3, repeat=3)]
    out += ['%d.%d.%d.%d' % t for t in itertools.product(c4, repeat=4)]
    return out


def work_pairs(chunk, st):
    for product, vs, lo, hi in chunk:
        objs = {v: mk(product, v) for v in vs}
        for a in vs[lo:hi]:
            sa = objs[a]
            if sa is None and '.' not in a:
                continue     # a bare single number is not a release number the banner grammar recognises
            if sa is None or sa.version != a:
                st.violation('version-not-extracted:%s' % product, {'version': a, 'got': None if sa is None else sa.version})
                continue
            for b in vs:
                # the right-hand side is a plain version string (as in the database's "appeared in" fields): bare single numbers included
                r = sa.compare_version(b)
                want = numcmp(a, b)
                st.evaluations += 1
                st.transitions += 1
                st.states.add(hash((product, a, b, r)))
                if want != 0:
                    st.nontrivial.add(hash((product, a, b)))
                if want != 0 and sign(r) != want:
                    st.violation('order:%s:%s' % (product, vclass(a, b)), {'product': product, 'a': a, 'b': b, 'tool': r, 'numeric': want})
                rb = objs[b].compare_version(a) if objs[b] is not None else None
                if rb is not None and sign(rb) != -sign(r):
                    st.violation('antisymmetry:%s' % product, {'product': product, 'a': a, 'b': b, 'ab': r, 'ba': rb})
        st.states.add(hash((product, lo, hi, len(vs))))
        st.nontrivial.add(hash((product, lo, len(vs))))
        st.outcomes[(product, 'pairs')] += (hi - lo) * len(vs)
    st.sample({'product': chunk[0][0], 'versions': chunk[0][1][chunk[0][2]:chunk[0][2] + 3], 'against': len(chunk[0][1])}, cap=5)


# ---- every spelling of an identification string the software parser recognises: the order of versions is the numeric one under each of
# them, and a product's recommendations do not depend on how its name is spelt
SPELLINGS = {'OpenSSH': ['SSH-2.0-OpenSSH_%s', 'SSH-2.0-OpenSSH-%s', 'SSH-2.0-OpenSSH.%s', 'SSH-1.99-OpenSSH_%s', 'SSH-2.0-OpenSSH_%sp1 Debian-5'],
             'Dropbear SSH': ['SSH-2.0-dropbear_%s'], 'libssh': ['SSH-2.0-libssh-%s', 'SSH-2.0-libssh_%s'], 'RomSShell': ['SSH-2.0-RomSShell_%s'],
             'mpSSH': ['SSH-2.0-mpSSH_%s'], 'Cisco': ['SSH-2.0-Cisco-%s'], 'tinyssh': ['SSH-2.0-tinyssh_%s'], 'PuTTY': ['SSH-2.0-PuTTY_Release_%s']}
SPELL_VERSIONS = ['0.2', '0.9', '0.10', '0.10.4', '0.11.1', '0.4.1', '0.7.0', '0.7.3', '0.9.6', '1.0', '1.25', '2.9', '2.10', '4.62', '7.4', '8.9', '9.9', '9.10', '10.0', '10.0.2', '12.4', '15.2',
                  '100.1', '2019.78', '2020.79', '2024.85', '2025.100']


def work_spellings(chunk, st):
    for product, fmt in chunk:
        objs = {}
        for v in SPELL_VERSIONS:
            b = Banner.parse(fmt % v)
            objs[v] = Software.parse(b) if b is not None else None
        for a in SPELL_VERSIONS:
            sa = objs[a]
            st.execution(None, outcome=('spelling', product, sa is not None), root=('spelling', fmt, a), nontrivial=('spelling', fmt, a))
            if sa is None or sa.version != a:
                st.violation('spelling:version-not-extracted:%s' % product, {'banner': fmt % a, 'got': None if sa is None else sa.version})
                continue
            for b in SPELL_VERSIONS:
                r, want = sa.compare_version(b), numcmp(a, b)
                st.evaluations += 1
                if want != 0 and sign(r) != want:
                    st.violation('spelling:order:%s:%s' % (product, vclass(a, b)), {'banner': fmt % a, 'against': b, 'tool': r, 'numeric': want})
                if objs[b] is not None and sign(objs[b].compare_version(a)) != -sign(r):
                    st.violation('spelling:antisymmetry:%s' % product, {'banner': fmt, 'a': a, 'b': b})
                if objs[b] is not None:
                    ro = sa.compare_version(objs[b])
                    if want != 0 and sign(ro) != want:
                        st.violation('spelling:order-against-a-parsed-banner:%s:%s' % (product, vclass(a, b)), {'banner': fmt % a, 'against': fmt % b, 'tool': ro, 'numeric': want})
    st.sample({'spellings': [list(x) for x in chunk[:2]]}, cap=4)


def work_spelling_cli(chunk, st):
    import json as _json
    for product, v in chunk:
        docs = {}
        for fmt in SPELLINGS[product]:
            srv = P.Server(banner=(fmt % v).encode(), kex=['curve25519-sha256', 'diffie-hellman-group14-sha1', 'ecdh-sha2-nistp256'], key=['ssh-rsa', 'ssh-ed25519'],
                           enc=['aes128-cbc', '3des-cbc', 'aes256-ctr'], mac=['hmac-sha1', 'hmac-sha2-256'], host_keys=P.standard_host_keys(['ssh-rsa', 'ssh-ed25519'], rsa_bits=2048))
            res = H.audit(srv, opts=['-n', '--skip-rate-test', '-j'])
            st.execution(res.world, outcome=('spelling-cli', product, res.status), root=('spelling-cli', fmt, v), nontrivial=('spelling-cli', fmt, v))
            try:
                d = _json.loads(res.stdout)
                docs[fmt] = (res.status, d.get('recommendations'), [(e['algorithm'], sorted(e.get('notes', {}).items())) for c in ('kex', 'key', 'enc', 'mac') for e in d.get(c, [])])
            except ValueError:
                docs[fmt] = (res.status, None, res.stdout[-200:])
        ref = docs[SPELLINGS[product][0]]
        for fmt, got in docs.items():
            if got != ref:
                what = 'status' if got[0] != ref[0] else 'recommendations' if got[1] != ref[1] else 'notes'
                st.violation('spelling:%s-differ-between-spellings:%s' % (what, product), {'version': v, 'banner': fmt % v, 'reference_banner': SPELLINGS[product][0] % v,
                                                                                           'this': str(got[1])[:300], 'reference': str(ref[1])[:300]})
    st.sample({'spelling_cli': [list(x) for x in chunk[:2]]}, cap=4)


def mixed_set(product):
    _, patches = PRODUCTS[product]
    vs = ['0.9', '0.10', '0.10.5', '1', '1.0', '1.2.3', '2.3.0', '2.9', '2.10', '3.9', '4.4', '6.6', '6.9', '7.4', '8.9', '9', '9.9', '9.10',
          '10.0', '10.1', '11', '99.1', '100.0', '2013.62', '2019.78', '2020.79', '2024.85', '0.5.3', '0.7.0', '0.10.0']
    out = []
    for v in vs:
        for p in patches:
            out.append((v, p))
    return out[:60]


def check_triples(product, st):
    ms = [x for x in mixed_set(product) if mk(product, x[0], x[1]) is not None]
    objs = [mk(product, v, p) for v, p in ms]
    n = len(ms)
    cmpm = [[None] * n for _ in range(n)]
    for i in range(n):
        for j in range(n):
            other = '%s%s' % ms[j]
            cmpm[i][j] = sign(objs[i].compare_version(other))
            st.evaluations += 1
    for i in range(n):
        for j in range(n):
            if cmpm[i][j] != -cmpm[j][i]:
                st.violation('antisymmetry:%s:with-patch' % product, {'a': ms[i], 'b': ms[j], 'ab': cmpm[i][j], 'ba': cmpm[j][i]})
            want = numcmp(ms[i][0], ms[j][0])
            if want != 0 and cmpm[i][j] != want:
                st.violation('order:%s:%s' % (product, vclass(ms[i][0], ms[j][0])), {'a': ms[i], 'b': ms[j], 'tool': cmpm[i][j], 'numeric': want})
    bad = 0
    for i, j, k in itertools.product(range(n), repeat=3):
        st.transitions += 1
        if cmpm[i][j] <= 0 and cmpm[j][k] <= 0 and cmpm[i][k] > 0:
            bad += 1
            if bad <= 3:
                st.violation('transitivity:%s' % product, {'a': ms[i], 'b': ms[j], 'c': ms[k]})
    st.states.add(hash(('triples', product)))
    st.nontrivial.add(hash(('triples', product)))
    st.outcomes[(product, 'triples')] += n ** 3
    st.sample({'product': product, 'triples_over': n, 'example': ms[:4]}, cap=8)


# ---- one Software object asked several times: an answer does not depend on what the object was asked before (a comparison against something
# that is not a dotted number - a patch-suffixed string, an empty string, rubbish - takes the fallback path inside compare_version)
def check_asked_before(st):
    vs = ['0.9', '0.10.6', '1.2', '1.10', '7.4', '9', '9.9', '9.10', '10.0', '99.1', '100.0', '2016.74', '2016.100', '2020.81']
    odd = ['9p1', '', 'garbage', '1.x', '9.9p1', ' 7.4', '7.4 ', '٣.١', None]
    for product in PRODUCTS:
        for a in vs:
            fresh = mk(product, a)
            if fresh is None:
                continue
            want = {b: sign(mk(product, a).compare_version(b)) for b in vs}
            for first in odd:
                obj = mk(product, a)
                try:
                    obj.compare_version(first)
                except Exception as e:      # noqa
                    st.violation('compare-version-raises:%s' % type(e).__name__, {'product': product, 'version': a, 'other': first})
                    continue
                for b in vs:
                    got = sign(obj.compare_version(b))
                    st.evaluations += 1
                    st.transitions += 1
                    if got != want[b]:
                        st.violation('order-depends-on-earlier-comparisons:%s' % product, {'product': product, 'version': a, 'asked_first': first, 'then': b, 'answer': got, 'fresh_object_answers': want[b]})
                st.states.add(hash(('asked-before', product, a, first)))
                st.nontrivial.add(hash(('asked-before', product, a, first)))
    st.sample({'asked_before': {'versions': len(vs), 'odd_operands': [str(o) for o in odd]}})


# ---- end-to-end: availability of an algorithm in an identified server version
def first_appeared():
    """{product: {version: (cat, name)}} for clean algorithms (recommendable for addition)."""
    db = H.master_db()
    out = {'OpenSSH': {}, 'Dropbear SSH': {}, 'libssh': {}}
    for cat in ('kex', 'key', 'enc', 'mac'):
        for name, e in db[cat].items():
            if not e[0] or e[0][0] is None:
                continue
            nf, nw, _ = H.db_levels(cat, name)
            if nf or nw or '-cert-' in name or name.startswith('sk-') or name.startswith('ext-info') or name.startswith('kex-strict'):
                continue
            if 'chacha20' in name or name.endswith('-cbc') or 'etm@' in name:
                continue      # suppressed for Terrapin reasons when not offered
            for v in e[0][0].split(','):
                prod, ver, is_cli = H.db_version(v)
                if ver and not is_cli and prod in out:
                    out[prod].setdefault(ver, (cat, name))
    return out


def around(ver):
    t = list(vt(ver))
    outs = {ver}
    lo = list(t)
    i = len(lo) - 1
    while i >= 0 and lo[i] == 0:
        i -= 1
    if i >= 0:
        lo[i] -= 1
        for j in range(i + 1, len(lo)):
            lo[j] = 9
        outs.add('.'.join(map(str, lo)))
    hi = list(t)
    hi[-1] += 1
    outs.add('.'.join(map(str, hi)))
    return sorted(outs)


EXTRA = {'OpenSSH': ['10.0', '10.1', '12.3', '100.0', '10.0.0.1', '9.9.0.10'], 'Dropbear SSH': ['2024.85', '2100.1', '0.100', '99.0.0.1', '2025.88.0.1'], 'libssh': ['0.10.0', '0.10.5', '0.11.1', '1.0.0', '10.0.0', '0.10.6.1']}


# release numbers of one component (two or more digits: the banner grammar wants that): newer than everything with a smaller first component
SINGLE = {'OpenSSH': ['10', '11', '101', '2020'], 'Dropbear SSH': ['2021', '2100'], 'libssh': ['11', '100']}


def cli_tasks():
    out = []
    fa = first_appeared()
    for prod, d in fa.items():
        for ver, (cat, name) in sorted(d.items()):
            vs = set(around(ver)) | set(EXTRA[prod]) | set(SINGLE[prod])
            for v in sorted(vs):
                out.append((prod, ver, cat, name, v))
            for v in around(ver):
                out.append((prod, ver, cat, name, v, '', 'client'))
            # the same boundary with each patch suffix of the product: the recommendations must make the judgement compare_version() makes
            for sfx in PRODUCTS[prod][1]:
                if sfx:
                    out.append((prod, ver, cat, name, ver, sfx))
    return out


def work_cli(chunk, st):
    for task in chunk:
        prod, v0, cat, name, v = task[:5]
        sfx = task[5] if len(task) > 5 else ''
        fmt, _ = PRODUCTS[prod]
        srv = P.Server(banner=(fmt % (v, sfx)).encode(), kex=['sntrup761x25519-sha512@openssh.com'] if name != 'sntrup761x25519-sha512@openssh.com' else ['curve25519-sha256'],
                       key=['ssh-ed25519'] if name != 'ssh-ed25519' else ['rsa-sha2-512'], enc=['aes256-ctr'] if name != 'aes256-ctr' else ['aes128-ctr'],
                       mac=['hmac-sha2-256'] if name != 'hmac-sha2-256' else ['hmac-sha2-512'])
        role = task[6] if len(task) > 6 else 'server'
        if role == 'client':      # the same product at the same version dialling in: what it could offer is dated by the same version numbers
            res = H.client_audit(P.Client(banner=srv.banner, kex=srv.kex, key=srv.key, enc=srv.enc, mac=srv.mac), opts=['-n'])
        else:
            res = H.audit(srv)
        rep = report.TextReport(res.stdout)
        added = [(n, c) for s, n, c, _v, _x in rep.rec if s == '+']
        has = (name, cat) in added
        if sfx:
            # numerically equal: the product's suffix rule decides, and the report must decide as the comparison function does
            sw = mk(prod, v, sfx)
            want = sw is not None and sw.compare_version(v0) >= 0
        else:
            want = numcmp(v, v0) >= 0
        st.execution(res.world, outcome=('cli', prod, has, want), root=('cli', prod, v0, name, v, sfx), nontrivial=('cli', prod, v0, name, v, sfx))
        if 'software' not in rep.gen:
            st.violation('cli:software-not-recognised:%s' % prod, {'banner': fmt % (v, sfx), 'stdout': res.stdout[:200]})
        elif has != want:
            st.violation('cli:availability:%s%s:%s' % (prod, ':client-audit' if role == 'client' else '', vclass(v, v0) if not sfx else 'patch-suffix-at-boundary'),
                         {'product': prod, 'server_version': v + sfx, 'algorithm': name, 'appeared_in': v0, 'recommended': has, 'compare_version_says_available': want})
    st.sample({'product': chunk[0][0], 'algorithm': chunk[0][3], 'appeared_in': chunk[0][1], 'server_version': chunk[0][4]}, cap=10)


def history_tasks():
    """Pairs/triples of banners of one product, straddling first-appeared versions, audited in one -T invocation in every order."""
    out = []
    fa = first_appeared()
    for prod, d in fa.items():
        vers = sorted(d, key=vt)
        probes = sorted(set([around(vers[0])[0], vers[len(vers) // 2], vers[-1]] + EXTRA[prod][:2]), key=vt)
        for a, b in itertools.permutations(probes, 2):
            out.append((prod, (a, b)))
        out.append((prod, tuple(probes[:3])))
        out.append((prod, tuple(reversed(probes[-3:]))))
    return out


def work_history(chunk, st):
    fa = first_appeared()
    for prod, versions in chunk:
        fmt, _ = PRODUCTS[prod]
        for jf in (False, True):
            servers = [P.Server(banner=(fmt % (v, '')).encode(), kex=['sntrup761x25519-sha512@openssh.com'], key=['ssh-frob@example.org'],
                                enc=['aes256-gcm@openssh.com'], mac=['hmac-sha2-512-etm@openssh.com']) for v in versions]
            res, outs = H.audit_sequence(servers, opts=['-n', '--skip-rate-test'] + (['-j'] if jf else []))
            st.execution(res.world, outcome=('history', prod, len(versions), jf), root=('history', prod, versions, jf), nontrivial=('history', prod, versions, jf))
            if outs is None or len(outs) != len(versions):
                st.violation('history:output-shape', {'product': prod, 'versions': versions, 'stdout': res.stdout[-200:]})
                continue
            for v, o in zip(versions, outs):
                if jf:
                    added = set((x['name'], cat) for lvl in o.get('recommendations', {}).values() for cat, lst in lvl.get('add', {}).items() for x in lst)
                else:
                    added = set((n, c) for s, n, c, _v, _x in report.TextReport(o).rec if s == '+')
                for v0, (cat, name) in fa[prod].items():
                    if name in ('sntrup761x25519-sha512@openssh.com', 'aes256-gcm@openssh.com', 'hmac-sha2-512-etm@openssh.com'):
                        continue
                    want = numcmp(v, v0) >= 0
                    if ((name, cat) in added) != want:
                        st.violation('history:availability-depends-on-other-targets:%s' % prod,
                                     {'product': prod, 'versions_in_run': versions, 'server_version': v, 'algorithm': name, 'appeared_in': v0, 'recommended': (name, cat) in added})
                        break
    st.sample({'history': chunk[0][0], 'versions': chunk[0][1]}, cap=12)


# ---- compatibility ranges: the newest "appeared in" and the oldest "removed in" version over the offered algorithms
def version_lists():
    """distinct version-information lists of the SSH-2 database, each with one algorithm that carries it"""
    db = H.master_db()
    seen = {}
    for cat in ('kex', 'key', 'enc', 'mac'):
        for name, e in db[cat].items():
            if e and e[0] and not name.endswith('-*'):
                seen.setdefault(json.dumps(e[0]), (cat, name, e[0]))
    return [seen[k] for k in sorted(seen)]


def frame_of(lists, for_server):
    Timeframe = runner.M['timeframe'].Timeframe
    tf = Timeframe()
    for v in lists:
        tf.update(v, for_server)
    return {p: [tf[p][i] for i in range(4)] for p in ('OpenSSH', 'Dropbear SSH', 'libssh') if p in tf}


def combine(frames):
    out = {}
    for f in frames:
        for p, vals in f.items():
            cur = out.setdefault(p, [None] * 4)
            for i, v in enumerate(vals):
                if v is None:
                    continue
                if cur[i] is None:
                    cur[i] = v
                else:
                    c = numcmp(v, cur[i])
                    if (i % 2 == 0 and c > 0) or (i % 2 == 1 and c < 0):
                        cur[i] = v
    return out


def canon_frame(f):
    return {p: [None if v is None else vt(v) for v in vals] for p, vals in f.items()}


def check_timeframes(st, tier):
    vl = version_lists()
    singles = {}
    for fs in (True, False, None):
        for i, (_c, _n, v) in enumerate(vl):
            singles[(fs, i)] = frame_of([v], fs)
    # what the tool reads out of a single list must be versions that list really names (independent decoding of the descriptors)
    broken = set()
    for i, (_c, name, v) in enumerate(vl):
        allowed = {}
        for field in v:
            for d in (field or '').split(','):
                if d:
                    prod, ver, _cli = H.db_version(d)
                    allowed.setdefault(prod, set()).add(ver)
        for fs in (True, False, None):
            for prod, vals in singles[(fs, i)].items():
                for x in vals:
                    if x is not None and x not in allowed.get(prod, set()):
                        broken.add(i)
                        st.violation('compatibility-range:version-not-in-database-entry:%s' % prod, {'algorithm': name, 'version_info': v, 'tool_reads': x, 'entry_names': sorted(allowed.get(prod, []))})
    idx = [i for i in range(len(vl)) if i not in broken]
    combos = list(itertools.permutations(idx, 2))
    tri = list(itertools.permutations(idx, 3))
    if tier == 'quick':
        tri = tri[::29]
    for fs in (True, False, None):
        for combo in combos + tri:
            got = frame_of([vl[i][2] for i in combo], fs)
            want = combine([singles[(fs, i)] for i in combo])
            st.execution(None, outcome=('timeframe', len(combo), fs), root=('timeframe', combo, fs), nontrivial=('timeframe', combo, fs))
            if canon_frame(got) != canon_frame(want):
                prods = sorted(p for p in set(got) | set(want) if canon_frame(got).get(p) != canon_frame(want).get(p))
                st.violation('compatibility-range:not-the-numeric-newest/oldest:%s' % '+'.join(prods),
                             {'algorithms': [vl[i][1] for i in combo], 'version_info': [vl[i][2] for i in combo], 'for_server': fs, 'tool': got, 'numeric': want})
    st.sample({'timeframe_version_lists': len(vl), 'pairs': len(combos), 'triples': len(tri)})


def compat_cli_tasks(tier):
    """legacy and modern servers whose lists are permuted: the '(gen) compatibility' line must not depend on the order and must equal the numeric range"""
    sets = [
        dict(kex=['diffie-hellman-group1-sha1', 'diffie-hellman-group-exchange-sha1'], key=['ssh-dss', 'ssh-rsa'], enc=['3des-cbc', 'aes128-cbc', 'arcfour'], mac=['hmac-md5', 'hmac-sha1', 'hmac-ripemd160']),
        dict(kex=['diffie-hellman-group-exchange-sha1', 'diffie-hellman-group1-sha1'], key=['ssh-rsa', 'ssh-dss'], enc=['aes128-cbc', 'blowfish-cbc'], mac=['hmac-sha1-96', 'hmac-md5-96']),
        dict(kex=['curve25519-sha256', 'diffie-hellman-group14-sha1'], key=['ssh-ed25519', 'ssh-rsa'], enc=['aes256-ctr', 'aes128-cbc'], mac=['hmac-sha2-256', 'hmac-sha1']),
        dict(kex=['sntrup761x25519-sha512@openssh.com'], key=['ssh-ed25519'], enc=['aes256-gcm@openssh.com'], mac=['hmac-sha2-256-etm@openssh.com']),
    ]
    out = []
    for si, base in enumerate(sets):
        for cat in ('kex', 'key', 'enc', 'mac'):
            for perm in itertools.permutations(base[cat]):
                out.append((si, dict(base, **{cat: list(perm)})))
    # every pair and triple (quick: every 3rd triple) of the database's distinct version-information lists, offered by one server next to a
    # neutral base: each product's range and its wording come out of that product's own versions, whatever the other product's look like
    vl = version_lists()
    bases = {'modern': dict(kex=['curve25519-sha256'], key=['ssh-ed25519'], enc=['aes256-ctr'], mac=['hmac-sha2-256']),
             'legacy': dict(kex=['diffie-hellman-group1-sha1'], key=['ssh-rsa'], enc=['3des-cbc'], mac=['hmac-sha1']),
             'none': dict(kex=[], key=[], enc=[], mac=[])}
    combos = list(itertools.combinations(range(len(vl)), 2))
    tri = list(itertools.combinations(range(len(vl)), 3))
    for bname, base in sorted(bases.items()):
        sel = combos + (tri if tier != 'quick' else (tri[::2] if bname == 'legacy' else tri[::7]))
        for combo in sel:
            lists = {c: list(v) for c, v in base.items()}
            for i in combo:
                cat, name, _v = vl[i]
                if name not in lists[cat]:
                    lists[cat].append(name)
            out.append((100 + len(combo), lists))
    return out


def work_compat_cli(chunk, st):
    import re
    db = H.master_db()
    for si, lists in chunk:
        srv = P.Server(banner=b'SSH-2.0-FrobSSH_1.0', host_keys=P.standard_host_keys(lists['key']), gex=P.GexPolicy([2048], P.STRICT), **lists)
        res = H.audit(srv, opts=['-n', '--skip-rate-test'])
        st.execution(res.world, outcome=('compat', res.status), root=('compat', json.dumps(lists, sort_keys=True)), nontrivial=('compat', json.dumps(lists, sort_keys=True)))
        m = re.search(r'^\(gen\) compatibility: (.*)$', res.stdout, re.M)
        got = m.group(1).strip() if m else None
        try:
            want_f = combine([frame_of([db[c][n][0]], True) for c in lists for n in lists[c] if n in db[c] and db[c][n][0]])
        except ValueError as e:
            st.violation('compatibility-range:version-not-numeric', {'lists': lists, 'what': str(e)})
            continue
        parts = []
        for prod in ('OpenSSH', 'Dropbear SSH'):
            if prod not in want_f or want_f[prod][0] is None:
                continue
            a, b = want_f[prod][0], want_f[prod][1]
            if b is None:
                parts.append('%s %s+' % (prod, a))
            elif a == b:
                parts.append('%s %s' % (prod, a))
            elif numcmp(a, b) > 0:
                parts.append('%s %s+ (some functionality from %s)' % (prod, a, b))
            else:
                parts.append('%s %s-%s' % (prod, a, b))
        want = ', '.join(parts) or None
        if got != want:
            st.violation('compatibility-range:report-line-differs', {'lists': lists, 'reported': got, 'numeric': want})
    st.sample({'compatibility_line_servers': len(chunk)}, cap=3)


def run(tier, seed):
    t0 = time.time()
    st = evidence.Stats()
    tasks = []
    v12 = versions12()
    v34 = versions34(tier)
    if tier == 'quick':
        v12 = [v for v in v12 if all(int(c) in (0, 1, 2, 9, 10, 11, 99, 100, 2019, 2020) for c in v.split('.'))]
    # one joint set: versions of different component counts are compared with each other as well
    vall = v12 + v34
    for product in PRODUCTS:
        for vs in (vall,):
            step = 8
            for lo in range(0, len(vs), step):
                tasks.append((product, vs, lo, min(lo + step, len(vs))))
    par.pmap(work_pairs, tasks, stats=st, chunk=2)
    check_asked_before(st)
    for product in PRODUCTS:
        check_triples(product, st)
    par.pmap(work_spellings, [(prod, fmt) for prod in sorted(SPELLINGS) for fmt in SPELLINGS[prod]], stats=st, chunk=1)
    par.pmap(work_spelling_cli, [(prod, v) for prod in ('OpenSSH', 'libssh') for v in ('0.5.3', '0.7.3', '0.9.6', '0.10.4', '0.11.1', '6.6', '7.4', '8.9', '9.10', '10.0')], stats=st, chunk=2)
    par.pmap(work_cli, cli_tasks(), stats=st)
    par.pmap(work_history, history_tasks(), stats=st, chunk=2)
    check_timeframes(st, tier)
    par.pmap(work_compat_cli, compat_cli_tasks(tier), stats=st, chunk=4)
    from props import delivery as _DL
    par.pmap(_DL.work, _DL.tasks(tier), extra=(('recs', 'banner'),), stats=st, chunk=12)
    vcases = []
    for prod, v0, cat, name, v in H.pick([t for t in cli_tasks() if len(t) == 5], seed, 12 if tier == 'quick' else 60):
        fmt, _ = PRODUCTS[prod]
        vcases.append({'label': '%s %s' % (prod, v), 'opts': ['-n'] + (['-j'] if len(vcases) % 2 else []),
                       'make': (lambda fmt=fmt, v=v: P.Server(banner=(fmt % (v, '')).encode(), kex=['sntrup761x25519-sha512@openssh.com'], key=['ssh-ed25519'], enc=['aes256-ctr'], mac=['hmac-sha2-256']))})
    validated = H.validate_traces(vcases, st)
    return evidence.finish(
        PID, tier, seed, st, t0,
        rule='for OpenSSH, Dropbear, libssh (software objects parsed from real banners): all ordered pairs of the joint set of %d versions with 1-2 components over '
             '%s and %d versions with 3 and with 4 components over %s; all pairs and triples of a 60-element mixed set with patch suffixes; '
             'end-to-end: for every first-appeared version of a clean algorithm in the DB, banners just below/at/above it and multi-digit versions, '
             '"(rec) +name" iff server version >= first-appeared version; the same for every server of 2-3 servers of one product at different versions '
             'audited in ONE invocation, in every order; compatibility ranges: every ordered pair (and triple; every 29th at quick) of the distinct '
             'version-information lists of the database folded by the tool = numeric newest "appeared" / oldest "removed" of the single lists, for server, '
             'client and both; the "(gen) compatibility" line of four servers under every permutation of each of their lists' % (len(v12), COMP if tier != 'quick' else 'a 10-value subset', len(v34), 'small sets of 0/1/9/10/99/100'),
        assumptions=['numeric order = component-wise integer comparison with zero padding', 'pairs equal up to trailing zeros / patch level only need antisymmetry and transitivity'],
        exhaustive=True, traces_validated=validated)


def replay(path):
    v = json.load(open(path))
    d = v['detail']
    if 'algorithm' in d:
        st = evidence.Stats()
        fa = first_appeared()[d['product']][d['appeared_in']]
        work_cli([(d['product'], d['appeared_in'], fa[0], d['algorithm'], d['server_version'])], st)
        for x in st.violations:
            print('replayed:', x['sig'], x['detail'])
        return 1 if st.violations else 0
    prod = d.get('product') or v['sig'].split(':')[1]
    a, b = d['a'], d['b']
    if isinstance(a, list):
        r = mk(prod, a[0], a[1]).compare_version('%s%s' % tuple(b))
        print('compare', a, b, '->', r)
        return 1
    r = mk(prod, a).compare_version(b)
    print('compare', a, b, '->', r, 'numeric', numcmp(a, b))
    return 1 if sign(r) != numcmp(a, b) else 0
