"""C11 - host-key sizes, CA details and fingerprints are measured and rated correctly."""
import itertools
import json
import re
import time

from mc import evidence, harness as H, par, peer as P, report, wire

PID = 'C11'
RSA_FAMILY = ['ssh-rsa', 'rsa-sha2-256', 'rsa-sha2-512']
SIZE_NOTE = re.compile(r'(using small (\d+)-bit (hostkey |CA key )?modulus|2048-bit modulus only provides 112-bits of symmetric strength|224-bit ECC modulus only provides)')


def rsa_sizes(tier):
    s = set(range(512, 16385, 64))
    s |= set(range(1984, 2113, 8)) | set(range(3008, 3137, 8))
    if tier != 'quick':
        s |= set(range(2048 - 9, 2048 + 10)) | set(range(3072 - 9, 3072 + 10)) | set(range(1016, 1033)) | set(range(4088, 4105))
    else:
        s |= {2047, 2049, 3071, 3073}
    return sorted(s)


def expected_level(bits):
    return 'fail' if bits < 2048 else 'warn' if bits < 3072 else None


def size_class(bits):
    if bits % 16 == 0:
        return 'multiple-of-16'
    if bits % 8 == 0:
        return 'multiple-of-8-not-16'
    return 'not-multiple-of-8'


def run_server(key, host_keys, kex=('curve25519-sha256',), opts=(), gex=None):
    srv = P.Server(kex=list(kex), key=list(key), host_keys=host_keys, gex=gex, banner=b'SSH-2.0-OpenSSH_9.6')
    res = H.audit(srv, opts=['-n', '--skip-rate-test'] + list(opts))
    return res, srv


def static_notes(cat, name):
    e = H.master_db()[cat][name]
    return {(lv, t) for lv, i in (('fail', 1), ('warn', 2), ('info', 3)) for t in (e[i] if len(e) > i else []) if t}


def key_entry(res, fmt, name):
    """-> dict(size, casize, catype, size_notes=[(level,text)]) from text or JSON"""
    if fmt == 'json':
        doc = json.loads(res.stdout)
        for e in doc['key']:
            if e['algorithm'] == name:
                notes = [(lv, t) for lv in ('fail', 'warn', 'info') for t in e.get('notes', {}).get(lv, [])]
                return {'size': e.get('keysize'), 'casize': e.get('casize'), 'catype': e.get('ca_algorithm'),
                        'notes': notes, 'fingerprints': doc.get('fingerprints', [])}
        return None
    rep = report.TextReport(res.stdout)
    if '-v' in res.argv:
        rep.merge_verbose()
    for a in rep.algs['key']:
        if a['name'] == name:
            return {'size': a['size'], 'casize': a['casize'], 'catype': a['catype'], 'notes': list(a['notes']), 'fin': rep.fin}
    return None


def fingerprint_problems(res, fmt, plain):
    """Every fingerprint shown is the standard fingerprint of a *plain* public key the peer presented, under that key's name (the RSA
    family under ssh-rsa); certificates get none; every presented RSA / Ed25519 key has its SHA-256 entry.  plain: {name: blob bytes}"""
    probs = []
    want = {}
    for name, blob in plain.items():
        n = 'ssh-rsa' if name in RSA_FAMILY else name
        want[(n, 'SHA256')] = wire.fingerprint_sha256(blob)
        want[(n, 'MD5')] = wire.fingerprint_md5(blob)
    shown = []
    if fmt == 'json':
        for f in json.loads(res.stdout).get('fingerprints', []):
            shown.append((f.get('hostkey'), f.get('hash_alg'), f.get('hash')))
    else:
        for l in report.TextReport(res.stdout).fin:
            m = re.match(r'^(\S+): (SHA256|MD5):(\S+)', l)
            if m:
                shown.append((m.group(1), m.group(2), m.group(3)))
            else:
                probs.append(('unparsable-fin-line', l))
    for name, alg, h in shown:
        exp = want.get((name, alg))
        exp_h = None if exp is None else exp.split(':', 1)[1]
        if exp is None:
            probs.append(('fingerprint-of-a-key-not-presented-as-plain-key', [name, alg, h]))
        elif h != exp_h:
            probs.append(('fingerprint-differs-from-presented-blob', [name, alg, h, exp_h]))
    for (n, alg), exp in want.items():
        if alg == 'SHA256' and n in ('ssh-rsa', 'ssh-ed25519') and not any(s[0] == n and s[1] == alg for s in shown):
            probs.append(('fingerprint-missing', [n, alg]))
    return probs


def size_notes(notes):
    return sorted((lv, t) for lv, t in notes if SIZE_NOTE.search(t))


def judge_plain_rsa(bits, names, res, fmt, blob, st, fam):
    for name in names:
        e = key_entry(res, fmt, name)
        if e is None:
            st.violation('%s:key-not-reported' % fam, {'bits': bits, 'name': name, 'fmt': fmt, 'stdout': res.stdout[-300:]})
            return
        if e['size'] != bits:
            st.violation('%s:size-misreported:%s' % (fam, size_class(bits)), {'true_bits': bits, 'reported': e['size'], 'name': name, 'fmt': fmt})
        sn = size_notes(e['notes'])
        lv = expected_level(bits)
        want_levels = [] if lv is None else [lv]
        if sorted(set(l for l, _t in sn)) != want_levels:
            st.violation('%s:size-rating:%s' % (fam, size_class(bits)), {'true_bits': bits, 'reported': e['size'], 'size_notes': sn, 'expected_level': lv, 'name': name, 'fmt': fmt})
        for l, t in sn:
            m = re.search(r'using small (\d+)-bit', t)
            if m and int(m.group(1)) != bits:
                st.violation('%s:size-in-note-differs:%s' % (fam, size_class(bits)), {'true_bits': bits, 'note': t})
    # fingerprints: one entry for the whole RSA family, equal to the standard fingerprint of the blob
    sha, md5 = wire.fingerprint_sha256(blob), wire.fingerprint_md5(blob)
    e = key_entry(res, fmt, names[0])
    if fmt == 'json':
        fps = [f for f in e['fingerprints'] if f.get('hostkey') in RSA_FAMILY]
        want = [{'hostkey': 'ssh-rsa', 'hash_alg': 'SHA256', 'hash': sha[7:]}, {'hostkey': 'ssh-rsa', 'hash_alg': 'MD5', 'hash': md5[4:]}]
        if sorted(fps, key=lambda f: f['hash_alg']) != sorted(want, key=lambda f: f['hash_alg']):
            st.violation('%s:json-fingerprints-differ' % fam, {'bits': bits, 'got': fps, 'expected': want})
    else:
        rsafin = [l for l in e['fin'] if l.split(':')[0] in RSA_FAMILY]
        shas = [l for l in rsafin if 'SHA256:' in l]
        if len(shas) != 1 or not shas[0].startswith('ssh-rsa: ' + sha):
            st.violation('%s:text-fingerprint-differs' % fam, {'bits': bits, 'fin': rsafin, 'expected': sha})
        if '-v' in res.argv:
            md5s = [l for l in rsafin if 'MD5:' in l]
            if len(md5s) != 1 or ('ssh-rsa: ' + md5) not in md5s[0]:
                st.violation('%s:text-md5-fingerprint-differs' % fam, {'bits': bits, 'fin': rsafin, 'expected': md5})


def work_rsa(chunk, st):
    levels_seen = []
    for bits, fmt in chunk:
        tree = wire.rsa_blob_tree(bits)
        blob = wire.serialize(tree)
        opts = {'text': [], 'verbose': ['-v'], 'json': ['-j']}[fmt]
        res, _ = run_server(['ssh-rsa'], {'ssh-rsa': tree}, opts=opts)
        st.execution(res.world, outcome=('rsa', fmt, expected_level(bits)), root=('rsa', bits, fmt), nontrivial=('rsa', bits, fmt))
        if res.status not in (0, 2, 3):
            st.violation('rsa:audit-failed', {'bits': bits, 'status': res.status, 'stdout': res.stdout[-300:]})
            continue
        judge_plain_rsa(bits, ['ssh-rsa'], res, 'json' if fmt == 'json' else 'text', blob, st, 'rsa')
    st.sample({'rsa_bits': chunk[0][0], 'format': chunk[0][1]}, cap=5)


def work_family(chunk, st):
    for sel, bits, fmt in chunk:
        tree = wire.rsa_blob_tree(bits)
        blob = wire.serialize(tree)
        res, _ = run_server(list(sel) + ['ssh-ed25519'], {'ssh-rsa': tree, 'ssh-ed25519': wire.ed25519_blob_tree()}, opts=['-j'] if fmt == 'json' else [])
        st.execution(res.world, outcome=('family', fmt), root=('family', sel, bits, fmt), nontrivial=('family', sel, bits, fmt))
        if res.status not in (0, 2, 3):
            st.violation('family:audit-failed', {'sel': sel, 'bits': bits})
            continue
        judge_plain_rsa(bits, list(sel), res, fmt, blob, st, 'family')
    st.sample({'rsa_family_selection': list(chunk[0][0]), 'bits': chunk[0][1]}, cap=5)


FIXED = [('ssh-ed25519', wire.ed25519_blob_tree, None), ('ssh-ed448', wire.ed448_blob_tree, None),
         ('ecdsa-sha2-nistp256', lambda: wire.ecdsa_blob_tree(256), None), ('ecdsa-sha2-nistp384', lambda: wire.ecdsa_blob_tree(384), None),
         ('ecdsa-sha2-nistp521', lambda: wire.ecdsa_blob_tree(521), None), ('ssh-dss', wire.dss_blob_tree, None)]


def check_fixed(st):
    for name, mk, _ in FIXED:
        for fmt in ('text', 'verbose', 'json'):
            tree = mk()
            blob = wire.serialize(tree)
            res, _ = run_server([name], {name: tree}, opts={'text': [], 'verbose': ['-v'], 'json': ['-j']}[fmt])
            st.execution(res.world, outcome=('fixed', name, fmt), root=('fixed', name, fmt), nontrivial=('fixed', name, fmt))
            if res.status not in (0, 2, 3):
                st.violation('fixed:audit-failed:%s' % name, {'status': res.status, 'stdout': res.stdout[-300:]})
                continue
            sha = wire.fingerprint_sha256(blob)
            e = key_entry(res, 'json' if fmt == 'json' else 'text', name)
            if e is not None and name != 'ssh-dss' and size_notes(e['notes']):
                st.violation('fixed:size-note-on-fixed-size-key:%s' % name, {'name': name, 'notes': size_notes(e['notes']), 'fmt': fmt})
            if fmt == 'json':
                doc = json.loads(res.stdout)
                fps = [f for f in doc['fingerprints'] if f['hostkey'] == name and f['hash_alg'] == 'SHA256']
                if len(fps) != 1 or fps[0]['hash'] != sha[7:]:
                    st.violation('fixed:json-fingerprint:%s' % name, {'got': fps, 'expected': sha})
            else:
                rep = report.TextReport(res.stdout)
                fins = [l for l in rep.fin if l.startswith(name + ': ') and 'SHA256:' in l]
                insecure = name.startswith('ecdsa-') or name == 'ssh-dss'
                if insecure and fmt == 'text':
                    continue      # documented: ECDSA/DSS fingerprints are shown in verbose mode only
                if len(fins) != 1 or sha not in fins[0]:
                    st.violation('fixed:text-fingerprint:%s' % name, {'fin': rep.fin, 'expected': sha})


CA_KINDS = [('rsa', b) for b in (1024, 2047, 2048, 2056, 3071, 3072, 4096)] + [('ed25519', 256), ('ecdsa', 256), ('ecdsa', 384), ('ecdsa', 521),
                                                                                      ('sk-ed25519', 256), ('sk-ecdsa', 256)]       # FIDO-backed CAs (OpenSSH 8.2+): the key in the blob is the plain curve key
CERT_HOST = [('ssh-rsa-cert-v01@openssh.com', b) for b in (1024, 2048, 3072, 4096)] + [('rsa-sha2-512-cert-v01@openssh.com', 2048), ('ssh-ed25519-cert-v01@openssh.com', 256)]


def cert_cases():
    return [(h, ca, fmt) for h in CERT_HOST for ca in CA_KINDS for fmt in ('text', 'json')]


def work_cert(chunk, st):
    for (cname, hbits), (cak, cab), fmt in chunk:
        if cak == 'rsa':
            ca_tree, ca_type = wire.rsa_blob_tree(cab), 'ssh-rsa'
        elif cak == 'ed25519':
            ca_tree, ca_type = wire.ed25519_blob_tree(b'\x44' * 32), 'ssh-ed25519'
        elif cak == 'sk-ed25519':
            ca_tree, ca_type = wire.sk_ed25519_blob_tree(), 'sk-ssh-ed25519@openssh.com'
        elif cak == 'sk-ecdsa':
            ca_tree, ca_type = wire.sk_ecdsa_blob_tree(cab), 'sk-ecdsa-sha2-nistp%d@openssh.com' % cab
        else:
            ca_tree, ca_type = wire.ecdsa_blob_tree(cab), 'ecdsa-sha2-nistp%d' % cab
        if 'ed25519' in cname:
            tree = wire.ed25519_cert_tree(ca_tree)
        else:
            tree = wire.rsa_cert_tree(hbits, ca_tree)   # the key blob of every RSA certificate algorithm is an ssh-rsa-cert-v01 blob
        res, _ = run_server([cname], {cname: tree}, opts=['-j'] if fmt == 'json' else [])
        st.execution(res.world, outcome=('cert', cak, fmt), root=('cert', cname, hbits, cak, cab, fmt), nontrivial=('cert', cname, hbits, cak, cab, fmt))
        if res.status not in (0, 2, 3):
            st.violation('cert:audit-failed:%s' % cname.split('-cert')[0], {'cert': cname, 'ca': [cak, cab], 'status': res.status, 'stdout': res.stdout[-300:]})
            continue
        e = key_entry(res, fmt, cname)
        if e is None:
            st.violation('cert:key-not-reported', {'cert': cname})
            continue
        tag = '%s-ca:%s' % (cak, size_class(cab) if cak == 'rsa' else cab)
        for sig, what in fingerprint_problems(res, fmt, {}):
            st.violation('cert:%s' % sig, {'cert': cname, 'ca': [cak, cab], 'fmt': fmt, 'what': what})
        if fmt == 'json':
            want_ca_type = ca_type
            if e['casize'] != cab or e['catype'] != want_ca_type:
                st.violation('cert:ca-details-misreported:%s' % tag, {'cert': cname, 'true_ca': [ca_type, cab], 'reported': [e['catype'], e['casize']], 'fmt': fmt})
            if 'rsa' in cname and e['size'] != hbits:
                st.violation('cert:host-size-misreported', {'cert': cname, 'true': hbits, 'reported': e['size']})
            if any('-cert-' in f.get('hostkey', '') for f in e['fingerprints']):
                st.violation('cert:fingerprint-shown-for-certificate', {'cert': cname})
        else:
            shown_type = 'RSA' if ca_type == 'ssh-rsa' else ca_type
            if e['casize'] != cab or e['catype'] != shown_type or e['size'] != hbits:
                st.violation('cert:ca-details-misreported:%s' % tag, {'cert': cname, 'true': [hbits, ca_type, cab], 'reported': [e['size'], e['catype'], e['casize']], 'fmt': fmt})
            if any('-cert-' in l for l in e['fin']):
                st.violation('cert:fingerprint-shown-for-certificate', {'cert': cname})
        # ratings
        sn = size_notes(e['notes'])
        want = set()
        if 'rsa' in cname:
            lv = expected_level(hbits)
            if lv:
                want.add((lv, 'host'))
        if cak == 'rsa':
            lv = expected_level(cab)
            if lv:
                want.add((lv, 'ca'))
        got = set()
        for l, t in sn:
            if 'CA key' in t:
                got.add((l, 'ca'))
            elif 'hostkey' in t:
                got.add((l, 'host'))
            else:
                got.add((l, 'either'))
        # the 2048-bit warning text does not say which key it refers to: compare levels only for warnings
        def levels(s):
            return sorted(set(l for l, _w in s))
        if levels(got) != levels(want) or {x for x in got if x[0] == 'fail'} != {x for x in want if x[0] == 'fail'}:
            st.violation('cert:size-rating:%s' % tag, {'cert': cname, 'host_bits': hbits, 'ca': [cak, cab], 'size_notes': sn, 'expected': sorted(want)})
    st.sample({'certificate': chunk[0][0][0], 'host_bits': chunk[0][0][1], 'ca': list(chunk[0][1])}, cap=6)


# ---- several host keys on one server: what is reported for one key must not depend on the others
RSA_SLOT = [None, 1024, 2048, 4096]
RSACERT_SLOT = [None, (2048, 'rsa', 4096), (3072, 'rsa', 1024), (4096, 'ed25519', 256)]
ED_SLOT = [None, True]
EDCERT_SLOT = [None, ('ed25519', 256), ('rsa', 2048), ('ecdsa', 384)]
ECDSA_SLOT = [None, 256]


def _ca_tree(kind, bits):
    if kind == 'rsa':
        return wire.rsa_blob_tree(bits), 'ssh-rsa'
    if kind == 'ed25519':
        return wire.ed25519_blob_tree(b'\x44' * 32), 'ssh-ed25519'
    return wire.ecdsa_blob_tree(bits), 'ecdsa-sha2-nistp%d' % bits


def multi_cases():
    out = []
    for rsa, rc, ed, ec, ecd in itertools.product(RSA_SLOT, RSACERT_SLOT, ED_SLOT, EDCERT_SLOT, ECDSA_SLOT):
        if sum(x is not None for x in (rsa, rc, ed, ec, ecd)) >= 2:
            for fmt in ('text', 'json'):
                out.append((rsa, rc, ed, ec, ecd, fmt))
    return out


def work_multi(chunk, st):
    for rsa, rc, ed, ec, ecd, fmt in chunk:
        keys, hk, truth = [], {}, {}
        if ec is not None:
            t, catype = _ca_tree(*ec)
            keys.append('ssh-ed25519-cert-v01@openssh.com')
            hk[keys[-1]] = wire.ed25519_cert_tree(t)
            truth[keys[-1]] = {'size': 256, 'catype': catype, 'casize': ec[1], 'levels': [expected_level(ec[1])] if ec[0] == 'rsa' and expected_level(ec[1]) else []}
        if ed:
            keys.append('ssh-ed25519')
            hk[keys[-1]] = wire.ed25519_blob_tree()
            truth[keys[-1]] = {'size': None, 'catype': None, 'casize': None, 'levels': []}
        if ecd:
            keys.append('ecdsa-sha2-nistp256')
            hk[keys[-1]] = wire.ecdsa_blob_tree(256)
            truth[keys[-1]] = {'size': None, 'catype': None, 'casize': None, 'levels': []}
        if rc is not None:
            t, catype = _ca_tree(rc[1], rc[2])
            keys.append('ssh-rsa-cert-v01@openssh.com')
            hk[keys[-1]] = wire.rsa_cert_tree(rc[0], t)
            lv = set()
            if expected_level(rc[0]):
                lv.add(expected_level(rc[0]))
            if rc[1] == 'rsa' and expected_level(rc[2]):
                lv.add(expected_level(rc[2]))
            truth[keys[-1]] = {'size': rc[0], 'catype': catype, 'casize': rc[2], 'levels': sorted(lv)}
        if rsa is not None:
            keys.append('rsa-sha2-256')
            hk['ssh-rsa'] = wire.rsa_blob_tree(rsa)
            truth[keys[-1]] = {'size': rsa, 'catype': None, 'casize': None, 'levels': [expected_level(rsa)] if expected_level(rsa) else []}
        res, _ = run_server(keys, hk, opts=['-j'] if fmt == 'json' else [])
        case = {'rsa': rsa, 'rsa_cert': rc, 'ed25519': ed, 'ed25519_cert': ec, 'ecdsa': ecd, 'fmt': fmt}
        st.execution(res.world, outcome=('multi', len(keys), fmt), root=('multi', rsa, rc, ed, ec, ecd, fmt), nontrivial=('multi', rsa, rc, ed, ec, ecd, fmt))
        if res.status not in (0, 2, 3):
            st.violation('multi:audit-failed', dict(case, status=res.status))
            continue
        plain = {k: wire.serialize(hk['ssh-rsa' if k in RSA_FAMILY else k]) for k in keys if '-cert-' not in k and k != 'ecdsa-sha2-nistp256'}
        for sig, what in fingerprint_problems(res, fmt, dict(plain, **({'ecdsa-sha2-nistp256': wire.serialize(hk['ecdsa-sha2-nistp256'])} if ecd else {}))):
            st.violation('multi:%s' % sig, dict(case, what=what))
        for k in keys:
            e = key_entry(res, fmt, k)
            tr = truth[k]
            if e is None:
                st.violation('multi:key-not-reported', dict(case, key=k))
                continue
            shown_catype = tr['catype']
            if fmt == 'text' and shown_catype == 'ssh-rsa':
                shown_catype = 'RSA'
            exp_size = tr['size']
            if fmt == 'json' and k == 'ssh-ed25519-cert-v01@openssh.com':
                exp_size = None      # JSON carries keysize for RSA-family keys only
            if (e['size'], e['catype'], e['casize']) != (exp_size, shown_catype, tr['casize']) and not (fmt == 'json' and tr['catype'] is None and e['catype'] in (None, '') and not e['casize'] and e['size'] == exp_size):
                st.violation('multi:details-differ-with-other-keys-present:%s' % k.split('@')[0], dict(case, key=k, reported=[e['size'], e['catype'], e['casize']], truth=[exp_size, shown_catype, tr['casize']]))
            got_lv = sorted(set(l for l, _t in size_notes(e['notes'])))
            if got_lv != tr['levels']:
                st.violation('multi:size-rating-differs-with-other-keys-present:%s' % k.split('@')[0], dict(case, key=k, size_notes=size_notes(e['notes']), expected_levels=tr['levels']))
    st.sample({'multi_key_server': {'rsa': chunk[0][0], 'rsa_cert': chunk[0][1], 'ed25519': chunk[0][2], 'ed25519_cert': chunk[0][3], 'ecdsa': chunk[0][4]}}, cap=8)


def check_other_kex(st):
    """the host-key reply is parsed on every key-exchange path"""
    for kex, gex in (('diffie-hellman-group14-sha256', None), ('diffie-hellman-group1-sha1', None), ('diffie-hellman-group16-sha512', None),
                     ('ecdh-sha2-nistp256', None), ('curve25519-sha256@libssh.org', None),
                     ('diffie-hellman-group-exchange-sha256', P.GexPolicy([2048, 4096], P.STRICT))):
        for bits in (1024, 2048, 3072):
            tree = wire.rsa_blob_tree(bits)
            res, _ = run_server(['rsa-sha2-256'], {'ssh-rsa': tree}, kex=[kex], gex=gex)
            st.execution(res.world, outcome=('kexpath', kex), root=('kexpath', kex, bits), nontrivial=('kexpath', kex, bits))
            if res.status not in (0, 2, 3):
                st.violation('kexpath:audit-failed:%s' % kex, {'status': res.status})
                continue
            judge_plain_rsa(bits, ['rsa-sha2-256'], res, 'text', wire.serialize(tree), st, 'kexpath')


def check_reply_f(st):
    """the server's DH public value f travels as an mpint: every legal length and top byte (a leading zero byte when the top bit is set,
    so up to one byte more than the modulus; short values) on every finite-field path - the key in the same reply is reported all the same"""
    groups = {'diffie-hellman-group1-sha1': 1024, 'diffie-hellman-group14-sha256': 2048, 'diffie-hellman-group16-sha512': 4096,
              'diffie-hellman-group-exchange-sha256': 2048, 'curve25519-sha256': 256, 'ecdh-sha2-nistp256': 520}
    for kex, pbits in sorted(groups.items()):
        nbytes = pbits // 8
        fs = {'short': b'\x05', 'top-01': b'\x01' + b'\x33' * (nbytes - 1), 'top-7f': b'\x7f' + b'\xff' * (nbytes - 1),
              'top-80': b'\x00\x80' + b'\x00' * (nbytes - 1), 'top-ff': b'\x00\xff' + b'\xee' * (nbytes - 1), 'one-byte-less': b'\x41' * (nbytes - 1)}
        if pbits in (256, 520):
            fs = {'raw-top-80': b'\x80' + b'\x11' * (nbytes - 1), 'raw-top-00': b'\x00' + b'\x11' * (nbytes - 1), 'raw-top-ff': b'\xff' * nbytes}
        for fname, f in sorted(fs.items()):
            for bits in (1024, 3072):
                tree = wire.rsa_blob_tree(bits)
                srv = P.Server(kex=[kex], key=['rsa-sha2-256'], host_keys={'ssh-rsa': tree}, banner=b'SSH-2.0-OpenSSH_9.6',
                               gex=P.GexPolicy([2048], P.STRICT) if 'group-exchange' in kex else None)
                srv.reply_f = f
                res = H.audit(srv, opts=['-n', '--skip-rate-test'])
                root = ('reply-f', kex, fname, bits)
                st.execution(res.world, outcome=('reply-f', kex, res.status), root=root, nontrivial=root)
                if res.status not in (0, 2, 3):
                    st.violation('reply-f:audit-failed:%s' % kex, {'f': fname, 'status': res.status})
                    continue
                judge_plain_rsa(bits, ['rsa-sha2-256'], res, 'text', wire.serialize(tree), st, 'reply-f:%s' % fname)


# ---- several RSA certificate algorithm names on one server (one certificate blob behind them): each name reports the certificate's details
RSA_CERT_NAMES = ['ssh-rsa-cert-v01@openssh.com', 'rsa-sha2-256-cert-v01@openssh.com', 'rsa-sha2-512-cert-v01@openssh.com']


def cert_family_cases():
    import itertools
    out = []
    for k in (2, 3):
        for names in itertools.permutations(RSA_CERT_NAMES, k):
            for ca in (('rsa', 4096), ('rsa', 2048), ('ed25519', 256)):
                for fmt in ('text', 'json'):
                    out.append((names, 3072, ca, fmt))
    return out


def work_cert_family(chunk, st):
    for names, hbits, (cak, cab), fmt in chunk:
        ca_tree, ca_type = _ca_tree(cak, cab)
        tree = wire.rsa_cert_tree(hbits, ca_tree)
        keys = list(names) + ['ssh-ed25519']
        hk = {n: tree for n in names}
        hk['ssh-ed25519'] = wire.ed25519_blob_tree()
        res, _ = run_server(keys, hk, opts=['-j'] if fmt == 'json' else [])
        st.execution(res.world, outcome=('cert-family', len(names), fmt), root=('cert-family', names, cak, cab, fmt), nontrivial=('cert-family', names, cak, cab, fmt))
        if res.status not in (0, 2, 3):
            st.violation('cert-family:audit-failed', {'names': list(names), 'status': res.status})
            continue
        for n in names:
            e = key_entry(res, fmt, n)
            if e is None:
                st.violation('cert-family:key-not-reported', {'names': list(names), 'name': n})
                continue
            shown = ca_type if fmt == 'json' or ca_type != 'ssh-rsa' else 'RSA'
            if (e['size'], e['catype'], e['casize']) != (hbits, shown, cab):
                st.violation('cert-family:details-missing-or-wrong-for-sibling-name', {'names': list(names), 'name': n, 'fmt': fmt, 'reported': [e['size'], e['catype'], e['casize']], 'truth': [hbits, shown, cab]})
    st.sample({'rsa_certificate_names': list(chunk[0][0]), 'ca': list(chunk[0][2])}, cap=3)


# ---- a key measured on one probe connection keeps its size and rating when a *later* probe connection fails while being set up
def later_probe_fault_cases():
    out = []
    for bits in (1024, 2048):
        for fault_site, fault in ((-1, ('refuse',)), (0, ('trunc_close', 0)), (0, ('trunc_stall', 4)), (1, ('len', 2, 'huge31')), (1, ('trunc_close', 20)), (2, ('type', 1))):
            for conn in (2, 3):
                for fmt in ('text', 'json'):
                    out.append((bits, fault_site, fault, conn, fmt))
    return out


def work_later_probe_fault(chunk, st):
    for bits, site, fault, conn, fmt in chunk:
        tree = wire.rsa_blob_tree(bits)
        names = ['rsa-sha2-512', 'rsa-sha2-256', 'ssh-rsa']
        keys = names + ['ssh-ed25519', 'ecdsa-sha2-nistp256']
        hk = {'ssh-rsa': tree, 'ssh-ed25519': wire.ed25519_blob_tree(), 'ecdsa-sha2-nistp256': wire.ecdsa_blob_tree(256)}
        srv = P.Server(label='lp', kex=['curve25519-sha256'], key=keys, host_keys=hk, banner=b'SSH-2.0-OpenSSH_9.6')
        res = H.audit(srv, opts=['-n', '--skip-rate-test'] + (['-j'] if fmt == 'json' else []), faults={('lp', conn, site): fault})
        st.execution(res.world, outcome=('later-probe-fault', res.status, fmt), root=('later-probe-fault', bits, site, fault, conn, fmt), nontrivial=('later-probe-fault', bits, site, fault, conn, fmt))
        if res.status not in (0, 2, 3) or res.hang or res.exc:
            st.violation('later-probe-fault:audit-failed', {'bits': bits, 'fault': [conn, site, list(fault)], 'status': res.status, 'stdout': res.stdout[-300:]})
            continue
        # connection 1 fetched the RSA key (the first probed type the server has); whatever happens on connections 2 and 3, it stays measured
        first = res.world.conns and [r for r in srv.records if r['index'] == 1]
        if not first or first[0].get('negotiated', (None, None))[1] not in names:
            continue
        for name in names:
            e = key_entry(res, fmt, name)
            if e is None:
                st.violation('later-probe-fault:key-not-reported', {'bits': bits, 'name': name, 'fault': [conn, site, list(fault)]})
                continue
            lv = expected_level(bits)
            got = sorted(set(l for l, _t in size_notes(e['notes'])))
            if e['size'] != bits or got != ([lv] if lv else []):
                st.violation('later-probe-fault:size-or-rating-lost', {'bits': bits, 'name': name, 'fmt': fmt, 'fault_on_connection': conn, 'fault': [site, list(fault)],
                                                                      'reported_size': e['size'], 'size_note_levels': got, 'expected_level': lv})
    st.sample({'later_probe_fault': [chunk[0][0], chunk[0][1], list(chunk[0][2]), chunk[0][3]]}, cap=3)


# ---- the reply that carries a host key never arrives (connection closed, reset or stalled after our KEXDH_INIT; or cut inside the reply):
# nothing is claimed about a key that was not presented - no size, no fingerprint - and every size / fingerprint shown is a presented key's
def reply_lost_cases():
    out = []
    for keys in (['rsa-sha2-512', 'rsa-sha2-256', 'ssh-ed25519'], ['ssh-rsa', 'ssh-ed25519'], ['ssh-ed25519', 'rsa-sha2-512', 'ssh-rsa'], ['ssh-rsa-cert-v01@openssh.com', 'rsa-sha2-256', 'ssh-ed25519']):
        for conns in ((1,), (2,), (3,), (1, 2), (1, 2, 3)):
            for fault in (('trunc_close', 0), ('reset',), ('trunc_stall', 0), ('trunc_close', 7)):
                for fmt in ('text', 'json'):
                    out.append((tuple(keys), conns, fault, fmt))
    return out


def work_reply_lost(chunk, st):
    for keys, conns, fault, fmt in chunk:
        bits = 2048
        hk = P.standard_host_keys(list(keys), rsa_bits=bits, ca='rsa', ca_bits=4096)
        srv = P.Server(label='rl', kex=['curve25519-sha256'], key=list(keys), host_keys=hk, banner=b'SSH-2.0-OpenSSH_9.6')
        res = H.audit(srv, opts=['-n', '--skip-rate-test'] + (['-j'] if fmt == 'json' else []), faults={('rl', c, 2): fault for c in conns})
        root = ('reply-lost', keys, conns, fault, fmt)
        st.execution(res.world, outcome=('reply-lost', res.status, fmt), root=root, nontrivial=root)
        d = {'host_keys': list(keys), 'reply_lost_on_connections': list(conns), 'fault': list(fault), 'fmt': fmt, 'status': res.status}
        if res.status not in (0, 2, 3) or res.hang or res.exc:
            st.violation('reply-lost:audit-failed', dict(d, stdout=res.stdout[-200:]))
            continue
        for name in keys:
            e = key_entry(res, fmt, name)
            if e is None:
                st.violation('reply-lost:key-not-reported', dict(d, name=name))
                continue
            true = 256 if 'ed25519' in name else bits
            if e['size'] not in (None, true) or ('rsa' in name and e['size'] is None and size_notes(e['notes'])):
                st.violation('reply-lost:size-of-a-key-never-presented' if e['size'] in (0,) else 'reply-lost:size-differs', dict(d, name=name, reported=e['size'], true=true))
        plain = {n: wire.serialize(hk[n]) for n in keys if '-cert-' not in n and n in hk}
        for sig, what in fingerprint_problems(res, fmt, plain):
            if sig != 'fingerprint-missing':
                st.violation('reply-lost:%s' % sig, dict(d, what=what))
    st.sample({'reply_lost': [list(chunk[0][0]), list(chunk[0][1]), list(chunk[0][2])]}, cap=4)


# ---- two audits in flight on two worker threads: every placement of one (quick) or two (thorough) thread switches at the receives
CONC_ARCHS = ['CERTSMALLCA', 'CERTBIGCA', 'RSA1024', 'RSA4096', 'CLEAN', 'GEX2048OPENSSH']


# ---- values, not shapes: what is reported must not depend on the particular bytes of the key material
def value_cases(tier):
    out = []
    for b in range(256):
        out.append(('ed', b, 'key'))
        out.append(('edcert', b, 'key'))
        out.append(('edcert', b, 'ca'))
        out.append(('ed448', b, 'key'))
    from props import c05
    for label in sorted(c05.CERT_FIELD_SETS):
        for cname in ('ssh-ed25519-cert-v01@openssh.com', 'ssh-rsa-cert-v01@openssh.com'):
            out.append(('certfields', label, cname))
    exps = [3, 17, 35, 257, 65535, 65537, 65539, 2 ** 31 - 1, 2 ** 31 + 11, 2 ** 32 + 1, 2 ** 64 + 13]
    for bits in (2047, 2048, 3072, 3073):
        top = 1 << (bits - 1)
        moduli = {'sparse': top | 1, 'ones': (1 << bits) - 1, 'second-byte-zero': top | ((1 << (bits - 16)) - 1) | 1 if bits % 8 == 0 else top | 1 | (1 << 9),
                  'alternating': top | int('55' * (bits // 8 - 1), 16) | 1, 'low-word-top-bit': top | 0x80000001, 'low-bytes-ff': top | 0xffffffffffffffff}
        for mname, n in sorted(moduli.items()):
            for e in (exps if mname == 'sparse' else (65537, 3)):
                out.append(('rsa', bits, mname, n, e))
                if mname in ('sparse', 'ones'):
                    out.append(('rsacert', bits, mname, n, e))
    return out


def work_values(chunk, st):
    for case in chunk:
        for fmt in ('text', 'json'):
            opts = ['-j'] if fmt == 'json' else []
            if case[0] == 'certfields':
                from props import c05
                _k, label, cname = case
                ca_tree = wire.rsa_blob_tree(2048)
                fl = c05.CERT_FIELD_SETS[label]
                tree = wire.ed25519_cert_tree(ca_tree, fields=fl) if 'ed25519' in cname else wire.rsa_cert_tree(3072, ca_tree, fields=fl)
                res, _ = run_server([cname], {cname: tree}, opts=opts)
                root = ('value', 'certfields', label, cname, fmt)
                st.execution(res.world, outcome=('value', 'certfields', fmt, res.status), root=root, nontrivial=root, detail='light')
                d = {'certificate': cname, 'free_form_fields': label, 'fmt': fmt, 'status': res.status}
                e = key_entry(res, fmt, cname) if res.status in (0, 2, 3) else None
                want_ca = 'ssh-rsa' if fmt == 'json' else 'RSA'
                if e is None or e['casize'] != 2048 or e['catype'] != want_ca or ('rsa' in cname and e['size'] != 3072):
                    st.violation('value:certificate-details-depend-on-free-form-fields:%s' % label.split('-')[0], dict(d, reported=None if e is None else [e['size'], e['catype'], e['casize']]))
                continue
            if case[0] in ('ed', 'edcert', 'ed448'):
                kind, b, where = case
                pk = bytes([b]) + b'\x5a' * 31
                if kind == 'ed':
                    name, tree, plain = 'ssh-ed25519', wire.ed25519_blob_tree(pk), True
                elif kind == 'ed448':
                    name, tree, plain = 'ssh-ed448', wire.ed448_blob_tree(bytes([b]) + b'\x5a' * 56), True
                else:
                    name, plain = 'ssh-ed25519-cert-v01@openssh.com', False
                    tree = wire.ed25519_cert_tree(wire.ed25519_blob_tree(pk if where == 'ca' else b'\x44' * 32), pk=pk if where == 'key' else b'\x42' * 32)
                res, _ = run_server([name], {name: tree}, opts=opts)
                root = ('value', kind, b, where, fmt)
                st.execution(res.world, outcome=('value', kind, fmt, res.status), root=root, nontrivial=root, detail='light')
                d = {'key_type': name, 'first_byte': b, 'where': where, 'fmt': fmt, 'status': res.status}
                if res.status not in (0, 2, 3):
                    st.violation('value:audit-failed:%s' % kind, dict(d, stdout=res.stdout[-200:]))
                    continue
                e = key_entry(res, fmt, name)
                if e is None:
                    st.violation('value:key-not-reported:%s' % kind, d)
                    continue
                if size_notes(e['notes']):
                    st.violation('value:size-note-depends-on-key-bytes:%s:%s' % (kind, where), dict(d, notes=size_notes(e['notes'])))
                want_size = None if kind == 'ed448' else 256
                if kind != 'ed448' and e['size'] not in (256, None) or (kind == 'edcert' and e['casize'] != 256):
                    st.violation('value:size-depends-on-key-bytes:%s:%s' % (kind, where), dict(d, reported=[e['size'], e.get('casize')]))
                for sig, what in fingerprint_problems(res, fmt, {name: wire.serialize(tree)} if plain else {}):
                    st.violation('value:%s:%s' % (sig, kind), dict(d, what=what))
            else:
                kind, bits, mname, n, ex = case
                if kind == 'rsa':
                    names = ['rsa-sha2-512', 'ssh-rsa']
                    tree = wire.rsa_blob_tree(n=n, e=ex)
                    hk = {'ssh-rsa': tree}
                else:
                    names = ['rsa-sha2-512-cert-v01@openssh.com']
                    tree = wire.cert_blob_tree(b'ssh-rsa-cert-v01@openssh.com', [wire.L(wire.mpint_bytes(ex), 'e'), wire.L(wire.mpint_bytes(n), 'n')], wire.rsa_blob_tree(n=n, e=ex))
                    hk = {names[0]: tree}
                res, _ = run_server(names, hk, opts=opts)
                root = ('value', kind, bits, mname, ex, fmt)
                st.execution(res.world, outcome=('value', kind, fmt, res.status), root=root, nontrivial=root, detail='light')
                d = {'key_type': kind, 'bits': bits, 'modulus': mname, 'exponent': ex, 'fmt': fmt, 'status': res.status}
                if res.status not in (0, 2, 3):
                    st.violation('value:audit-failed:%s' % kind, dict(d, stdout=res.stdout[-200:]))
                    continue
                if kind == 'rsa':
                    judge_plain_rsa(bits, names, res, fmt, wire.serialize(tree), st, 'value:rsa:%s' % ('exponent' if mname == 'sparse' and ex != 65537 else 'modulus-pattern'))
                else:
                    e = key_entry(res, fmt, names[0])
                    if e is None or e['size'] != bits or e['casize'] != bits:
                        st.violation('value:rsacert:size-depends-on-key-bytes', dict(d, reported=None if e is None else [e['size'], e['casize']]))
    st.sample({'key_material_value': [str(x)[:40] for x in chunk[0][:3]]}, cap=6)


def work_concurrent(chunk, st):
    from props import c07
    for case in chunk:
        c07.explore_case(case, st)


def concurrent_cases(tier):
    import itertools
    out = []
    for a, b in itertools.permutations(CONC_ARCHS, 2):
        for fmt in ('text', 'json'):
            out.append(((a, b), 2, fmt, False, 1 if tier == 'quick' else 2, ('recv',), 2000))
    return out


def run(tier, seed):
    t0 = time.time()
    _vc = value_cases(tier)
    st = evidence.Stats()
    sizes = rsa_sizes(tier)
    fmts = ['text', 'json'] if tier == 'quick' else ['text', 'verbose', 'json']
    par.pmap(work_rsa, [(b, f) for b in sizes for f in fmts], stats=st)
    fam = []
    for k in (1, 2, 3):
        for sel in itertools.permutations(RSA_FAMILY, k):
            for bits in (1024, 2048, 3072, 4096):
                for fmt in ('text', 'json'):
                    fam.append((sel, bits, fmt))
    par.pmap(work_family, fam, stats=st)
    check_fixed(st)
    par.pmap(work_cert, cert_cases(), stats=st)
    par.pmap(work_multi, multi_cases(), stats=st)
    par.pmap(work_concurrent, concurrent_cases(tier), stats=st, chunk=1)
    par.pmap(work_later_probe_fault, later_probe_fault_cases(), stats=st, chunk=4)
    par.pmap(work_reply_lost, reply_lost_cases(), stats=st, chunk=4)
    par.pmap(work_cert_family, cert_family_cases(), stats=st, chunk=4)
    check_other_kex(st)
    check_reply_f(st)
    par.pmap(work_values, _vc, stats=st, chunk=16)
    from props import delivery as _DL
    par.pmap(_DL.work, _DL.tasks(tier), extra=(('sizes',),), stats=st, chunk=12)
    vcases = []
    for bits in H.pick(sizes, seed, 10 if tier == 'quick' else 60):
        vcases.append({'label': 'rsa %d' % bits, 'opts': ['-n', '-j'] if bits % 128 else ['-n', '-v'],
                       'make': (lambda bits=bits: P.Server(kex=['curve25519-sha256'], key=['ssh-rsa'], host_keys={'ssh-rsa': wire.rsa_blob_tree(bits)}, banner=b'SSH-2.0-OpenSSH_9.6'))})
    for (cname, hbits), (cak, cab), fmt in H.pick(cert_cases(), seed, 12 if tier == 'quick' else 60):
        def mk(cname=cname, hbits=hbits, cak=cak, cab=cab):
            t, _ = _ca_tree(cak, cab)
            tree = wire.ed25519_cert_tree(t) if 'ed25519' in cname else wire.rsa_cert_tree(hbits, t)
            return P.Server(kex=['curve25519-sha256'], key=[cname], host_keys={cname: tree}, banner=b'SSH-2.0-OpenSSH_9.6')
        vcases.append({'label': 'cert %s %s%s' % (cname, cak, cab), 'opts': ['-n'] + (['-j'] if fmt == 'json' else []), 'make': mk})
    validated = H.validate_traces(vcases, st)
    # monotonicity of the rating in the key size (from this run's observations is implied by the threshold oracle)
    return evidence.finish(
        PID, tier, seed, st, t0,
        rule='RSA moduli with exact bit length b for %d values of b in 512..16384 (step 64; step 8 around 2048/3072; %s) presented as ssh-rsa x %s; '
             'all 15 ordered selections of the RSA family x {1024,2048,3072,4096} x {text,json}; Ed25519/Ed448/ECDSA/DSS keys; %d certificate '
             'configurations (RSA and Ed25519 certificates x RSA CAs of %s bits, Ed25519 CA, ECDSA P-256/384/521 CAs) x {text,json}; every server '
             'holding two or more of {RSA key of 4 sizes, RSA certificate (3 variants), Ed25519 key, Ed25519 certificate (3 CAs), ECDSA key}; one RSA key per '
             'key-exchange path (group1/14/16, ECDH, curve25519, GEX); key-material VALUES: every first byte of an Ed25519 / Ed448 key, of a certified Ed25519 key and of its CA key; '
             'RSA moduli of 2047/2048/3072/3073 bits in six bit patterns x 11 public exponents (3 .. 2**64+13), plain and certified' % (len(sizes), 'thresholds +-9 step 1' if tier != 'quick' else 'thresholds +-1',
                                                                         fmts, len(cert_cases()) // 2, [b for k, b in CA_KINDS if k == 'rsa']),
        assumptions=['ground truth = the key the scripted server generated (bit length of the modulus, hashlib fingerprints of the blob sent)',
                     'size of a key = bit length of its modulus / curve'],
        exhaustive=True, traces_validated=validated)


def replay(path):
    v = json.load(open(path))
    d = v['detail']
    st = evidence.Stats()
    b = d.get('true_bits') or d.get('bits')
    if b and 'cert' not in d:
        work_rsa([(b, 'text'), (b, 'json')], st)
    else:
        print('re-run the check to reproduce:', d)
        return 1
    for x in st.violations:
        print('replayed:', x['sig'], x['detail'])
    return 1 if st.violations else 0
