"""C18 - the tool connects to, and reports on, exactly the target that was named."""
import itertools
import json
import socket
import time

from mc import evidence, harness as H, par, peer as P, report, runner, vnet

PID = 'C18'
V4, V6 = int(socket.AF_INET), int(socket.AF_INET6)
def long_name(n):
    """a valid host name of exactly n characters (labels of at most 63, RFC 1035)"""
    labels, left = [], n
    while left > 0:
        k = min(63, left)
        if left - k == 1:
            k -= 1
        labels.append('x' * k)
        left -= k + 1
    s = '.'.join(labels)
    return s[:n] if len(s) >= n else s + 'y' * (n - len(s))


# names of every length class: single character, one full label, one character past a label's limit, the longest name DNS allows
HOSTS = [('name', 'host.example.'), ('name', 'db.'), ('name', 'host.example'), ('name', 'a-b.c9.example.org'), ('name', 'h'), ('name', long_name(63)), ('name', long_name(64)), ('name', long_name(65)), ('name', long_name(253)), ('v4', '192.0.2.10'), ('v6', '::1'), ('v6', 'fe80::1'),
         ('v6', '2001:0db8:0000:0000:0000:0000:0000:0001'), ('v6', '::ffff:192.0.2.1'), ('v6', '2001:DB8::A'), ('v6', 'FE80::1'),
         # every number of colons a literal can have (2..8): eight when '::' stands for one zero group at either end
         ('v6', '::2:3:4:5:6:7:8'), ('v6', '1:2:3:4:5:6:7::'), ('v6', '1:2:3:4:5:6:7:8'), ('v6', '1::8'), ('v6', '::3:4:5:6:7:443'), ('v6', '1:2:3::7:22')]
PORTS_OK = [1, 22, 2222, 65535]
PORTS_BAD = [0, 65536, 70000]
FAMILY_OPTS = {'none': [], '-4': ['-4'], '-6': ['-6'], '-46': ['-46'], '-64': ['-64'], '-6 -4': ['-6', '-4'], '--ipv4 --ipv6': ['--ipv4', '--ipv6']}
RESOLVER = ['v4', 'v6', 'v4v6', 'v6v4', 'empty', 'error', 'mixed']
ADDR4, ADDR6 = '198.51.100.7', '2001:db8::7'
SOURCES = ['argv', 'file', 'file-messy']
POPTS = [None, 22, 2022]


def spellings(kind, host, port):
    """documented spellings of (host, port or None) -> list of (label, text)"""
    if kind in ('name', 'v4'):
        return [('bare', host)] if port is None else [('host:port', '%s:%d' % (host, port))]
    if port is None:
        return [('bare', host), ('[v6]', '[%s]' % host)]
    return [('[v6]:port', '[%s]:%d' % (host, port))]


def family_pref(fam):
    return {'none': [], '-4': [4], '-6': [6], '-46': [4, 6], '-64': [6, 4], '-6 -4': [6, 4], '--ipv4 --ipv6': [4, 6]}[fam]


def resolver_answer(kind, host, rmode):
    if kind == 'v4':
        return [(V4, host)]
    if kind == 'v6':
        return [(V6, host)]
    # several addresses per family, listed by the resolver in an order that is neither ascending nor descending as text
    a4, b4, a6, b6 = (V4, '198.51.100.9'), (V4, '198.51.100.10'), (V6, '2001:db8::1'), (V6, '2001:db8::2')
    return {'v4': [(V4, ADDR4)], 'v6': [(V6, ADDR6)], 'v4v6': [(V4, ADDR4), (V6, ADDR6)], 'v6v4': [(V6, ADDR6), (V4, ADDR4)], 'empty': [],
            # answers with many records (a name behind a big round-robin pool): nine to twenty addresses of one family ahead of the other's
            'many6-then-4': [(V6, '2001:db8::%x' % i) for i in range(0x10, 0x1c)] + [(V4, ADDR4)],
            'many4-then-6': [(V4, '198.51.100.%d' % i) for i in range(20, 29)] + [(V6, ADDR6), (V6, '2001:db8::8')],
            'many-mixed': [x for i in range(10) for x in ((V6, '2001:db8::%x' % (0x30 + i)), (V4, '198.51.100.%d' % (40 + i)))],
            'multi46': [a4, b4, a6, b6], 'multi64': [a6, b6, a4, b4], 'mixed': [a4, a6, b4, b6], 'mixed-rev': [b6, b4, a6, a4],
            'error': socket.gaierror(-2, 'Name or service not known')}[rmode]


def expected_addresses(ans, pref):
    if isinstance(ans, Exception):
        return None
    allowed = {4: V4, 6: V6}
    fams = [allowed[p] for p in pref] if pref else [V4, V6]
    lst = [(f, ip) for f, ip in ans if f in fams]
    if len(pref) == 2:
        lst.sort(key=lambda x: fams.index(x[0]))
    return lst


def cases(tier):
    out = []
    for (kind, host) in HOSTS:
        for port in [None] + PORTS_OK + PORTS_BAD:
            for sp_label, text in spellings(kind, host, port):
                for src in SOURCES:
                    for popt in POPTS:
                        for fam in FAMILY_OPTS:
                            rmodes = RESOLVER if kind == 'name' else ['literal']
                            for rmode in rmodes:
                                if tier == 'quick' and (hash((host, port, sp_label, src, popt, fam, rmode)) % 3):
                                    continue
                                out.append((kind, host, port, sp_label, text, src, popt, fam, rmode))
    # invalid -p
    for popt in (0, 65536):
        for src in ('argv', 'file'):
            out.append(('name', 'host.example', None, 'bare', 'host.example', src, popt, 'none', 'v4'))
    return out


def run_case(case, fmt):
    kind, host, port, sp_label, text, src, popt, fam, rmode = case
    ans = resolver_answer(kind, host, rmode)
    eport = port if port is not None else (popt if popt is not None else 22)
    servers = {}
    if not isinstance(ans, Exception):
        for f, ip in ans:
            for pt in set([eport, 22, popt or 22]):
                if 1 <= pt <= 65535:
                    servers[(ip, pt)] = P.Server(label='%s@%d' % (ip, pt))
    w = vnet.World(servers=servers, resolver={host: ans, '[%s]' % host: socket.gaierror(-2, 'Name or service not known')})
    argv = ['-n', '--skip-rate-test'] + (['-j'] if fmt == 'json' else []) + FAMILY_OPTS[fam]
    if popt is not None:
        argv += ['-p', str(popt)]
    if src == 'argv':
        argv.append(text)
    else:
        path = H.tmp_path('c18-targets.txt')
        with open(path, 'w', newline='') as f:
            if src == 'file':
                f.write(text + '\n')
            else:
                f.write('\n   \n\t\r\n  %s  \r\n\r\n \n' % text)
        argv += ['-T', path]
    return runner.run_cli(argv, w), w, ans, eport


# ---- every connection of one audit (handshake, host-key and group-exchange probes, connection-rate check) goes to the address the
# options select, not only the first one
def whole_audit_cases():
    out = []
    for rmode in ('v4v6', 'v6v4', 'v4', 'v6', 'multi46', 'multi64', 'mixed', 'mixed-rev', 'many6-then-4', 'many4-then-6', 'many-mixed'):
        for fam in FAMILY_OPTS:
            for popt in (None, 2022):
                out.append(('whole', rmode, fam, popt))
    return out


def check_whole_audit(case, st):
    _t, rmode, fam, popt = case
    host = 'host.example'
    ans = resolver_answer('name', host, rmode)
    eport = popt or 22
    pref = family_pref(fam)
    exp = expected_addresses(ans, pref)
    servers = {}
    for f, ip in ans:
        servers[(ip, eport)] = P.Server(label='%s@%d' % (ip, eport), kex=['curve25519-sha256', 'diffie-hellman-group-exchange-sha256'], key=['ssh-ed25519', 'rsa-sha2-512'],
                                        host_keys=P.standard_host_keys(['ssh-ed25519', 'rsa-sha2-512']), gex=P.GexPolicy([2048, 4096], P.STRICT))
    w = vnet.World(servers=servers, resolver={host: ans})
    argv = ['-n'] + FAMILY_OPTS[fam] + (['-p', str(popt)] if popt else []) + [host]
    res = runner.run_cli(argv, w)
    connects = [(ev[2], ev[3], ev[4]) for ev in w.log if ev[0] == 'connect']
    st.execution(w, outcome=('whole', fam, rmode, res.status, len(connects)), root=case, nontrivial=case)
    d = {'resolver': rmode, 'family': fam, 'p': popt, 'status': res.status, 'connections': len(connects)}
    if res.hang or res.exc:
        st.violation('whole-audit:crash-or-hang', dict(d, hang=res.hang, exc=res.exc))
        return
    if not exp:
        if connects:
            st.violation('whole-audit:dials-excluded-family:%s' % fam, dict(d, connects=sorted(set(connects))[:4]))
        return
    want_ip = exp[0][1]
    stray = sorted(set(c for c in connects if c[0] != want_ip or c[1] != eport))
    if stray:
        phase = 'rate-check' if len([c for c in connects if c[0] != want_ip]) >= 20 else 'probes'
        st.violation('whole-audit:later-connections-go-elsewhere:%s:%s:%s' % (fam, rmode, phase), dict(d, selected=want_ip, stray=stray[:4], stray_count=len([c for c in connects if c[0] != want_ip])))
    if len(connects) < 20:
        st.violation('whole-audit:rate-check-did-not-run', d)


def unanswered_cases():
    """a whole audit in which connection k to the selected address gets no answer within the timeout (connect times out), or is
    refused: the connections after it still go where the options say"""
    out = []
    for rmode in ('v4v6', 'v6v4', 'mixed'):
        for fam in FAMILY_OPTS:
            for k in (1, 2, 3, 4):
                for kind in ('timeout', 'refuse'):
                    out.append(('unanswered', rmode, fam, k, kind))
    return out


def work_unanswered(chunk, st):
    for case in chunk:
        _t, rmode, fam, k, kind = case
        host = 'host.example'
        ans = resolver_answer('name', host, rmode)
        pref = family_pref(fam)
        exp = expected_addresses(ans, pref)
        servers = {}
        for f, ip in ans:
            servers[(ip, 22)] = P.Server(label='%s@22' % ip, kex=['curve25519-sha256', 'diffie-hellman-group-exchange-sha256'], key=['ssh-ed25519', 'rsa-sha2-512'],
                                         host_keys=P.standard_host_keys(['ssh-ed25519', 'rsa-sha2-512']), gex=P.GexPolicy([2048, 4096], P.STRICT))
        faults = {('%s@22' % exp[0][1], k, -1): (kind,)} if exp else {}
        w = vnet.World(servers=servers, resolver={host: ans}, faults=faults)
        res = runner.run_cli(['-n'] + FAMILY_OPTS[fam] + [host], w)
        st.execution(w, outcome=('unanswered', fam, rmode, res.status), root=case, nontrivial=case)
        d = {'resolver': rmode, 'family': fam, 'connection_without_answer': k, 'how': kind, 'status': res.status}
        if res.hang or res.exc:
            st.violation('unanswered-connection:crash-or-hang', dict(d, hang=res.hang, exc=res.exc))
            continue
        want = [ip for _f, ip in exp or []]
        # one group per name resolution: the addresses dialled after it, consecutive repeats (the rate check dials one address many times) folded
        groups, asked = [], []
        for ev in w.log:
            if ev[0] == 'resolve':
                groups.append([])
                asked.append(ev[3])
            elif ev[0] == 'connect' and groups and (not groups[-1] or groups[-1][-1] != ev[2]):
                groups[-1].append(ev[2])
        allowed_q = {(): (0,), (4,): (int(V4),), (6,): (int(V6),), (4, 6): (0, int(V4), int(V6)), (6, 4): (0, int(V4), int(V6))}[tuple(pref)]
        for i, g in enumerate(groups):
            if g != want[:len(g)]:
                st.violation('unanswered-connection:later-connections-leave-the-requested-families-or-order:%s' % fam, dict(d, resolution=i, dialled=g, options_allow_in_order=want))
                break
            if len(pref) == 1 and asked[i] not in allowed_q:
                st.violation('unanswered-connection:resolver-asked-for-another-family:%s' % fam, dict(d, resolution=i, asked_family=asked[i]))
                break
    st.sample({'unanswered': [list(x) for x in chunk[:2]]}, cap=4)


def label_text(kind, host, eport):
    if eport == 22:
        return host
    return '[%s]:%d' % (host, eport) if kind == 'v6' else '%s:%d' % (host, eport)


def check(case, st):
    kind, host, port, sp_label, text, src, popt, fam, rmode = case
    for fmt in ('text', 'json'):
        res, w, ans, eport = run_case(case, fmt)
        st.execution(w, outcome=(src, fam, rmode, res.status), root=(case, fmt), nontrivial=(case, fmt))
        d = {'target_text': text, 'source': src, 'p': popt, 'family': fam, 'resolver': rmode, 'fmt': fmt, 'status': res.status}
        connects = [(ev[2], ev[3], ev[4]) for ev in w.log if ev[0] == 'connect']
        resolves = [(ev[1], ev[2], ev[3]) for ev in w.log if ev[0] == 'resolve']
        if res.hang or res.exc or res.status not in (0, 1, 2, 3, 255):
            st.violation('crash-or-hang', dict(d, hang=res.hang, exc=res.exc))
            continue
        bad_port = (port is not None and not 1 <= port <= 65535) or (popt is not None and not 1 <= popt <= 65535)
        tag = '%s:%s%s' % (src.split('-')[0], sp_label, '+-p' if popt is not None else '')
        if bad_port:
            if connects:
                st.violation('out-of-range-port-but-connection-made:%s' % tag, dict(d, connects=connects))
            if res.status in (0, 2, 3):
                st.violation('out-of-range-port-not-rejected:%s' % tag, dict(d, stdout=res.stdout[-200:]))
            # the rejection is reported under the entry as written (a targets-file run names the entry it is about)
            if src.startswith('file') and port is not None and not 1 <= port <= 65535:
                if fmt == 'json':
                    try:
                        els = json.loads(res.stdout)
                        labels = [str(e.get('target')) for e in els if isinstance(e, dict) and 'error' in e] if isinstance(els, list) else []
                    except ValueError:
                        labels = None
                    if labels is not None and not any(l.endswith(':%d' % port) for l in labels):
                        st.violation('out-of-range-port:error-labelled-with-another-port:%s' % tag, dict(d, labels=labels, entry_port=port))
                elif (':%d' % port) not in res.stdout:
                    st.violation('out-of-range-port:error-labelled-with-another-port:%s' % tag, dict(d, entry_port=port, stdout=res.stdout[-300:]))
            continue
        pref = family_pref(fam)
        want_family = {(): 0, (4,): V4, (6,): V6}.get(tuple(pref), 0)
        if not resolves:
            st.violation('no-resolution-attempt:%s' % tag, dict(d, stdout=res.stdout[-200:]))
            continue
        if resolves[0][0] != host or resolves[0][1] != eport:
            st.violation('resolves-wrong-host-or-port:%s' % tag, dict(d, asked=resolves[0], expected=[host, eport]))
            continue
        if resolves[0][2] != want_family:
            st.violation('resolver-family:%s' % fam, dict(d, asked_family=resolves[0][2], expected=want_family))
        exp = expected_addresses(ans, pref)
        allowed_fams = set({4: V4, 6: V6}[p] for p in pref) if pref else {V4, V6}
        for ip, pt, f in connects:
            if f not in allowed_fams or (':' in ip) != (f == V6):
                st.violation('dials-excluded-family:%s' % fam, dict(d, connects=connects))
                break
            if pt != eport:
                st.violation('dials-wrong-port:%s' % tag, dict(d, connects=connects, expected_port=eport))
                break
        if exp:
            if not connects:
                st.violation('no-connection-attempt:%s' % tag, dict(d, stdout=res.stdout[-200:]))
                continue
            if connects[0][0] != exp[0][1]:
                st.violation('first-address-order:%s:%s' % (fam, rmode), dict(d, first=connects[0], expected=exp[0]))
            # label
            if res.status in (0, 2, 3):
                if fmt == 'json':
                    try:
                        doc = json.loads(res.stdout)
                        doc = doc[0] if isinstance(doc, list) else doc
                        if doc.get('target') != '%s:%d' % (host, eport):
                            st.violation('json-target-label:%s' % tag, dict(d, label=doc.get('target'), expected='%s:%d' % (host, eport)))
                    except ValueError:
                        st.violation('json-unparseable', dict(d, stdout=res.stdout[:200]))
                elif src != 'argv':
                    rep = report.TextReport(res.stdout)
                    if rep.gen.get('target') != label_text(kind, host, eport):
                        st.violation('text-target-label:%s' % tag, dict(d, label=rep.gen.get('target'), expected=label_text(kind, host, eport)))
            else:
                st.violation('audit-of-reachable-target-failed:%s' % tag, dict(d, stdout=res.stdout[-300:]))
        else:
            if connects:
                st.violation('connects-although-no-address:%s' % rmode, dict(d, connects=connects))
            if res.status in (0, 2, 3):
                st.violation('unresolvable-target-looks-audited', dict(d))


def work(chunk, st):
    for case in chunk:
        check(case, st)
        if st.evaluations % 2000 < 2:
            st.sample({'target': case[4], 'source': case[5], 'p': case[6], 'family': case[7], 'resolver': case[8]})


def check_direct(st):
    parse = runner.M['utils'].Utils.parse_host_and_port
    for (kind, host) in HOSTS:
        for port in [None] + PORTS_OK + PORTS_BAD + [80, 443, 8022]:
            for sp_label, text in spellings(kind, host, port):
                for default in (22, 2022):
                    try:
                        h, p = parse(text, default_port=default)
                    except Exception as e:
                        st.violation('parse_host_and_port:exception', {'text': text, 'what': str(e)})
                        continue
                    st.execution(None, outcome=('parse', sp_label), root=('parse', text, default), nontrivial=('parse', text, default))
                    if (h, p) != (host, port if port is not None else default):
                        st.violation('parse_host_and_port:%s' % sp_label, {'text': text, 'got': [h, p], 'expected': [host, port if port is not None else default]})


def policy_label(st):
    """the policy report is labelled with the same target too"""
    pol = H.tmp_path('c18-policy.txt')
    with open(pol, 'w') as f:
        f.write('name = "p"\nversion = 1\nciphers = aes256-ctr\n')
    for kind, host in HOSTS:
        for port in (None, 2222):
            for sp, text in spellings(kind, host, port):
                ans = resolver_answer(kind, host, 'v4')
                eport = port or 22
                w = vnet.World(servers={(ip, eport): P.Server() for _f, ip in ans}, resolver={host: ans})
                res = runner.run_cli(['-n', '--skip-rate-test', '-P', pol, text], w)
                st.execution(w, outcome=('policy-label', res.status), root=('policy-label', text), nontrivial=('policy-label', text))
                pt = report.PolicyText(res.stdout)
                if pt.host != label_text(kind, host, eport):
                    st.violation('policy-host-label:%s' % sp, {'target': text, 'label': pt.host, 'expected': label_text(kind, host, eport)})


def multi_entry_cases():
    """targets files with 2-3 entries: same host on different ports, different hosts on the same port, mixes; with/without -p"""
    entries = [('host.example', None), ('host.example', 2222), ('host.example', 2200), ('other.example', None), ('other.example', 2222),
               ('192.0.2.10', None), ('192.0.2.10', 2222), ('::1', None), ('::1', 2222),
               # the same service in another spelling (the default port written out): listed twice, it is audited and reported twice
               ('host.example', 22), ('::1', 22)]
    out = []
    for n in (2, 3):
        for combo in itertools.permutations(range(len(entries)), n):
            if n == 3 and not (entries[combo[0]][0] == entries[combo[2]][0] or entries[combo[0]][1] == entries[combo[1]][1]):
                continue
            for popt in (None, 2022):
                out.append((tuple(entries[i] for i in combo), popt))
    return out


def work_multi_entry(chunk, st):
    for ents, popt in chunk:
        servers, resolver, lines, expect = {}, {}, [], []
        ipmap = {'host.example': ADDR4, 'other.example': '198.51.100.8'}
        for host, port in ents:
            kind = 'v6' if ':' in host else ('v4' if host[0].isdigit() else 'name')
            ip = ipmap.get(host, host)
            eport = port if port is not None else (popt or 22)
            if kind == 'name':
                resolver[host] = [(V4, ip)]
            servers[(ip, eport)] = P.Server(label='%s@%d' % (ip, eport), banner=('SSH-2.0-Srv_%s_%d' % (ip.replace(':', 'x').replace('.', 'x'), eport)).encode())
            lines.append(spellings(kind, host, port)[-1][1])
            expect.append((host, ip, eport, kind))
        # the same list alone, and behind an entry that cannot be reached at all (unknown name; an IPv6 literal under -4): the
        # unreachable entry costs the others neither their connection nor their labelled report
        variants = [(None, [])]
        variants.append(('unresolvable-first', []))
        if not any(k == 'v6' for _h, _i, _p, k in expect):
            variants.append(('v6-literal-under--4-first', ['-4']))
        for variant, xopts in variants:
            vlines = list(lines)
            if variant == 'unresolvable-first':
                vlines.insert(0, 'nosuchhost.example')
            elif variant is not None:
                vlines.insert(0, '[2001:db8::99]:2222')
            w = vnet.World(servers=servers, resolver=resolver)
            path = H.tmp_path('c18-multi.txt')
            with open(path, 'w') as f:
                f.write(''.join(l + '\n' for l in vlines))
            argv = ['-n', '--skip-rate-test', '-j', '-T', path, '--threads', '1'] + (['-p', str(popt)] if popt else []) + xopts
            res = runner.run_cli(argv, w)
            st.execution(w, outcome=('multi-entry', len(ents), res.status, variant), root=('multi-entry', ents, popt, variant), nontrivial=('multi-entry', ents, popt, variant))
            d = {'lines': vlines, 'p': popt, 'status': res.status, 'options': xopts}
            tag = 'multi-entry' if variant is None else 'multi-entry-after-unreachable'
            if res.exc or res.hang:
                st.violation('%s:escaped-exception-or-hang' % tag, dict(d, exc=res.exc, hang=res.hang))
                continue
            try:
                docs = json.loads(res.stdout)
            except ValueError:
                st.violation('%s:json-unparseable' % tag, dict(d, stdout=res.stdout[:200]))
                continue
            if len(docs) != len(vlines):
                st.violation('%s:wrong-number-of-results' % tag, dict(d, got=len(docs)))
                continue
            # results come out in completion order: match them to the entries by the target they name
            by_target = {}
            for doc in docs:
                by_target.setdefault(doc.get('target'), []).append(doc)
            want_labels = ['%s:%d' % (host, eport) for host, _ip, eport, _k in expect]
            if len(set(want_labels)) == len(want_labels) and all(len(by_target.get(l, [])) == 1 for l in want_labels):
                docs = [by_target[l][0] for l in want_labels]
            elif variant is not None:
                docs = docs[1:]
            connects = [(ev[2], ev[3]) for ev in w.log if ev[0] == 'connect']
            if sorted(set(connects)) != sorted(set((ip, pt) for _h, ip, pt, _k in expect)):
                st.violation('%s:connects-to-wrong-endpoints' % tag, dict(d, connects=sorted(set(connects)), expected=sorted(set((ip, pt) for _h, ip, pt, _k in expect))))
            for (host, ip, eport, kind), doc in zip(expect, docs):
                want_banner = 'SSH-2.0-Srv_%s_%d' % (ip.replace(':', 'x').replace('.', 'x'), eport)
                if doc.get('target') != '%s:%d' % (host, eport) or doc.get('banner', {}).get('raw') != want_banner:
                    st.violation('%s:report-label-or-content-of-another-target' % tag, dict(d, target=doc.get('target'), banner=doc.get('banner', {}).get('raw'),
                                                                                        expected=['%s:%d' % (host, eport), want_banner]))
        # the text renderings: every block carries the label of its target and the banner of the server that answered under that label
        for topts in (['-b'], ['-b', '-l', 'fail'], ['-l', 'warn'], ['-v']):
            w = vnet.World(servers=servers, resolver=resolver)
            path = H.tmp_path('c18-multi.txt')
            with open(path, 'w') as f:
                f.write(''.join(l + '\n' for l in lines))
            res = runner.run_cli(['-n', '--skip-rate-test', '-T', path, '--threads', '1'] + (['-p', str(popt)] if popt else []) + topts, w)
            st.execution(w, outcome=('multi-entry-text', len(ents), res.status, tuple(topts)), root=('multi-entry-text', ents, popt, tuple(topts)), nontrivial=('multi-entry-text', ents, popt, tuple(topts)))
            d = {'lines': lines, 'p': popt, 'status': res.status, 'options': topts}
            if res.exc or res.hang:
                st.violation('multi-entry:text:escaped-exception-or-hang', dict(d, exc=res.exc, hang=res.hang))
                continue
            from mc import report as _report
            blocks = _report.split_targets(res.stdout)
            want = {}
            for host, ip, eport, kind in expect:
                want[label_text(kind, host, eport)] = 'Srv_%s_%d' % (ip.replace(':', 'x').replace('.', 'x'), eport)
            seen = {}
            for b in blocks:
                labels = [l.split('target: ', 1)[1].strip() for l in b.split('\n') if l.startswith('(gen) target: ')]
                if len(labels) != 1:
                    st.violation('multi-entry:text:block-with-%d-target-labels:%s' % (len(labels), ' '.join(topts)), dict(d, block_head=b[:200]))
                    continue
                seen[labels[0]] = b
            for lab, mark in want.items():
                if lab in seen and mark not in seen[lab] and '-l' not in topts:
                    st.violation('multi-entry:text:report-of-another-target-under-this-label:%s' % ' '.join(topts), dict(d, label=lab, expected_banner_mark=mark))
                if lab not in seen and len(blocks) == len(expect) and not any(len([l for l in b.split('\n') if l.startswith('(gen) target: ')]) != 1 for b in blocks):
                    st.violation('multi-entry:text:no-block-labelled-with-this-target:%s' % ' '.join(topts), dict(d, label=lab, labels=sorted(seen)))
    st.sample({'targets_file': [spellings('name', h, p)[-1][1] if ':' not in h else h for h, p in chunk[0][0]], 'p': chunk[0][1]}, cap=8)


# ---- two workers, every completion order: each JSON element - report or error - carries the label of the target it is about
def work_label_schedules(chunk, st):
    from mc import sched
    from props import multitarget as MT
    import json as _json
    for archs, threads in chunk:
        def once(prefix):
            res, s = MT.run_multi(list(archs), threads, 'json', prefix, ('connect', 'resolve'), explore_main=True)
            return (res, s), s.points
        n = 0
        for prefix, (res, s), _points in sched.explore_schedules(once, 1, 400):
            n += 1
            order = tuple(l[0] for l in s.completion_order)
            root = ('label-schedule', archs, threads, tuple(prefix))
            st.execution(res.world, outcome=('label-schedule', res.status, order), root=root, nontrivial=('label-schedule', archs, threads, order))
            d = {'targets': list(archs), 'threads': threads, 'schedule': list(prefix), 'completion_order': list(order), 'status': res.status}
            if res.hang or res.exc:
                st.violation('json-labels:hang-or-exception', dict(d, hang=res.hang, exc=res.exc))
                continue
            try:
                doc = _json.loads(res.stdout)
            except ValueError:
                st.violation('json-labels:not-one-document', dict(d, stdout=res.stdout[:200]))
                continue
            seen = {}
            for el in doc if isinstance(doc, list) else []:
                pos = MT.block_host(str(el.get('target'))) if isinstance(el, dict) else None
                seen.setdefault(pos, []).append(el)
            for i, a in enumerate(archs):
                els = seen.get(i, [])
                if len(els) != 1:
                    st.violation('json-labels:target-has-%d-elements' % len(els), dict(d, target=i, archetype=a))
                    continue
                is_err = 'error' in els[0]
                if is_err != (a in MT.FAILING):
                    st.violation('json-labels:element-of-another-target-under-this-label', dict(d, target=i, archetype=a, element_keys=sorted(els[0])[:6]))
        st.sample({'label_schedules': list(archs), 'threads': threads, 'schedules': n}, cap=4)


def run(tier, seed):
    t0 = time.time()
    cs = cases(tier)
    st = par.pmap(work, cs)
    for wc in whole_audit_cases():
        check_whole_audit(wc, st)
    par.pmap(work_unanswered, unanswered_cases(), stats=st, chunk=4)
    me = multi_entry_cases()
    par.pmap(work_multi_entry, me if tier != 'quick' else me[::3], stats=st, chunk=8)
    check_direct(st)
    policy_label(st)
    ls = [(a, th) for a in (('CLEAN', 'REFUSED'), ('REFUSED', 'CLEAN'), ('TERR', 'UNRESOLVABLE'), ('UNRESOLVABLE', 'TERR'), ('GEX4096', 'CLOSEEARLY'), ('CLOSEEARLY', 'GEX4096'),
                                    ('CLEAN', 'REFUSED', 'TERR'), ('BADBLOCK', 'RSA2048', 'REFUSED'), ('DEBUGBADBLOCK', 'CLEAN'), ('CLEAN', 'DEBUGEMPTY', 'TERR')) for th in (2, 3)]
    par.pmap(work_label_schedules, ls, stats=st, chunk=1)
    # real resolver and real sockets for the forms that can be exercised on loopback without a name service
    vcases = []
    forms = [['-n', '--skip-rate-test', '-t', '1', '127.0.0.1:{port}'], ['-n', '--skip-rate-test', '-t', '1', '-p', '{port}', '127.0.0.1'],
             ['-n', '--skip-rate-test', '-t', '1', '-4', '127.0.0.1:{port}'], ['-n', '--skip-rate-test', '-t', '1', '-46', '-j', '127.0.0.1:{port}'],
             ['-n', '--skip-rate-test', '-t', '1', '-64', '127.0.0.1:{port}'], ['-n', '--skip-rate-test', '-t', '1', '-6', '127.0.0.1:{port}'],
             ['-n', '--skip-rate-test', '-t', '1', '-p', '22', '-j', '127.0.0.1:{port}'], ['-n', '--skip-rate-test', '-t', '1', '-p', '{port}', '-j', '127.0.0.1']]
    for f in forms:
        vcases.append({'label': ' '.join(f), 'opts': f, 'make': (lambda: P.Server())})
    validated = H.validate_traces(vcases, st)
    return evidence.finish(
        PID, tier, seed, st, t0,
        rule='hosts %s x ports {absent} + %s + invalid %s x documented spellings (bare, host:port, [v6], [v6]:port) x source {argv, targets file, '
             'targets file with blank/whitespace/CRLF lines and padded target} x -p %s x family options %s x resolver answers %s (%s), text and '
             'JSON; targets files with 2-3 entries (same host on different ports, different hosts on one port, with and without -p) where every '
             'entry must reach its own endpoint and carry its own label; direct calls of the target parser; policy-mode label' % (
                 [h for _k, h in HOSTS], PORTS_OK, PORTS_BAD, POPTS, list(FAMILY_OPTS), RESOLVER, 'full product' if tier != 'quick' else 'every 3rd combination'),
        assumptions=['an explicit port in the target wins over -p (the port option is the default)', 'servers exist at every address the resolver may return'],
        exhaustive=(tier != 'quick'), traces_validated=validated, extra={'cases': len(cs)})


def replay(path):
    v = json.load(open(path))
    d = v['detail']
    st = evidence.Stats()
    for case in cases('thorough'):
        if case[4] == d.get('target_text') and case[5] == d['source'] and case[6] == d['p'] and case[7] == d['family'] and case[8] == d['resolver']:
            check(case, st)
            break
    for x in st.violations:
        print('replayed:', x['sig'], json.dumps(x['detail'])[:500])
    return 1 if st.violations else 0
