"""C16 - identification strings are recognised, decomposed and sanitised correctly."""
import itertools
import json
import time

from mc import evidence, harness as H, par, peer as P, report, runner, vnet
from props.c10 import RawServer
from refmodels import banner as RB

PID = 'C16'
Banner = runner.M['banner'].Banner
Software = runner.M['software'].Software
SSH_Socket = runner.M['ssh_socket'].SSH_Socket
OutputBuffer = runner.M['outputbuffer'].OutputBuffer

PROTOS = ['1.5', '1.99', '2.0', '2.99']
TOKCH = ['a', '1', '.', '-', '_', '+']
COMMENTS = [None, 'c', 'c d']
# '?' is what the tool shows in place of a character outside printable ASCII: the clean twin of every dirty line is parsed right before and right after it
INJECT = ['?', '\x80', '\x00', '\t', '\x7f', 'é', '?']
TEMPLATES = [
    ('OpenSSH', 'OpenSSH_%s%s', ['3.9', '7.4', '8.9', '9.6', '10.0', '10.12'], ['', 'p1', 'p2-hpn14v', ' Debian-10']),
    ('Dropbear SSH', 'dropbear_%s%s', ['0.53', '2016.74', '2020.81', '2024.85'], ['', '_test1']),
    ('libssh', 'libssh-%s%s', ['0.5.3', '0.7.0', '0.9.6', '0.10.5'], ['', '-rc1', '_git']),
    ('libssh', 'libssh_%s%s', ['0.9.6', '0.10.5'], ['', '-rc1']),
    ('TinySSH', 'tinyssh_%s%s', ['20190101', 'noversion'], ['']),
    ('PuTTY', 'PuTTY_Release_%s%s', ['0.64', '0.80'], ['']),
    # (the version is what follows the product name up to its last digit; anything behind it - a patch level, a build tag - leaves both as they are)
    ('RomSShell', 'RomSShell_%s%s', ['4.62', '5.40'], ['', 'p1', '-beta', '_b7']),
    ('IOS/PIX sshd', 'Cisco-%s%s', ['1.25', '2.0'], ['', 'p1', '-beta', '_b7', '-K9']),
    ('iLO (Integrated Lights-Out) sshd', 'mpSSH_%s%s', ['0.2.1'], ['', 'p1', '-beta', '_b7']),
]


def tokens(n):
    out = []
    for k in range(1, n + 1):
        out += [''.join(t) for t in itertools.product(TOKCH, repeat=k)]
    return out


# software tokens / comments that themselves contain something shaped like an identification string (real: "Sun_SSH-1.5")
EMBEDDED = ['Sun_SSH-1.5', 'x-SSH-1.0', 'a_SSH-9.9', 'SSH_2.0', 'xSSH-1.99-y', 'SSH-2x5', 'SSH-1_5', 'SSH-2_0-OpenSSH_9.6']
EMBEDDED_COMMENTS = ['SSH-1.5 compat', 'was SSH-1.0', 'c SSH-9.9-x']


def grammar(tier):
    """yield banner lines (text, no line ending)"""
    toks = tokens(2 if tier == 'quick' else 3) + EMBEDDED
    for proto in PROTOS:
        for t in toks:
            for c in COMMENTS:
                if c is None:
                    yield 'SSH-%s-%s' % (proto, t)
                    yield 'SSH-%s-%s  ' % (proto, t)
                else:
                    for sep in (' ', '  ', '   '):
                        yield 'SSH-%s-%s%s%s' % (proto, t, sep, c)
                    yield 'SSH-%s-%s %s ' % (proto, t, c.replace(' ', '   '))
            for c in EMBEDDED_COMMENTS:
                yield 'SSH-%s-%s %s' % (proto, t, c)


def check_direct(line, st, fam):
    want = RB.parse(line)
    try:
        b = Banner.parse(line)
    except Exception as e:
        st.violation('parse-exception:%s' % type(e).__name__, {'line': line, 'what': str(e)})
        return
    got = None if b is None else {'protocol': tuple(b.protocol), 'software': b.software, 'comments': b.comments, 'valid_ascii': b.valid_ascii}
    st.evaluations += 1
    st.transitions += 1
    st.states.add(hash((line, repr(got))))
    if want is not None:
        st.nontrivial.add(hash(line))
    st.outcomes[(fam, got is not None)] += 1
    if want is None:
        return      # lines outside the grammar: nothing is required
    if got is None:
        st.violation('%s:not-accepted' % fam, {'line': line, 'expected': want})
        return
    for k in ('protocol', 'software', 'comments', 'valid_ascii'):
        if got[k] != want[k]:
            st.violation('%s:%s-differs' % (fam, k), {'line': line, 'got': got, 'expected': want})
            return
    # idempotence: parse(str(parse(x))) has the same parts
    b2 = Banner.parse(str(b))
    if b2 is None or (tuple(b2.protocol), b2.software, b2.comments) != (tuple(b.protocol), b.software, b.comments):
        st.violation('%s:render-parse-not-idempotent' % fam, {'line': line, 'rendered': str(b)})


def work_direct(chunk, st, tier):
    for proto in chunk:
        for line in grammar(tier):
            if not line.startswith('SSH-%s-' % proto):
                continue
            check_direct(line, st, 'grammar')
            # injected non-printable / non-ASCII characters at every position of short lines
            if len(line) <= 12:
                for ch in INJECT:
                    for pos in range(8, len(line) + 1):
                        check_direct(line[:pos] + ch + line[pos:], st, 'injected')
    st.sample({'protocol': chunk[0], 'example_lines': list(itertools.islice(grammar(tier), 3))}, cap=4)


def check_templates(st):
    for prod, fmt, vers, patches in TEMPLATES:
        for v in vers:
            for p in patches:
                for proto in ('2.0', '1.99'):
                    sw = fmt % (v, p)
                    line = 'SSH-%s-%s' % (proto, sw)
                    check_direct(line, st, 'template')
                    b = Banner.parse(line)
                    s = Software.parse(b) if b is not None else None
                    st.evaluations += 1
                    st.states.add(hash(('tmpl', line)))
                    st.nontrivial.add(hash(('tmpl', line)))
                    if s is None:
                        st.violation('template:product-not-recognised:%s' % prod, {'line': line})
                    elif s.product != prod or s.version != v:
                        st.violation('template:product-or-version-differs:%s' % prod, {'line': line, 'product': s.product, 'version': s.version, 'expected': [prod, v]})
    st.sample({'template': 'SSH-2.0-' + TEMPLATES[0][1] % ('8.9', 'p1')}, cap=14)


# ---- socket path: header lines, endings, segmentation at every offset
PRELINES = [[], ['hello'], ['xSSH-2.0-a'], [' SSH-2.0-a'], ['SSH-'], ['Welcome to host', 'second line'], ['', 'after blank'], ['SSH-2', 'SSH-two.0-x'],
            # lines that are one character away from an identification string: another character where the dot between major and minor belongs
            ['SSH-2_0-gateway'], ['SSH-2,0-relay ready'], ['SSH-2-0'], ['SSH-2:0-proxy'], ['SSH-200-x'], ['SSH-2 0-legacy'], ['SSH-2x0-a', 'SSH-1/5-b'],
            ['\x1b[1mSSH-2.0-gateway\x1b[0m ahead'], ['notice ' + 'w' * 280 + ' SSH-2.0-tail of a long line'], ['\x1b[32mWelcome\x1b[0m', 'plain line']]
SOCK_BANNERS = ['SSH-2.0-OpenSSH_9.6', 'SSH-2.0-longsoft_1.0 ' + 'comment ' * 40 + 'end', 'SSH-2.0-a.1 c d', 'SSH-1.99-dropbear_2020.81', 'SSH-2.0-a\x80b', 'SSH-1.99-a\x80b c', 'SSH-2.0-x  two  spaces ', 'SSH-2.0-Sun_SSH-1.5 was SSH-1.0']


SOCK_INJECT = [b'\x80', b'\x00', b'\x7f', b'\x1c', b'\x1d', b'\x1e', b'\x1f', b'\x01', b'\x0b', b'\t', b'\xc2\x85', b'\xc2\xa0', b'\xe2\x80\xa8',
               b'\xe3\x80\x80', b'\xc3\xa9', b'\xff\xfe', b'\x1b', b'\x1b[0m', b'\x1b[1;31m', b'\x1b[m']
ASCII_WS = (b'\t', b'\x0b', b'\x0c', b' ')


def sock_cases(tier):
    out = []
    # non-printable / non-ASCII bytes at every position of a short banner, through the real socket reader
    for base in (b'SSH-2.0-ab', b'SSH-2.0-ab c d'):
        for inj in SOCK_INJECT:
            for pos in range(8, len(base) + 1):
                if pos == len(base) and inj in ASCII_WS:
                    continue      # trailing ASCII blanks are line-end noise, not part of the string
                for eol in (b'\r\n', b'\n'):
                    raw = base[:pos] + inj + base[pos:] + eol
                    out.append(((), (base[:pos] + inj + base[pos:]).decode('latin1'), eol.decode(), raw, None))
    for pre in PRELINES:
        for bl in SOCK_BANNERS:
            for eol in ('\r\n', '\n'):
                data = ''.join(l + eol for l in pre) + bl + eol
                raw = data.encode('utf-8', 'surrogateescape') if '\x80' not in data else data.encode('latin1')
                out.append((tuple(pre), bl, eol, raw, None))
                out.append((tuple(pre), bl, eol, raw, 'abort'))      # peer aborts right after its banner: our own banner cannot be sent
                step = 1 if tier != 'quick' else 3
                for k in range(1, len(raw), step):
                    out.append((tuple(pre), bl, eol, raw, k))
                # the same cut with one receive call answered EAGAIN in between (nothing is lost, the rest follows)
                for k in range(1, len(raw), step * 2):
                    out.append((tuple(pre), bl, eol, raw, ('again', k)))
    # volume: many header lines before the banner (long legal notices, tarpits), total sizes on both sides of the read-chunk multiples and of
    # 16 KiB / 32 KiB / 64 KiB, delivered whole, in MSS-sized and odd segments, and with the final cut inside the banner line
    bl = 'SSH-2.0-OpenSSH_8.9p1 Ubuntu-3ubuntu0.10'
    for total in (2040, 2048, 2049, 4096, 8192, 16000, 16374, 16384, 16385, 16390, 20480, 32768, 32769, 40960, 65536, 65537):
        for eol in ('\r\n', '\n'):
            line = 'notice ' + 'x' * 70
            n = max(1, total // (len(line) + len(eol)))
            pre = [line] * n
            pad = total - n * (len(line) + len(eol))
            if pad > len(eol):
                pre.append('y' * (pad - len(eol)))
            raw = (''.join(l + eol for l in pre) + bl + eol).encode()
            for seg in (None, ('seg', 1460), ('seg', 1000), ('seg', 4096), ('seg', 2048), ('seg', 333), ('cut', 9), ('cut', 1), ('cut', len(bl) - 1)):
                if tier == 'quick' and total > 33000 and seg not in (None, ('cut', 9)):
                    continue
                out.append((('<%d header lines, %d bytes>' % (len(pre), total),), bl, eol, raw, seg))
    return out


def work_sock(chunk, st):
    for pre, bl, eol, raw, split in chunk:
        abort = split == 'abort'
        if abort:
            split = None
        if isinstance(split, tuple) and split[0] == 'seg':
            chunks = [raw[i:i + split[1]] for i in range(0, len(raw), split[1])]
        elif isinstance(split, tuple) and split[0] == 'again':
            chunks = [raw[:split[1]], 'AGAIN', raw[split[1]:]]
        elif isinstance(split, tuple) and split[0] == 'cut':         # everything up to k bytes into the banner line, then the rest
            k = raw.rindex(b'SSH-2.0-') + split[1]
            chunks = [raw[:k], raw[k:]]
        else:
            chunks = [raw] if split is None else [raw[:split], raw[split:]]
        srv = RawServer(chunks)
        srv.then_abort = abort
        w = H.world_for(srv)
        vnet.set_world(w)
        s = SSH_Socket(OutputBuffer(), H.HOST, 22, timeout=1)
        s.connect()
        b, header, err = s.get_banner()
        s.close()
        lines = [RB.decode_line(x) for x in raw.replace(b'\r\n', b'\n').split(b'\n')[:-1]]
        want, wheader = RB.scan(lines)
        st.execution(w, outcome=('sock', b is not None, len(header), abort), root=('sock', pre, bl, eol, split, abort), nontrivial=('sock', pre, bl, eol, split, abort))
        tag = 'send-fails' if abort else 'retry-between-segments' if isinstance(split, tuple) and split[0] == 'again' else 'volume' if isinstance(split, tuple) or len(raw) > 2000 else 'split' if split is not None else 'whole'
        if b is None:
            st.violation('socket:%s:banner-not-found' % tag, {'pre': pre, 'banner': bl, 'eol': eol, 'split': split, 'err': err, 'header': header})
            continue
        got = {'protocol': tuple(b.protocol), 'software': b.software, 'comments': b.comments, 'valid_ascii': b.valid_ascii}
        if got != want:
            st.violation('socket:%s:banner-parts-differ' % tag, {'pre': pre, 'banner': bl, 'split': split, 'got': got, 'expected': want})
        if [h.rstrip() for h in header] != [RB.printable(h).rstrip() if False else h.rstrip() for h in wheader]:
            st.violation('socket:%s:header-differs' % tag, {'pre': pre, 'banner': bl, 'split': split, 'got': header, 'expected': wheader})


def work_cli(chunk, st):
    for pre, bl, eol in chunk:
        for fmt in ('text', 'json', 'client-text', 'client-json'):
            raw_banner = bl.encode('latin1') if '\x80' in bl else bl.encode()
            if fmt.startswith('client'):
                cli = P.Client(banner=raw_banner, pre_banner=[p.encode() for p in pre], line_end=eol.encode())
                res = H.client_audit(cli, opts=['-n'] + (['-j'] if fmt == 'client-json' else []))
                fmt = fmt[7:]
            else:
                srv = P.Server(banner=raw_banner, pre_banner=[p.encode() for p in pre], line_end=eol.encode())
                res = H.audit(srv, opts=['-n', '--skip-rate-test'] + (['-j'] if fmt == 'json' else []))
            want, wheader = RB.scan([RB.decode_line(p.encode()) for p in pre] + [RB.decode_line(bl.encode('latin1') if '\x80' in bl else bl.encode())])
            st.execution(res.world, outcome=('cli', res.status, fmt), root=('cli', pre, bl, eol, fmt), nontrivial=('cli', pre, bl, eol, fmt))
            if res.status not in (0, 2, 3):
                st.violation('cli:audit-failed', {'pre': pre, 'banner': bl, 'status': res.status, 'stdout': res.stdout[-300:]})
                continue
            if fmt == 'text':
                rep = report.TextReport(res.stdout)
                if rep.gen.get('banner') != RB.render(want):
                    st.violation('cli:text-banner-differs', {'pre': pre, 'banner': bl, 'shown': rep.gen.get('banner'), 'expected': RB.render(want)})
                hdr = rep.gen.get('header')
                wh = '\n'.join(h.rstrip() for h in wheader) if wheader else None
                if wh is not None:
                    wh = report.strip_ansi(wh)      # the report parser removes colour sequences from every line it reads, header text included
                if (hdr or None) != (wh or None):
                    st.violation('cli:text-header-differs', {'pre': pre, 'banner': bl, 'shown': hdr, 'expected': wh})
                flagged = any('non-printable' in v for k, v in rep.gen_all if k.startswith('banner contains')) or '(gen) banner contains non-printable ASCII' in res.stdout
                if flagged != (not want['valid_ascii']):
                    st.violation('cli:non-conforming-flag', {'banner': bl, 'flagged': flagged})
            else:
                try:
                    doc = json.loads(res.stdout)
                except ValueError:
                    st.violation('cli:json-unparseable', {'banner': bl})
                    continue
                jb = doc.get('banner', {})
                exp = {'raw': RB.render(want), 'protocol': '%d.%d' % want['protocol'], 'software': want['software'], 'comments': want['comments']}
                if jb != exp:
                    st.violation('cli:json-banner-differs', {'banner': bl, 'got': jb, 'expected': exp})


def work_twins(chunk, st):
    """two targets of ONE invocation whose identification strings differ only in that one has a character outside printable ASCII where
    the other has a literal '?' (what the tool shows instead): each is reported as when audited alone, in both orders"""
    for clean, dirty, order, fmt in chunk:
        pair = [clean, dirty] if order == 0 else [dirty, clean]
        servers = [P.Server(banner=b.encode('latin1')) for b in pair]
        res, outs = H.audit_sequence(servers, opts=['-n', '--skip-rate-test'] + (['-j'] if fmt == 'json' else []))
        root = ('twins', clean, dirty, order, fmt)
        st.execution(res.world, outcome=('twins', res.status, fmt), root=root, nontrivial=root)
        if outs is None or len(outs) != 2:
            st.violation('twins:output-shape', {'banners': pair, 'stdout': res.stdout[-200:]})
            continue
        for bl, o in zip(pair, outs):
            want, _h = RB.scan([RB.decode_line(bl.encode('latin1'))])
            if fmt == 'text':
                rep = report.TextReport(o)
                flagged = any('non-printable' in v for k, v in rep.gen_all if k.startswith('banner contains')) or '(gen) banner contains non-printable ASCII' in o
                if flagged != (not want['valid_ascii']):
                    st.violation('twins:non-conforming-flag-depends-on-earlier-targets', {'banners_in_run': pair, 'banner': bl, 'flagged': flagged})
                if rep.gen.get('banner') != RB.render(want):
                    st.violation('twins:text-banner-differs', {'banners_in_run': pair, 'banner': bl, 'shown': rep.gen.get('banner')})
            else:
                jb = o.get('banner', {}) if isinstance(o, dict) else {}
                exp = {'raw': RB.render(want), 'protocol': '%d.%d' % want['protocol'], 'software': want['software'], 'comments': want['comments']}
                if jb != exp:
                    st.violation('twins:json-banner-differs', {'banners_in_run': pair, 'banner': bl, 'got': jb, 'expected': exp})
    st.sample({'twin_banners': [chunk[0][0], chunk[0][1]]}, cap=3)


# ---- product and version are read from the software field: an identification string of every product family the tool knows, with a
# character outside printable ASCII in its *comment* (the software field intact), is attributed to the same product and version -
# and gets the same recommendations - as the same string with a literal '?' in that place; both roles
def product_nonconforming_tasks():
    out = []
    for prod, fmt, vers, patches in TEMPLATES:
        for v in (vers[0], vers[-1]):
            sw = fmt % (v, patches[0] if ' ' not in patches[0] else '')
            for ch in (b'\x80', b'\xc3\xa9', b'\x07', b'\x1b[0m', b'\xff\xfe', b'\x7f'):
                for where in ('comment-end', 'comment-middle'):
                    for role in ('server', 'client'):
                        out.append((prod, sw, ch, where, role))
    return out


def work_product_nonconforming(chunk, st):
    lists = dict(kex=['curve25519-sha256', 'diffie-hellman-group1-sha1'], key=['ssh-ed25519', 'ssh-rsa'], enc=['aes256-ctr', '3des-cbc'], mac=['hmac-sha2-256', 'hmac-md5'])

    def run1(banner, role):
        if role == 'server':
            return H.audit(P.Server(banner=banner, host_keys=P.standard_host_keys(lists['key']), **lists), opts=['-n', '--skip-rate-test'])
        return H.client_audit(P.Client(banner=banner, **lists), opts=['-n'])
    for prod, sw, ch, where, role in chunk:
        def line(x):
            return b'SSH-2.0-' + sw.encode() + (b' build' + x if where == 'comment-end' else b' bu' + x + b'ild 7')
        clean, dirty = run1(line(b'?' * 1), role), run1(line(ch), role)
        root = ('product-nonconforming', sw, ch, where, role)
        st.execution(dirty.world, outcome=('product-nc', dirty.status), root=root, nontrivial=root)
        d = {'software_field': sw, 'injected': repr(ch), 'where': where, 'role': role, 'status': dirty.status}
        if dirty.status not in (0, 2, 3) or clean.status not in (0, 2, 3):
            st.violation('product:audit-failed', dict(d, stdout=dirty.stdout[-200:]))
            continue
        rc, rd = report.TextReport(clean.stdout), report.TextReport(dirty.stdout)
        if rc.gen.get('software') is None:
            st.violation('product:not-recognised:%s' % prod, dict(d, banner='clean'))
        elif rd.gen.get('software') != rc.gen.get('software'):
            st.violation('product:attribution-depends-on-comment-bytes:%s' % prod, dict(d, shown=rd.gen.get('software'), with_question_mark=rc.gen.get('software')))
        elif sorted(rd.rec) != sorted(rc.rec) or dirty.status != clean.status:
            st.violation('product:recommendations-depend-on-comment-bytes:%s' % prod, dict(d, recs=len(rd.rec), with_question_mark=len(rc.rec)))
    st.sample({'product_nonconforming': [chunk[0][1], repr(chunk[0][2]), chunk[0][3]]}, cap=3)


# ---- identification strings that repeat the "SSH-<major>.<minor>-" prefix (old OpenSSH / Dropbear builds behind a proxy did): the
# protocol reported is the first prefix's whenever that is also the lowest one listed (where the RFC's reading of the line and the
# tool's "lowest version announced" agree), the software is what follows the prefixes; directly and through a server audit
def multi_prefix_check(st):
    import itertools as _it
    vers = [(1, 3), (1, 5), (1, 99), (2, 0)]
    n = 0
    for k in (2, 3):
        for seq in _it.product(vers, repeat=k):
            if seq[0] != min(seq):
                continue
            for sw, cm in (('OpenSSH_3.9p1', None), ('x', 'c d')):
                line = ''.join('SSH-%d.%d-' % v for v in seq) + sw + ((' ' + cm) if cm else '')
                b = Banner.parse(line)
                n += 1
                st.evaluations += 1
                st.states.add(hash(('multi-prefix', line)))
                st.nontrivial.add(hash(('multi-prefix', line)))
                if b is None:
                    st.violation('multi-prefix:not-recognised', {'line': line})
                elif tuple(b.protocol) != seq[0] or b.software != sw or (b.comments or None) != cm:
                    st.violation('multi-prefix:parts-differ', {'line': line, 'protocol': list(b.protocol), 'software': b.software, 'comments': b.comments, 'expected_protocol': list(seq[0])})
                if seq[0][0] == 2 or seq[0] == (1, 99):
                    res = H.audit(P.Server(banner=line.encode()), opts=['-n', '-j', '--skip-rate-test'])
                    st.execution(res.world, outcome=('multi-prefix', res.status), root=('multi-prefix', line), nontrivial=('multi-prefix', line))
                    try:
                        jb = json.loads(res.stdout).get('banner', {})
                    except ValueError:
                        jb = {}
                    if jb.get('protocol') != '%d.%d' % seq[0] or jb.get('software') != sw:
                        st.violation('multi-prefix:cli-json-differs', {'line': line, 'got': jb, 'status': res.status})
    st.sample({'multi_prefix_lines': n, 'example': 'SSH-1.5-SSH-1.99-OpenSSH_3.9p1'}, cap=1)


def twin_tasks():
    out = []
    for base, pos in (('SSH-2.0-OpenSSH_9.6', 12), ('SSH-2.0-build7 note', 13), ('SSH-1.99-dropbear_2020.81', 20), ('SSH-2.0-x c', 10)):
        for ch in ('\x07', '\x80', '\x7f', '\xe9'):
            for order in (0, 1):
                for fmt in ('text', 'json'):
                    out.append((base[:pos] + '?' + base[pos:], base[:pos] + ch + base[pos:], order, fmt))
    return out


def run(tier, seed):
    t0 = time.time()
    st = evidence.Stats()
    par.pmap(work_direct, PROTOS, extra=(tier,), stats=st, chunk=1)
    check_templates(st)
    par.pmap(work_sock, sock_cases(tier), stats=st)
    cli = [(tuple(pre), bl, eol) for pre in PRELINES for bl in SOCK_BANNERS for eol in ('\r\n', '\n')]
    par.pmap(work_cli, cli, stats=st)
    par.pmap(work_twins, twin_tasks(), stats=st, chunk=4)
    par.pmap(work_product_nonconforming, product_nonconforming_tasks(), stats=st, chunk=8)
    multi_prefix_check(st)
    from props import delivery as _DL
    par.pmap(_DL.work, _DL.tasks(tier), extra=(('banner',),), stats=st, chunk=12)
    vcases = []
    for pre, bl, eol in H.pick(cli, seed, 20 if tier == 'quick' else 80):
        vcases.append({'label': 'banner %r %r' % (pre, bl), 'opts': ['-n'] + (['-j'] if len(vcases) % 2 else []),
                       'make': (lambda pre=pre, bl=bl, eol=eol: P.Server(banner=bl.encode('latin1') if '\x80' in bl else bl.encode(), pre_banner=[p.encode() for p in pre], line_end=eol.encode()))})
    # split delivery over real TCP as well
    for pre, bl, eol in H.pick(cli, seed + 1, 6 if tier == 'quick' else 30):
        vcases.append({'label': 'banner-seg %r %r' % (pre, bl), 'opts': ['-n'], 'segment': 3,
                       'make': (lambda pre=pre, bl=bl, eol=eol: P.Server(banner=bl.encode('latin1') if '\x80' in bl else bl.encode(), pre_banner=[p.encode() for p in pre], line_end=eol.encode()))})
    validated = H.validate_traces(vcases, st)
    return evidence.finish(
        PID, tier, seed, st, t0,
        rule='banner grammar to a bound: protocol %s x software tokens of length 1..%d over %s x comments %s with 1-3 space separators and trailing '
             'spaces; non-printable/non-ASCII characters %r injected at every position of short lines; product templates x versions x patches; '
             'socket path: %d header-line prefixes (incl. near-misses) x %d banners x CRLF/LF delivered whole and split at every%s offset; CLI text '
             'and JSON for every prefix x banner x ending; pairs of targets in one invocation whose banners differ only in (non-printable character | literal "?") at one position, both orders; every product template with a non-printable character in its comment: same product, version and recommendations as with a literal "?"; lines repeating the SSH-x.y- prefix two or three times (first prefix the lowest): protocol, software, comments; non-trivial = lines inside the grammar' % (
                 PROTOS, 2 if tier == 'quick' else 3, TOKCH, COMMENTS, INJECT, len(PRELINES), len(SOCK_BANNERS), ' 3rd' if tier == 'quick' else ''),
        assumptions=['reference parser refmodels/banner.py written from RFC 4253 section 4.2', 'comments compared modulo collapsing of runs of blanks'],
        exhaustive=True, traces_validated=validated)


def replay(path):
    v = json.load(open(path))
    d = v['detail']
    st = evidence.Stats()
    if 'line' in d:
        check_direct(d['line'], st, 'replay')
    else:
        print('socket/CLI case:', d)
        return 1
    for x in st.violations:
        print('replayed:', x['sig'], x['detail'])
    return 1 if st.violations else 0
