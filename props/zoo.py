"""A shared collection of cooperative peers drawn from every check's own peer builders.

Each check explores its own dimensions exhaustively but holds the others fixed; the dimension a property-breaking change needs is often
one that *another* check varies (direction-asymmetric lists, certificates, group exchange, vendor banners, SSH-1, empty lists ...).
The zoo lets a check apply its per-run oracle to all of those peers as well.  Entries are plain dicts:
  name, make() -> fresh peer.Server, lists {kex,key,enc,mac} = the (server-to-client) names the report must rate, banner, ssh1 (bool)
"""
import itertools

from mc import harness as H, peer as P, wire

_cache = {}


def _entry(name, make):
    s = make()
    ssh1 = s.ssh1 is not None and s.banner.startswith(b'SSH-1.')
    lists = None if ssh1 else {'kex': list(s.kex), 'key': list(s.key), 'enc': list(s.enc), 'mac': list(s.mac)}
    return {'name': name, 'make': make, 'lists': lists, 'banner': s.banner, 'ssh1': ssh1, 'versions_differ': bool(getattr(s, 'versions_differ', False)),
            'ngex': len(set(k for k in s.kex if k in P.GEX_NAMES)) if not ssh1 else 0}


def servers(tier='quick'):
    if tier in _cache:
        return _cache[tier]
    from props import c05, c11, c12, c13, c15, multitarget as MT
    out = []
    # C15: severity mixes, unknown names, gss, certificates, compression, header lines, non-ASCII banner, asymmetric lists
    for pname, spec in sorted(c15.peers('thorough' if tier != 'quick' else 'quick').items()):
        if spec.get('client_role') or spec.get('faults'):
            continue
        out.append(_entry('c15:' + pname, (lambda spec=spec: c15.make_server(spec))))
    # C05: list variants with odd characters, empty lists, certificates with every CA type, one and two GEX algorithms
    ps = c05.peers('quick')
    for i, spec in enumerate(ps[::(7 if tier == 'quick' else 2)] + [s for s in ps if s['kn'].startswith('empty-')] + [s for s in ps if isinstance(s.get('gex'), dict)][:4]):
        out.append(_entry('c05:%d:%s' % (i, spec['kn']), (lambda spec=spec: c05.make_server(spec))))
    # C12: moduli policies
    subs = [(1024,), (2048,), (1024, 4096), (2048, 3072), (3072,), (4096, 8192), (8192,), ()]
    for sub, style, offer, banner in itertools.product(subs, (P.STRICT, P.ROUNDUP, P.OPENSSH), ('both', 'sha256'), ('openssh', 'other')):
        if tier == 'quick' and (len(out) % 3):
            pass
        out.append(_entry('c12:%s:%s:%s:%s' % (sub, style, offer, banner), (lambda a=(sub, style, offer, banner): c12.make_server(*a))))
    # C13: whole database as one peer, halves, vendor banners
    for kind in c13.PEER_KINDS:
        for banner in (b'SSH-2.0-OpenSSH_7.4', b'SSH-2.0-dropbear_2019.78', b'SSH-2.0-libssh-0.9.6', b'SSH-2.0-OpenSSH_9.6p1 Ubuntu-3ubuntu13', b'SSH-2.0-FrobSSH_1.0'):
            if tier == 'quick' and kind in ('even', 'odd') and banner != b'SSH-2.0-OpenSSH_7.4':
                continue
            out.append(_entry('c13:%s:%s' % (kind, banner.decode()), (lambda kind=kind, banner=banner: c13.make_server(kind, banner)[0])))
    # C11: host keys of every type and size class, certificates with every CA kind, several keys at once
    for bits in (1024, 2047, 2048, 3071, 3072, 4096):
        for names in (['ssh-rsa'], ['rsa-sha2-512', 'rsa-sha2-256', 'ssh-rsa']):
            out.append(_entry('c11:rsa%d:%d' % (bits, len(names)), (lambda bits=bits, names=names: P.Server(
                kex=['curve25519-sha256'], key=names, enc=['aes256-ctr'], mac=['hmac-sha2-256'], host_keys=P.standard_host_keys(names, rsa_bits=bits)))))
    for ca, ca_bits in (('rsa', 1024), ('rsa', 4096), ('ed25519', 256), (256, 256), (384, 384)):
        for hk in (['ssh-rsa-cert-v01@openssh.com'], ['ssh-ed25519-cert-v01@openssh.com', 'ssh-ed25519'], ['rsa-sha2-512-cert-v01@openssh.com', 'rsa-sha2-512']):
            out.append(_entry('c11:cert:%s:%s:%s' % (ca, ca_bits, hk[0]), (lambda ca=ca, ca_bits=ca_bits, hk=hk: P.Server(
                kex=['curve25519-sha256', 'diffie-hellman-group14-sha256'], key=hk, enc=['aes256-ctr'], mac=['hmac-sha2-256'],
                host_keys=P.standard_host_keys(hk, rsa_bits=3072, ca=ca, ca_bits=ca_bits if isinstance(ca, str) else 3072)))))
    for names in (['ecdsa-sha2-nistp256', 'ecdsa-sha2-nistp384', 'ecdsa-sha2-nistp521'], ['ssh-dss', 'ssh-ed25519'], ['ssh-ed448', 'ssh-ed25519']):
        out.append(_entry('c11:%s' % '+'.join(names), (lambda names=names: P.Server(
            kex=['curve25519-sha256'], key=names, enc=['aes256-ctr'], mac=['hmac-sha2-256'], host_keys=P.standard_host_keys(names)))))
    # multi-target archetypes (healthy ones), incl. SSH-1
    for a in sorted(MT.HEALTHY):
        out.append(_entry('mt:' + a, (lambda a=a: MT.HEALTHY[a]('zoo'))))
    # built-in policies: a peer synthesised from every third policy
    from mc import runner
    BP = runner.M['builtin_policies'].BUILTIN_POLICIES
    for pname in sorted(n for n in BP if BP[n]['server_policy'])[::(5 if tier == 'quick' else 2)]:
        def mk(p=BP[pname]):
            keys = list(p['host_keys'] or [])
            sizes = p.get('hostkey_sizes') or {}
            hk = {}
            for k in keys:
                sz = (sizes.get(k) or {}).get('hostkey_size')
                if 'rsa' in k and '-cert-' not in k:
                    hk[k] = wire.rsa_blob_tree(sz or 4096)
                elif k == 'ssh-ed25519':
                    hk[k] = wire.ed25519_blob_tree()
            dh = p.get('dh_modulus_sizes') or {}
            gex = P.GexPolicy(sorted(set(dh.values()))[:1], P.STRICT) if dh else None
            return P.Server(host_keys=hk, gex=gex, kex=p['kex'], key=keys, enc=p['ciphers'], mac=p['macs'], banner=b'SSH-2.0-OpenSSH_9.6')
        out.append(_entry('policy:' + pname, mk))
    seen, uniq = set(), []
    for e in out:
        if e['name'] not in seen:
            seen.add(e['name'])
            uniq.append(e)
    _cache[tier] = uniq
    return uniq


def names(tier='quick'):
    return [e['name'] for e in servers(tier)]


def get(name):
    for tier in ('quick', 'thorough'):
        for e in servers(tier):
            if e['name'] == name:
                return e
    raise KeyError(name)


def audit(entry, opts):
    srv = entry['make']()
    res = H.audit(srv, opts=list(opts) + ['--skip-rate-test'])
    res.peer = srv
    return res
