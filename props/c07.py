"""C07 - each target's result is independent of the other targets in the run.

Histories: all ordered pairs (quick) / triples (thorough) of healthy archetypes as -T files, x worker threads, x {text, -j, -P}.
Schedules: gate scheduler on the targets' connection events, preemption-bounded DFS.
Oracle: differential - each block equals what a fresh single-target invocation prints for that target.
"""
import itertools
import json
import time

from mc import evidence, harness as H, par, report, sched
from props import multitarget as MT

PID = 'C07'
ARCHS = list(MT.HEALTHY)

POLICY_TEXT = '''name = "C07 policy"
version = 1
host keys = ssh-ed25519
key exchanges = sntrup761x25519-sha512@openssh.com
ciphers = aes256-gcm@openssh.com
macs = hmac-sha2-256-etm@openssh.com
'''


def policy_path():
    p = H.tmp_path('c07-policy.txt')
    with open(p, 'w') as f:
        f.write(POLICY_TEXT)
    return p


def check_run(archs, threads, fmt, policy, res, s):
    """Compare each block with the fresh single-target run.  -> [(sig, detail)]"""
    probs = []
    n = len(archs)
    pol = policy_path() if policy else None
    if res.hang or res.exc or res.status not in (0, 1, 2, 3):
        tail = (res.stdout + res.stderr)[-300:]
        return [('run-crashed:status-%s' % res.status, tail)]
    if fmt == 'json':
        try:
            doc = json.loads(res.stdout)
        except ValueError as e:
            return [('json-unparseable', '%s: %r' % (e, res.stdout[:200]))]
        if not isinstance(doc, list) or len(doc) != n:
            return [('json-wrong-length', 'got %s elements for %d targets' % (len(doc) if isinstance(doc, list) else type(doc), n))]
        for el in doc:
            tgt = el.get('target') or ('%s:%s' % (el.get('host'), el.get('port')) if 'host' in el else None)
            pos = MT.block_host(str(tgt))
            if pos is None:
                probs.append(('json-element-unlabelled', str(el)[:200]))
                continue
            ref = MT.run_single(archs[pos], pos, 'json', pol)
            try:
                refdoc = json.loads(ref.stdout)
                refdoc = refdoc[0] if isinstance(refdoc, list) else refdoc
            except ValueError:
                refdoc = None
            if el != refdoc:
                probs.append(_diff_sig(archs, pos, s, 'json', _json_diff(el, refdoc)))
        return probs
    blocks = MT.split_text(res.stdout)
    if len(blocks) != n:
        return [('wrong-block-count', 'got %d blocks for %d targets' % (len(blocks), n))]
    seen = set()
    labelled = set(p for p in (MT.block_host(b) for b in blocks) if p is not None)
    for b in blocks:
        pos = MT.block_host(b)
        if pos is None or pos in seen:
            missing = sorted(set(archs[i] for i in range(n) if i not in labelled))
            probs.append(('block-unlabelled-or-duplicate:%s' % '+'.join(missing), b[:200]))
            continue
        seen.add(pos)
        ref = MT.run_single(archs[pos], pos, 'text', pol)
        refb = MT.split_text(ref.stdout)[0]
        if b != refb:
            probs.append(_diff_sig(archs, pos, s, 'text', _text_diff(b, refb)))
        else:
            # second reference: plain single-target invocation (no -T); only the target line may differ
            ref2 = MT.run_single(archs[pos], pos, 'text', pol, via_targets_file=False)
            b2 = MT.norm_block('\n'.join(l for l in b.split('\n') if not l.startswith('(gen) target: ')))
            r2 = MT.norm_block(ref2.stdout)
            if b2 != r2:
                probs.append(('differs-from-plain-single-run:%s' % archs[pos], _text_diff(b2, r2)))
    return probs


def _diff_sig(archs, pos, s, fmt, diff):
    # who ran before this target on the same pool thread?
    prev = None
    for ident, items in s.thread_items.items():
        labs = [l[0] for l in items]
        if pos in labs:
            i = labs.index(pos)
            prev = archs[labs[i - 1]] if i > 0 else None
    return ('result-differs:%s-after-%s:%s' % (archs[pos], prev, fmt), {'diff': diff, 'thread_items': [[l[0] for l in it] for it in s.thread_items.values()]})


def _text_diff(a, b):
    la, lb = a.split('\n'), b.split('\n')
    only_multi = [l for l in la if l not in lb][:6]
    only_single = [l for l in lb if l not in la][:6]
    return {'only_in_multi_target_run': only_multi, 'only_in_single_run': only_single}


def _json_diff(a, b):
    if not isinstance(a, dict) or not isinstance(b, dict):
        return {'multi': str(a)[:300], 'single': str(b)[:300]}
    out = {}
    for k in sorted(set(a) | set(b)):
        if a.get(k) != b.get(k):
            out[k] = {'multi': str(a.get(k))[:300], 'single': str(b.get(k))[:300]}
    return out


def explore_case(case, st):
    archs, threads, fmt, policy, bound, gates, max_execs = case[:7]
    world_kw = case[7] if len(case) > 7 else None        # e.g. {'segment': 20}: the peers' bytes arrive in small TCP segments
    pol = policy_path() if policy else None

    def once(prefix):
        res, s = MT.run_multi(list(archs), threads, fmt, prefix, gates, pol, world_kw=world_kw)
        return (res, s), s.points
    nsched = 0
    outcomes = set()
    for prefix, (res, s), points in sched.explore_schedules(once, bound, max_execs):
        nsched += 1
        order = tuple(l[0] for l in s.completion_order)
        assign = tuple(sorted(tuple(l[0] for l in it) for it in s.thread_items.values()))
        outcomes.add((order, assign))
        st.execution(res.world, outcome=('order', len(archs), order == tuple(range(len(archs))), len(assign)),
                     root=(case[:4], tuple(prefix)), nontrivial=(archs, threads, fmt, policy, order, assign))
        st.extra['schedules'] += 1
        st.extra['schedule_points'] += len(points)
        for sig, detail in check_run(list(archs), threads, fmt, policy, res, s):
            st.violation(sig, {'archs': list(archs), 'threads': threads, 'fmt': fmt, 'policy': policy, 'schedule': list(prefix),
                               'gates': list(gates), 'world_kw': world_kw, 'what': detail})
    if max_execs is not None and nsched >= max_execs:
        st.caps.append('schedule cap %d hit for %s' % (max_execs, list(archs)))
    st.extra['distinct_thread_assignments'] += len(outcomes)
    if nsched > 1 and len(st.samples) < 12:
        st.sample({'targets': list(archs), 'threads': threads, 'format': fmt, 'policy': policy, 'schedules_explored': nsched,
                   'distinct_completion_orders_and_thread_assignments': len(outcomes)})


def work(chunk, st):
    for case in chunk:
        explore_case(case, st)


# ---- line-level interleavings of the rating-table life cycle (get_db / in-place edit / read / thread_exit)
def work_lines(chunk, st):
    from mc import linesched, runner
    for dbname, nthreads, bound in chunk:
        DB = runner.M[dbname].SSH2_KexDB if dbname == 'ssh2_kexdb' else runner.M[dbname].SSH1_KexDB
        cat, alg = ('enc', 'aes256-ctr') if dbname == 'ssh2_kexdb' else ('enc', '3des')

        def make():
            runner.reset_state()

            def body(i):
                def f():
                    db = DB.get_db()
                    db[cat][alg].append(['edit-by-%d' % i])       # what a scan does: annotate its private copy in place
                    seen = DB.get_db()[cat][alg][-1]
                    again = DB.get_db() is db
                    DB.thread_exit()
                    return seen, again
                return f
            return [body(i) for i in range(nthreads)]
        master_before = repr(DB.MASTER_DB)

        def check(results, errors, trace):
            probs = []
            for i, (r, e) in enumerate(zip(results, errors)):
                if e is not None:
                    probs.append('thread %d raised %r' % (i, e))
                elif r != (['edit-by-%d' % i], True):
                    probs.append('thread %d read %r instead of its own edit' % (i, r))
            if DB.DB_PER_THREAD:
                probs.append('per-thread copies left behind: %d' % len(DB.DB_PER_THREAD))
            if repr(DB.MASTER_DB) != master_before:
                probs.append('master table modified')
            return probs
        n = 0
        for prefix, probs, points, trace in linesched.explore(make, (dbname + '.py',), bound, check):
            n += 1
            st.evaluations += 1
            st.transitions += len(points)
            hv = hash(('lines', dbname, nthreads))
            for (tid, fn, ln) in trace:
                hv = hash((hv, tid, fn, ln))
                st.states.add(hv)
            st.nontrivial.add(hash(('lines', dbname, nthreads, tuple(prefix))))
            st.outcomes[('line-level', dbname, nthreads, bool(probs))] += 1
            for p in probs:
                import re as _re
                st.violation('line-level:%s:%s' % (dbname, _re.sub(r'\d{5,}', 'N', p.split(' ', 2)[2][:50] if p.startswith('thread') else p[:40])),
                             {'table': dbname, 'threads': nthreads, 'schedule': list(prefix), 'what': p, 'trace_tail': [list(t) for t in trace[-12:]]})
        st.extra['line_level_schedules'] += n
        st.sample({'line_level': dbname, 'threads': nthreads, 'preemption_bound': bound, 'schedules': n}, cap=16)


def cases(tier):
    out = []
    conn = ('connect',)
    fine = ('resolve', 'connect', 'recv')
    if tier == 'quick':
        for a, b in itertools.product(ARCHS, ARCHS):
            out.append(((a, b), 1, 'text', False, 0, conn, None))
            out.append(((a, b), 2, 'text', False, 1, conn, None))
        for a, b in itertools.product(ARCHS, ARCHS):
            out.append(((a, b), 1, 'json', False, 0, conn, None))
        for a, b in itertools.product(['CLEAN', 'TERR', 'RSA1024', 'GEX1024'], repeat=2):
            out.append(((a, b), 1, 'text', True, 0, conn, None))
            out.append(((a, b), 1, 'json', True, 0, conn, None))
        # three targets on two threads: which thread picks up the third depends on the schedule
        short = ['TERR', 'MARK', 'RSA1024', 'RSA4096', 'CLEAN', 'SSH1']
        for t in itertools.product(short, repeat=3):
            if len(set(t)) >= 2:
                out.append((t, 2, 'text', False, 1, conn, None))
        # fine-grained gates (every resolve/connect/recv) for short targets
        for a, b in itertools.product(['TERR', 'MARK', 'CLEAN'], repeat=2):
            out.append(((a, b), 2, 'text', False, 2, fine, None))
        # a target that fails - at any stage: unreachable, before or after its banner, in its probe phase - next to a healthy one: both are
        # reported as when audited alone
        for f in sorted(MT.FAILING):
            for h in ('CLEAN', 'RSA1024'):
                for order in ((f, h), (h, f)):
                    if f.startswith('PROBE'):
                        out.append((order, 1, 'text', False, 0, conn, None))      # (the text error block of the other archetypes need not name its target)
                    else:
                        out.append((order, 1, 'json', False, 0, conn, None))
                    out.append((order, 2, 'json', False, 1, conn, None))
        # a target that starts refusing connections in the middle of its modulus probes, before / after targets whose moduli are still to be probed
        for order in (('GEXTHROTTLE', 'GEX1024'), ('GEXTHROTTLE', 'GEX4096'), ('GEXTHROTTLE', 'GEXFALLBACK'), ('GEX1024', 'GEXTHROTTLE'), ('GEXTHROTTLE', 'GEXTHROTTLE', 'GEX1024')):
            for fmt in ('text', 'json'):
                out.append((order, 1, fmt, False, 0, conn, None))
                out.append((order, 2, fmt, False, 1, conn, None))
        # small TCP segments, so that a single packet takes several receives, and a switch between any two of them
        for a, b in (('SSH1', 'SSH1'), ('SSH1', 'TERR'), ('TERR', 'SSH1'), ('CLEAN', 'RSA1024')):
            for seg in (16, 40):
                out.append(((a, b), 2, 'text', False, 1, ('recv',), 1500, {'segment': seg}))
        # a switch at any one receive of either target (objects shared between two audits in flight show here)
        for a, b in itertools.product(ARCHS, ARCHS):
            out.append(((a, b), 2, 'text' if (ARCHS.index(a) + ARCHS.index(b)) % 2 else 'json', False, 1, ('recv',), 400))
    else:
        for a, b in itertools.product(ARCHS, ARCHS):
            for fmt in ('text', 'json'):
                out.append(((a, b), 1, fmt, False, 0, conn, None))
                out.append(((a, b), 2, fmt, False, 2, conn, None))
                out.append(((a, b), 3, fmt, False, 1, conn, None))
        for a, b in itertools.product(['CLEAN', 'TERR', 'RSA1024', 'GEX1024', 'MARK', 'UNKNOWN'], repeat=2):
            for fmt in ('text', 'json'):
                out.append(((a, b), 1, fmt, True, 0, conn, None))
                out.append(((a, b), 2, fmt, True, 2, conn, None))
        for t in itertools.product(ARCHS, repeat=3):
            out.append((t, 1, 'text', False, 0, conn, None))      # one worker: the only schedule
            out.append((t, 2, 'text', False, 0, conn, None))      # two workers: the non-preemptive schedule
        short = ['TERR', 'MARK', 'RSA1024', 'RSA4096', 'CLEAN', 'SSH1', 'UNKNOWN']
        for t in itertools.product(short, repeat=3):
            out.append((t, 2, 'text', False, 1, conn, None))
            out.append((t, 3, 'text', False, 1, conn, None))
            out.append((t, 2, 'json', False, 1, conn, None))
        for t in itertools.product(['TERR', 'RSA1024', 'CLEAN', 'GEX1024'], repeat=3):
            out.append((t, 2, 'text', False, 2, conn, 3000))
        for a, b in itertools.product(['TERR', 'MARK', 'CLEAN', 'UNKNOWN', 'SSH1'], repeat=2):
            out.append(((a, b), 2, 'text', False, 3, fine, 20000))
    return out


# ---- a target whose audit dies of an environment error after its probes (the connection-rate check's connections are rejected with
# EHOSTUNREACH, which the tool does not expect): the next target on that worker must be reported as if audited alone
def work_after_crash(chunk, st):
    import errno
    for first, second, fmt in chunk:
        twin = MT.HEALTHY[first]('c')
        pre = len(H.audit(twin, opts=['-n', '--skip-rate-test']).world.conns)
        crash = MT.HEALTHY[first]('c')
        crash.async_refuse = True
        crash.conn_behaviour = (lambda i, pre=pre: 'normal' if i < pre else errno.EHOSTUNREACH)
        opts = ['-n'] + (['-j'] if fmt == 'json' else [])
        res, outs = H.audit_sequence([crash, MT.HEALTHY[second]('x')], opts=opts, hosts=['crash.example', 'x.example'])
        ref, routs = H.audit_sequence([MT.HEALTHY[second]('x')], opts=opts, hosts=['x.example'])
        st.execution(res.world, outcome=('after-crash', res.status, fmt), root=('after-crash', first, second, fmt), nontrivial=('after-crash', first, second, fmt))
        if outs is None or routs is None or len(outs) != 2 or len(routs) != 1:
            st.violation('after-crashed-target:output-shape', {'first': first, 'second': second, 'fmt': fmt, 'stdout': res.stdout[-300:]})
            continue
        a, b = outs[1], routs[0]
        if fmt == 'text':
            a, b = MT.norm_block(a), MT.norm_block(b)
        if a != b:
            st.violation('result-differs:%s-after-crashed-%s:%s' % (second, first, fmt),
                         {'first': first, 'second': second, 'diff': _text_diff(a, b) if fmt == 'text' else _json_diff(a, b)})
    st.sample({'after_crashed_target': [list(x) for x in chunk[:2]]}, cap=3)


# ---- debug output switched on (-d): the progress and debug messages go to stdout as they happen, the REPORT of each target still comes
# in that target's own block - under every order in which the main thread gets round to collecting the finished targets
def _report_lines(block):
    return [l.rstrip() for l in block.split('\n') if l.startswith('(') or l.startswith('# ')]


def work_debug(chunk, st):
    for archs, threads in chunk:
        def once(prefix):
            res, s = MT.run_multi(list(archs), threads, 'text', prefix, ('connect',), extra=['-d'], explore_main=True)
            return (res, s), s.points
        n = 0
        for prefix, (res, s), _points in sched.explore_schedules(once, 1, 300):
            n += 1
            root = ('debug', archs, threads, tuple(prefix))
            st.execution(res.world, outcome=('debug', res.status, len(prefix)), root=root, nontrivial=root)
            d = {'archs': list(archs), 'threads': threads, 'schedule': list(prefix), 'status': res.status}
            if res.hang or res.exc:
                st.violation('debug-output:hang-or-exception', dict(d, hang=res.hang, exc=res.exc))
                continue
            blocks = report.split_targets(res.stdout)
            if len(blocks) != len(archs):
                st.violation('debug-output:block-count', dict(d, got=len(blocks)))
                continue
            for b in blocks:
                lines = _report_lines(b)
                labels = [l for l in lines if l.startswith('(gen) target:')]
                if len(labels) != 1:
                    st.violation('debug-output:block-holds-%d-reports' % len(labels), dict(d, labels=labels))
                    continue
                pos = MT.block_host(labels[0])
                ref = MT.run_single(archs[pos], pos, 'text', None, extra=('-d',))
                want = _report_lines(report.split_targets(ref.stdout)[0])
                if lines != want:
                    st.violation('debug-output:report-differs-from-single-run', dict(d, target=archs[pos], diff=_text_diff('\n'.join(lines), '\n'.join(want))))
        st.sample({'debug_lists': list(archs), 'threads': threads, 'schedules': n}, cap=3)


# ---- the group-exchange modulus test (-g / --gex-test) over several targets: what is listed for one target is what that target hands out
GEXTEST_ARCHS = ['GEX1024', 'GEX4096', 'GEXFALLBACK', 'GEX2048OPENSSH', 'GEXREFUSED', 'TERR']
GEXTEST_SPECS = ['2048', '1024,2048,4096', '2048:4096:1024']


def work_gextest(chunk, st):
    for first, second, spec, fmt in chunk:
        opts = ['-n', '--gex-test=' + spec] + (['-j'] if fmt == 'json' else [])
        res, outs = H.audit_sequence([MT.HEALTHY[first]('a'), MT.HEALTHY[second]('b')], opts=opts, hosts=['a.example', 'b.example'])
        ref, routs = H.audit_sequence([MT.HEALTHY[second]('b')], opts=opts, hosts=['b.example'])
        root = ('gex-test', first, second, spec, fmt)
        st.execution(res.world, outcome=('gex-test', res.status, fmt), root=root, nontrivial=root)
        d = {'first': first, 'second': second, 'gex_test': spec, 'fmt': fmt, 'status': res.status}
        if res.hang or res.exc or ref.hang or ref.exc:
            st.violation('gex-test:hang-or-exception', dict(d, hang=res.hang, exc=res.exc))
            continue
        if outs is None or routs is None or len(outs) != 2 or len(routs) != 1:
            st.violation('gex-test:output-shape', dict(d, stdout=res.stdout[-300:]))
            continue
        a, b = outs[1], routs[0]
        if fmt == 'text':
            a, b = MT.norm_block(a), MT.norm_block(b)
        if a != b:
            st.violation('result-differs:gex-test:%s-after-%s:%s' % (second, first, fmt), dict(d, diff=_text_diff(a, b) if fmt == 'text' else _json_diff(a, b)))
    st.sample({'gex_test_pairs': [list(x) for x in chunk[:2]]}, cap=3)


# ---- every peer of the shared zoo as the second target of a run, after a target that leaves marks in the rating state
def work_zoo_after(chunk, st):
    from props import zoo
    for name, dirty, fmt in chunk:
        e = zoo.get(name)
        if e['ssh1'] and not e['versions_differ']:
            continue
        opts = ['-n', '--skip-rate-test'] + (['-j'] if fmt == 'json' else [])
        res, outs = H.audit_sequence([MT.HEALTHY[dirty]('d'), e['make']()], opts=opts, hosts=['dirty.example', 'z.example'])
        _r, alone = H.audit_sequence([e['make']()], opts=opts, hosts=['z.example'])
        st.execution(res.world, outcome=('zoo-after', res.status, fmt), root=('zoo-after', name, dirty, fmt), nontrivial=('zoo-after', name, dirty, fmt))
        if outs is None or alone is None or len(outs) != 2 or len(alone) != 1:
            st.violation('zoo-after-dirty-target:output-shape', {'peer': name, 'after': dirty, 'fmt': fmt, 'stdout': res.stdout[-300:]})
            continue
        a, b = outs[1], alone[0]
        if fmt == 'text':
            a, b = MT.norm_block(a), MT.norm_block(b)
        if a != b:
            st.violation('result-differs:zoo-peer-after-%s:%s' % (dirty, fmt), {'peer': name, 'after': dirty, 'diff': _text_diff(a, b) if fmt == 'text' else _json_diff(a, b)})
    st.sample({'zoo_after_dirty': [list(c) for c in chunk[:2]]}, cap=3)


# ---- targets written in different notations in one list (explicit port next to none, with and without -p)
def work_mixed_ports(chunk, st):
    for (a, pa), (b, pb), popt, fmt in chunk:
        opts = ['-n', '--skip-rate-test'] + (['-j'] if fmt == 'json' else []) + (['-p', str(popt)] if popt else [])
        dflt = popt or 22

        def eff(p):
            return dflt if p is None else p
        res, outs = H.audit_sequence([MT.HEALTHY[a]('a'), MT.HEALTHY[b]('b')], opts=opts, hosts=['a.example', 'b.example'], ports=[eff(pa), eff(pb)],
                                     lines=['a.example' + ('' if pa is None else ':%d' % pa), 'b.example' + ('' if pb is None else ':%d' % pb)])
        st.execution(res.world, outcome=('mixed-ports', res.status, fmt), root=('mixed-ports', a, pa, b, pb, popt, fmt), nontrivial=('mixed-ports', a, pa, b, pb, popt, fmt))
        if outs is None or len(outs) != 2:
            st.violation('mixed-notation:output-shape', {'targets': [[a, pa], [b, pb]], 'p': popt, 'fmt': fmt, 'stdout': res.stdout[-300:]})
            continue
        for i, (arch, host, p) in enumerate(((a, 'a.example', pa), (b, 'b.example', pb))):
            _r, alone = H.audit_sequence([MT.HEALTHY[arch]('x')], opts=opts, hosts=[host], ports=[eff(p)], lines=[host + ('' if p is None else ':%d' % p)])
            x, y = outs[i], (alone or [None])[0]
            if fmt == 'text' and y is not None:
                x, y = MT.norm_block(x), MT.norm_block(y)
            if x != y:
                st.violation('result-differs:mixed-notation:%s' % fmt, {'targets': [[a, pa], [b, pb]], 'p': popt, 'index': i,
                                                                      'diff': _text_diff(x, y or '') if fmt == 'text' else _json_diff(x, y)})
    st.sample({'mixed_notation': [list(chunk[0][0]), list(chunk[0][1])], 'p': chunk[0][2]}, cap=3)


# ---- two services at ONE address (one name, two ports), the connection-rate check switched on, two workers: what the rate check of
# one target finds (it counts connections per second of its own window) is what it finds when that target is audited alone, under
# every schedule of the workers' connection events (preemption bound 1) - waiting for a lock another worker holds takes (virtual) time
def work_one_address_rate(chunk, st):
    import socket as _s
    from mc import runner, vnet
    for a, b, threads, bound in chunk:
        host, ip = 'svc.example', '10.8.9.1'

        def world():
            return vnet.World(servers={(ip, 22): MT.HEALTHY[a]('p22'), (ip, 2222): MT.HEALTHY[b]('p2222')}, resolver={host: [(int(_s.AF_INET), ip)]})
        alone = {}
        for line in (host, host + ':2222'):
            r = runner.run_cli(['-n', '-j', '-T', MT.targets_file([line]), '--threads', '1'], world())
            try:
                alone[line] = json.loads(r.stdout)[0]
            except (ValueError, IndexError, KeyError):
                alone[line] = None

        def once(prefix):
            res, sc = sched.run_scheduled(runner.run_cli, ['-n', '-j', '-T', MT.targets_file([host, host + ':2222']), '--threads', str(threads)], world(), prefix, ('connect',))
            return (res, sc), sc.points
        n = 0
        for prefix, (res, sc), _pts in sched.explore_schedules(once, bound, 60):
            n += 1
            root = ('one-address-rate', a, b, threads, tuple(prefix))
            st.execution(res.world, outcome=('one-address-rate', res.status), root=root, nontrivial=root)
            st.extra['schedules'] += 1
            d = {'targets': [host, host + ':2222'], 'archetypes': [a, b], 'threads': threads, 'schedule': list(prefix), 'status': res.status}
            if res.hang or res.exc:
                st.violation('one-address-rate:hang-or-escaped-exception', dict(d, hang=res.hang, exc=res.exc))
                continue
            try:
                doc = json.loads(res.stdout)
            except ValueError:
                st.violation('one-address-rate:json-not-one-document', dict(d, tail=res.stdout[-200:]))
                continue
            for line in (host, host + ':2222'):
                want = alone[line]
                got = [e for e in doc if isinstance(e, dict) and want is not None and e.get('target') == want.get('target')]
                if want is None or len(got) != 1:
                    st.violation('one-address-rate:entry-missing', dict(d, line=line))
                elif got[0] != want:
                    keys = sorted(k for k in set(want) | set(got[0]) if want.get(k) != got[0].get(k))
                    st.violation('result-differs:one-address-rate:%s' % '+'.join(keys), dict(d, line=line, alone={k: want.get(k) for k in keys}, together={k: got[0].get(k) for k in keys}))
        if n >= 60:
            st.caps.append('one-address-rate: schedule cap 60 hit for %s' % [a, b])
    st.sample({'one_address_rate': [list(x) for x in chunk[:2]]}, cap=3)


# ---- IP-version options over a list: each target's entry is the one a single-target run under the same option gives (targets here have
# IPv4 addresses only: under -6 each is unreachable, alone and in a list alike)
def work_family_options(chunk, st):
    for opt, archs, threads in chunk:
        res, _s = MT.run_multi(list(archs), threads, 'json', (), ('connect',), extra=(opt,))
        root = ('family-option', opt, archs, threads)
        st.execution(res.world, outcome=('family-option', opt, res.status), root=root, nontrivial=root)
        d = {'option': opt, 'targets': list(archs), 'threads': threads, 'status': res.status}
        if res.hang or res.exc:
            st.violation('family-option:hang-or-escaped-exception', dict(d, hang=res.hang, exc=res.exc))
            continue
        try:
            doc = json.loads(res.stdout)
        except ValueError:
            st.violation('family-option:json-not-one-document', dict(d, tail=res.stdout[-200:]))
            continue
        for i, a in enumerate(archs):
            alone = MT.run_single(a, i, 'json', None, via_targets_file=False, extra=(opt,))      # named on the command line: a fresh invocation in the plainest sense
            try:
                want = json.loads(alone.stdout.split('\n')[0])
            except (ValueError, IndexError, KeyError):
                want = {'error': alone.stdout[:200], 'target': '%s:22' % MT.host_label(i)} if alone.status == 1 else None
            got = [e for e in doc if isinstance(e, dict) and want is not None and e.get('target') == want.get('target')]
            if want is None or len(got) != 1:
                st.violation('family-option:entry-missing:%s' % opt, dict(d, index=i))
            elif ('error' in got[0]) != ('error' in want) or (('error' not in want) and got[0] != want):
                st.violation('result-differs:under-%s:%s' % (opt, 'audited-in-the-list-but-unreachable-alone' if 'error' in want else 'other'),
                             dict(d, index=i, alone_keys=sorted(want)[:5], in_list_keys=sorted(got[0])[:5]))
    st.sample({'family_options': [str(x) for x in chunk[:2]]}, cap=3)


def run(tier, seed):
    t0 = time.time()
    cs = cases(tier)
    st = par.pmap(work, cs, chunk=4 if tier == 'quick' else 2)
    mixed = [((a, pa), (b, pb), popt, fmt) for a, b in (('TERR', 'CLEAN'), ('CLEAN', 'RSA1024')) for pa in (None, 2222, 22) for pb in (None, 2222, 2022)
             for popt in (None, 2022) for fmt in ('text', 'json') if pa != pb]
    par.pmap(work_mixed_ports, mixed, stats=st, chunk=4)
    from props import zoo
    zn = zoo.names(tier)
    par.pmap(work_zoo_after, [(n, d, f) for n in zn for d in ('TERR', 'RSA1024', 'GEX1024') for f in ('text', 'json')], stats=st, chunk=12)
    firsts = ['RSA1024', 'GEX1024', 'TERR', 'CERTSMALLCA']
    seconds = ['CLEAN', 'RSA4096', 'GEX4096', 'MARK', 'RSA1024'] if tier == 'quick' else ARCHS
    par.pmap(work_after_crash, [(a, b, f) for a in firsts for b in seconds if b != 'SSH1' for f in ('text', 'json')], stats=st, chunk=2)
    par.pmap(work_debug, [(a, th) for a in (('TERR', 'CLEAN'), ('CLEAN', 'TERR'), ('RSA1024', 'MARK', 'CLEAN'), ('GEX1024', 'CLEAN')) for th in (1, 2)], stats=st, chunk=1)
    par.pmap(work_one_address_rate, [(a, b, th, 1 if th == 2 else 0) for a, b in (('TERR', 'TERR'), ('TERR', 'GEX1024'), ('RSA1024', 'CLEAN')) for th in ((1, 2) if tier == 'quick' else (1, 2, 3))],
             stats=st, chunk=1)
    par.pmap(work_family_options, [(o, a, th) for o in ('-4', '-6', '-46', '-64') for a in (('CLEAN', 'TERR'), ('RSA1024', 'CLEAN', 'TERR')) for th in (1, 2)], stats=st, chunk=2)
    par.pmap(work_gextest, [(a, b, sp, f) for a in GEXTEST_ARCHS for b in GEXTEST_ARCHS for sp in GEXTEST_SPECS for f in ('text', 'json')], stats=st, chunk=4)
    lines = [('ssh2_kexdb', 2, 2), ('ssh1_kexdb', 2, 2)] if tier == 'quick' else [('ssh2_kexdb', 2, 3), ('ssh1_kexdb', 2, 3), ('ssh2_kexdb', 3, 2), ('ssh1_kexdb', 3, 2)]
    par.pmap(work_lines, lines, stats=st, chunk=1)
    pairs = H.pick(list(itertools.product(ARCHS, ARCHS)), seed, 5 if tier == 'quick' else 30)
    mcases = []
    for i, (a, b) in enumerate(pairs):
        makers = [(lambda a=a: MT.HEALTHY[a]('t0')), (lambda b=b: MT.HEALTHY[b]('t1'))]
        mcases.append((makers, ['-j'] if i % 2 else [], 1 if i % 3 else 2))
    validated = H.validate_multi_traces(mcases, st)
    return evidence.finish(
        PID, tier, seed, st, t0,
        rule='ordered pairs (quick) / pairs and triples (thorough) of %d healthy archetypes (one per channel through which a scan edits '
             'rating state) as -T files x --threads x {text,-j,-P}; for each, DFS over gate schedules of connection events with a '
             'preemption bound (quick 1, fine-grained 2; thorough 2-3); plus line-level interleavings (every source line of get_db/thread_exit is a '
             'scheduling point) of 2-3 threads running the rating-table life cycle, preemption bound 2-3; a switch at any single receive for every ordered pair; '
             'targets audited after one whose audit died of an environment error; every peer of props/zoo.py as second target after three mark-leaving targets; non-trivial = distinct (targets, threads, completion order, '
             'item-to-thread assignment)' % len(ARCHS),
        assumptions=['thread switches only at virtual I/O gates (resolve/connect/recv), see DESIGN 2.4b',
                     'reference = fresh single-target invocation in the same virtual environment'],
        exhaustive=True, traces_validated=validated, extra={'cases': len(cs), 'archetypes': ARCHS})


def replay(path):
    v = json.load(open(path))
    d = v['detail']
    pol = policy_path() if d['policy'] else None
    res, s = MT.run_multi(d['archs'], d['threads'], d['fmt'], d['schedule'], tuple(d['gates']), pol, world_kw=d.get('world_kw'))
    probs = check_run(d['archs'], d['threads'], d['fmt'], d['policy'], res, s)
    for sig, det in probs:
        print('replayed:', sig, json.dumps(det, default=repr)[:800])
    return 1 if probs else 0
