"""C09 - no peer can crash, hang or fool the auditor: every (connection, message, fault) of the menu, bound 1 (+2)."""
import json
import time

from mc import evidence, explore, harness as H, par, peer, report
from props import faultspace as F

PID = 'C09'


def tasks_for(arch, short, level, trunc_step, extra=None):
    sc = F.scenario(arch, short)
    base, plans = explore.first_level_tasks(sc, level=level, trunc_step=trunc_step)
    return base, [(arch, short, p) for p in plans]


def work(chunk, st, second):
    for arch, short, plan in chunk:
        sc = F.scenario(arch, short)
        res = explore.run_plan(sc, plan)
        account(st, arch, short, plan, res)
        if second and plan:
            for p2 in explore.second_level_plans(res, plan, level='message'):
                r2 = explore.run_plan(sc, p2)
                account(st, arch, short, p2, r2)


def work_paths(chunk, st):
    """the same single-fault plans through the other code paths an audit can take: the multi-target worker (-T) and JSON output"""
    from props import c02
    for arch, short, plan in chunk:
        if F.ARCHETYPES[arch]['role'] == 'client':
            continue
        res = explore.run_plan(F.scenario(arch, short, via_targets_file=True), plan)
        fk = tuple(f[0] for _k, f in plan)
        st.execution(res.world, outcome=(arch, 'T', res.status, bool(res.hang), fk), root=(arch, short, plan, 'T'), nontrivial=(arch, plan, 'T'), detail='light')
        for sig, detail in F.judge_c09(res, arch, plan):
            st.violation('%s:multi-target-path:%s' % (arch, sig), {'arch': arch, 'short': short, 'plan': plan, 'what': detail, 'status': res.status, 'stdout_tail': res.stdout[-300:]})
        rj = explore.run_plan(F.scenario(arch, short, extra_opts=['-j']), plan)
        st.execution(rj.world, outcome=(arch, 'json', rj.status, bool(rj.hang), fk), root=(arch, short, plan, 'json'), nontrivial=(arch, plan, 'json'), detail='light')
        ref = explore.run_plan(F.scenario(arch, short), plan)
        d = {'arch': arch, 'short': short, 'plan': plan, 'status': rj.status, 'text_status': ref.status, 'stdout_tail': rj.stdout[-300:]}
        if rj.hang or rj.exc or rj.status not in (0, 1, 2, 3):
            st.violation('%s:json-path:crash-hang-or-status-%s:%s' % (arch, rj.status, F._trace_site(rj.stdout + rj.stderr)), dict(d, hang=rj.hang, exc=rj.exc))
        elif rj.status != ref.status:
            st.violation('%s:json-path:status-differs-from-text-run' % arch, d)
        else:
            has, _complete = c02._json_has_report(rj.stdout, F.advertised(rj, arch))
            if has != report.TextReport(ref.stdout).has_alg_report():
                st.violation('%s:json-path:report-shown-differs-from-text-run' % arch, d)
        # ... and with progress (-v) and debug (-d) messages switched on: the code that talks about a failure runs as well
        if plan and plan[0][0][1] >= 1:
            for vopt in ('-v', '-d'):
                rv = explore.run_plan(F.scenario(arch, short, extra_opts=[vopt]), plan)
                st.execution(rv.world, outcome=(arch, vopt, rv.status, bool(rv.hang), fk), root=(arch, short, plan, vopt), nontrivial=(arch, plan, vopt), detail='light')
                if rv.hang or rv.exc or rv.status not in (0, 1, 2, 3):
                    st.violation('%s:verbose-path:crash-hang-or-status-%s:%s' % (arch, rv.status, F._trace_site(rv.stdout + rv.stderr)),
                                 {'arch': arch, 'short': short, 'plan': plan, 'option': vopt, 'status': rv.status, 'text_status': ref.status, 'hang': rv.hang, 'exc': rv.exc, 'stdout_tail': rv.stdout[-300:]})
                elif rv.status != ref.status:
                    st.violation('%s:verbose-path:status-differs-from-plain-run' % arch, {'arch': arch, 'plan': plan, 'option': vopt, 'status': rv.status, 'text_status': ref.status})
        # ... and the policy-making path (-M): whatever the peer did, a documented status; a policy file only after a usable handshake
        if arch not in ('E', 'E1', 'E2', 'F'):
            import os
            path = H.tmp_path('c09-made-%d.txt' % os.getpid())
            if os.path.exists(path):
                os.unlink(path)
            rm = explore.run_plan(F.scenario(arch, short, extra_opts=['-M', path]), plan)
            st.execution(rm.world, outcome=(arch, 'make', rm.status, bool(rm.hang), fk), root=(arch, short, plan, 'make'), nontrivial=(arch, plan, 'make'), detail='light')
            dm = {'arch': arch, 'short': short, 'plan': plan, 'status': rm.status, 'text_status': ref.status, 'stdout_tail': rm.stdout[-300:]}
            if rm.hang or rm.exc or rm.status not in (0, 1, 2, 3):
                st.violation('%s:make-policy-path:crash-hang-or-status-%s:%s' % (arch, rm.status, F._trace_site(rm.stdout + rm.stderr)), dict(dm, hang=rm.hang, exc=rm.exc))
            elif (ref.status in (0, 2, 3)) != os.path.exists(path):
                st.violation('%s:make-policy-path:policy-file-%s' % (arch, 'missing-after-a-complete-audit' if ref.status in (0, 2, 3) else 'written-after-a-broken-handshake'), dm)


def account(st, arch, short, plan, res):
    fk = tuple(f[0] for _k, f in plan)
    st.execution(res.world, outcome=(arch, res.status, bool(res.hang), fk), root=(arch, short, plan),
                 nontrivial=(arch, plan) if plan else None, detail='conn' if len(plan) < 2 else 'light')
    st.extra['deviations_%d' % len(plan)] += 1
    for sig, detail in F.judge_c09(res, arch, plan):
        st.violation('%s:%s' % (arch, sig), {'arch': arch, 'short': short, 'plan': plan, 'what': detail,
                                             'status': res.status, 'stdout_tail': res.stdout[-300:]})
    if plan and st.evaluations % 1500 == 1:
        st.sample({'arch': arch, 'plan': plan, 'status': res.status, 'connections': len(res.world.conns)})


# special inputs: degenerate group-exchange parameters handed to the host-key probe (p in 0..4, g in 0..2)
def degenerate_gex_tasks():
    out = []
    for p in (0, 1, 2, 3, 4, 5, 7, 23):
        for g in (0, 1, 2):
            out.append(('D2p', p, g))
    # degenerate modulus with a generator of thousands of digits (anything the tool says about the group must not depend on printing it)
    for p in (0, 1, 2):
        for g in ('2**20000', '10**5000+1'):
            out.append(('D2p', p, g))
    # a group far larger than any the tool asks for (it requests at most 8192 bits)
    for p in ('2**16384+7', '2**32768-159', '2**65536-1'):
        out.append(('D2p', p, 2))
    return out


def work_degenerate(chunk, st):
    for _t, p, g in chunk:
        def sc(faults, p=p, g=g):
            srv = F._srv_D2(g=eval(g) if isinstance(g, str) else g, p=eval(p) if isinstance(p, str) else p)
            res = H.audit(srv, opts=['-n', '--skip-rate-test'], faults=faults)
            res.peer = srv
            return res
        res = sc({})
        st.execution(res.world, outcome=('D2p', res.status, bool(res.hang)), root=('D2p', p, g), nontrivial=('D2p', p, g))
        for sig, detail in F.judge_c09(res, 'D2', []):
            st.violation('D2:degenerate-group:%s' % sig, {'arch': 'D2', 'p': p, 'g': g, 'what': detail, 'status': res.status,
                                                          'stdout_tail': res.stdout[-300:]})
        st.sample({'arch': 'D2', 'gex_group': {'p': p, 'g': g}, 'status': res.status}, cap=14)


# the content of a syntactically valid identification string: software names the tool recognises followed by version strings
# that are not what its version parser expects (empty components, very long numbers, non-ASCII digits, signs, exponents)
BANNER_PRODUCTS = ['OpenSSH_', 'OpenSSH-', 'dropbear_', 'libssh-', 'libssh_', 'tinyssh_', 'PuTTY_Release_', 'Frob_']
BANNER_VERSIONS = ['8..2p1', '.79', '8.', '8', '..', '.', '', '1.2.3.4.5.6.7.8', '99999999999999999999999.1', '8.2p', '8.2p99999999999999999999', '-1.2', '+8.2', '1e5.2',
                   '0x10.1', '8_2.1', '8.2 .1', '8.2-', '2020.81test', '2020.81test0', '0.0', '00008.0002', '8.\u0663', '8.\u00b2', '\u0668.2', '8.2p1 \u00e9', '%s', '{0}', '8.2\\n', '7.4p1 Debian-10+deb9u7 extra words',
                   '8' * 300 + '.1', '1.' * 120 + '1', '9' * 4400 + '.1', '8.' + '9' * 4400, '8.2p' + '9' * 4400]
# protocol-version fields of peer-chosen length (beyond what the interpreter converts to an integer by default): not well-formed
# identification strings, so only the crash / hang / status clauses apply to them
BANNER_PROTOS_LONG = ['2.' + '1' * 4400, '1.' + '9' * 4400, '2.' + '0' * 4400, '1.99-SSH-2.' + '7' * 4400]


def banner_content_tasks():
    out = []
    for prod in BANNER_PRODUCTS:
        for v in BANNER_VERSIONS:
            for proto in ('2.0', '1.99'):
                for role in ('server', 'client'):
                    out.append(('banner', proto, prod, v, role))
    # identification strings without any software part, and every product once more, against a server whose probes take the
    # OpenSSH-specific paths (group exchange answering 2048 bits; an RSA key): code that inspects the software string after the handshake
    for proto in ('2.0', '1.99'):
        out.append(('banner', proto, None, '', 'server-gex'))
        out.append(('banner', proto, '', '', 'server-gex'))
        out.append(('banner', proto, None, '', 'server'))
        out.append(('banner', proto, None, '', 'client'))
    for prod in BANNER_PRODUCTS:
        for v in BANNER_VERSIONS[:12]:
            out.append(('banner', '2.0', prod, v, 'server-gex'))
    for proto in BANNER_PROTOS_LONG:
        for prod, v in (('OpenSSH_', '9.6'), (None, ''), ('Frob_', '1')):
            for role in ('server', 'client', 'server-gex'):
                out.append(('banner', proto, prod, v, role))
    return out


def work_banner(chunk, st):
    lists0 = dict(kex=['curve25519-sha256', 'diffie-hellman-group14-sha1'], key=['ssh-ed25519', 'ssh-rsa'], enc=['aes256-ctr', '3des-cbc'], mac=['hmac-sha2-256', 'hmac-md5'])
    for _t, proto, prod, v, role in chunk:
        banner = ('SSH-%s-%s%s' % (proto, prod, v)).encode('utf-8') if prod is not None else ('SSH-%s' % proto).encode()
        gexsrv = role == 'server-gex'
        if gexsrv:
            role = 'server'
            lists = dict(lists0, kex=['diffie-hellman-group-exchange-sha256'] + lists0['kex'])
        else:
            lists = lists0
        for fmt in ('text', 'json'):
            opts = ['-n'] + (['-j'] if fmt == 'json' else [])
            if role == 'server' and gexsrv:
                res = H.audit(peer.Server(banner=banner, host_keys=peer.standard_host_keys(lists['key'], rsa_bits=2048), gex=peer.GexPolicy([2048], peer.OPENSSH), **lists), opts=opts + ['--skip-rate-test'])
            elif role == 'server':
                res = H.audit(peer.Server(banner=banner, host_keys=peer.standard_host_keys(lists['key']), **lists), opts=opts + ['--skip-rate-test'])
            else:
                res = H.client_audit(peer.Client(banner=banner, **lists), opts=opts)
            st.execution(res.world, outcome=('banner', res.status, bool(res.hang)), root=('banner', proto, prod, v, role, gexsrv, fmt), nontrivial=('banner', proto, prod, v, role, gexsrv, fmt))
            d = {'banner': banner.decode('utf-8')[:300], 'role': role, 'fmt': fmt, 'status': res.status, 'stdout_tail': res.stdout[-300:], 'stderr_tail': res.stderr[-300:]}
            kind = 'recognised' if prod in BANNER_PRODUCTS[:5] else 'other'
            if res.hang or res.exc or res.status not in (0, 1, 2, 3):
                st.violation('banner-content:crash-or-hang:%s:%s' % (kind, F._trace_site(res.stdout + res.stderr)), dict(d, hang=res.hang, exc=res.exc))
                continue
            if fmt == 'text':
                shown = report.TextReport(res.stdout)
                complete = all(shown.names(c) == lists[c] for c in lists)
            else:
                try:
                    doc = json.loads(res.stdout)
                    complete = all([e['algorithm'] for e in doc.get(c, [])] == lists[c] for c in lists)
                except ValueError:
                    complete = False
            if (not complete or res.status != 3) and proto not in BANNER_PROTOS_LONG:
                st.violation('banner-content:wellformed-handshake-rejected:%s' % kind, d)
    st.sample({'banner_content': str(chunk[0][2]) + chunk[0][3][:40], 'role': chunk[0][4]}, cap=22)


# ---- text the peer chooses freely and the tool reads with pattern matching (lines in front of the identification string, its
# software and comment fields): long runs of one unit after a prefix that starts a pattern, ending with or without the character that
# would complete it.  A pattern that backtracks without bound on such a run never comes back to the environment; the CPU watchdog of
# mc/runner.py (process CPU time, 6 s here; an audit takes milliseconds) ends the execution as hung.
PATHO_PREFIX = ['', '\x1b[', '\x1b]', 'OpenSSH_', 'dropbear_', 'libssh-', '1.', '(', '%', '\\']
PATHO_UNIT = ['1', '9;', '1.', 'a', '-', '_', '.', 'p1', 'a1', '(', '\t', '=?']
PATHO_TAIL = ['', '!', 'm']


def pathological_tasks(tier):
    out = []
    for place in ('header', 'header-probe', 'software', 'comment'):
        for pre in PATHO_PREFIX:
            for unit in PATHO_UNIT:
                for n in (40, 2000):
                    for tail in PATHO_TAIL:
                        if place != 'header' and tier == 'quick' and n == 2000 and tail:
                            continue
                        out.append((place, pre, unit, n, tail))
    return out


def work_pathological(chunk, st):
    from mc import runner
    lists = dict(kex=['curve25519-sha256', 'diffie-hellman-group14-sha1'], key=['ssh-ed25519', 'ssh-rsa'], enc=['aes256-ctr', '3des-cbc'], mac=['hmac-sha2-256', 'hmac-md5'])
    old = runner.CPU_LIMIT_S
    runner.CPU_LIMIT_S = min(old, 6.0) if old > 0 else 6.0
    try:
        for place, pre, unit, n, tail in chunk:
            text = (pre + unit * n + tail)
            if place in ('software', 'comment'):
                text = text.replace('\t', '+').replace('\x1b', '^')
            raw = text.encode('latin-1')
            kw = {}
            if place == 'header':
                kw['pre_banner'] = [raw + b'\r\n']
            elif place == 'header-probe':
                kw['pre_banner'] = [b'notice\r\n', raw + b'\r\n', b'\r\n']
            elif place == 'software':
                kw['banner'] = b'SSH-2.0-' + raw.replace(b' ', b'_')
            else:
                kw['banner'] = b'SSH-2.0-OpenSSH_9.6 ' + raw
            for role in ('server', 'client'):
                if role == 'client' and place.startswith('header'):
                    continue
                if role == 'server':
                    res = H.audit(peer.Server(host_keys=peer.standard_host_keys(lists['key']), **dict(lists, **kw)), opts=['-n', '-j', '--skip-rate-test'])
                else:
                    res = H.client_audit(peer.Client(**dict(lists, **kw)), opts=['-n', '-j'])
                root = ('patho', place, pre, unit, n, tail, role)
                st.execution(res.world, outcome=('patho', res.status, bool(res.hang)), root=root, nontrivial=root, detail='light')
                d = {'place': place, 'text': (pre + unit * 3 + '...x%d' % n + tail), 'role': role, 'status': res.status, 'tail': (res.stdout + res.stderr)[-200:]}
                if res.hang or res.exc or res.status not in (0, 1, 2, 3):
                    st.violation('peer-text:crash-or-hang:%s' % place, dict(d, hang=res.hang, exc=res.exc))
                    continue
                try:
                    doc = json.loads(res.stdout)
                    complete = all([e['algorithm'] for e in doc.get(c, [])] == lists[c] for c in lists)
                except ValueError:
                    complete = False
                if not complete or res.status != 3:
                    st.violation('peer-text:wellformed-handshake-rejected:%s' % place, d)
    finally:
        runner.CPU_LIMIT_S = old
    st.sample({'peer_text': [chunk[0][0], chunk[0][1] + chunk[0][2] * 3 + '...', chunk[0][3]]}, cap=6)


# ---- the connection-rate check is part of a standard audit: whatever its connections meet (banner, notice, silence, close, abort, refusal
# at once or later, time-outs, and patterns of these), the audit ends through a documented status with its complete report
def rate_phase_tasks():
    from props import c19
    behs = list(c19.RATE_BEHAVIOURS) + [('normal', 'reset'), ('reset', 'refuse-async'), ('normal', 'normal', 'econnreset-async'), ('silent', 'reset'), ('exceeded', 'reset', 'normal')]
    return [(b, kexes, 1, mode, lat) for b in behs for kexes in (('curve25519-sha256',), ('diffie-hellman-group14-sha256', 'diffie-hellman-group-exchange-sha256'))
            for mode in ('standard', 'verbose') for lat in (0.01, 0.1)]


def work_rate_phase(chunk, st):
    from props import c19
    for beh, kexes, nkeys, mode, lat in chunk:
        res, srv = c19.run_rate(beh, list(kexes), nkeys, mode, lat)
        root = ('rate-phase', beh, kexes, mode, lat)
        st.execution(res.world, outcome=('rate-phase', str(beh), res.status, bool(res.hang)), root=root, nontrivial=root)
        d = {'rate_check_connections_meet': beh if isinstance(beh, str) else list(beh), 'kex': list(kexes), 'mode': mode, 'status': res.status, 'tail': (res.stdout + res.stderr)[-200:]}
        if res.hang or res.exc or res.status not in (0, 1, 2, 3):
            st.violation('rate-phase:crash-or-hang:%s' % (beh if isinstance(beh, str) else 'pattern'), dict(d, hang=res.hang, exc=res.exc))
            continue
        shown = report.TextReport(res.stdout)
        if (mode == 'standard' and shown.names('kex') != list(kexes)) or res.status not in (0, 2, 3):
            st.violation('rate-phase:report-lost:%s' % (beh if isinstance(beh, str) else 'pattern'), d)
    st.sample({'rate_phase': [str(chunk[0][0]), chunk[0][3]]}, cap=4)


# ---- byte-level mutations of the replies that carry the peer's key material: every byte of every host-key probe reply of servers
# presenting certificates (each CA kind) and plain keys, with single-bit flips: the reply stays a well-framed packet, only its content
# (type strings, curve names, lengths inside the blob, key bytes) changes
MUT_SERVERS = {
    'edcert-ec256': (['ssh-ed25519-cert-v01@openssh.com'], dict(ca=256, ca_bits=256)),
    'edcert-ec521': (['ssh-ed25519-cert-v01@openssh.com'], dict(ca=521, ca_bits=521)),
    'edcert-ed': (['ssh-ed25519-cert-v01@openssh.com'], dict(ca='ed25519', ca_bits=256)),
    'edcert-rsa': (['ssh-ed25519-cert-v01@openssh.com'], dict(ca='rsa', ca_bits=1024)),
    'rsacert-ec384': (['ssh-rsa-cert-v01@openssh.com'], dict(ca=384, ca_bits=384, rsa_bits=1024)),
    'plain-ec': (['ecdsa-sha2-nistp256', 'ssh-ed25519'], dict()),
    'plain-rsa': (['rsa-sha2-512'], dict(rsa_bits=1024)),
}


def _mut_server(name):
    keys, kw = MUT_SERVERS[name]
    return peer.Server(label='M', kex=['curve25519-sha256'], key=list(keys), enc=['aes256-ctr'], mac=['hmac-sha2-256'], host_keys=peer.standard_host_keys(list(keys), **kw))


def mutation_tasks(tier):
    masks = (0x01, 0x80) if tier == 'quick' else (0x01, 0x02, 0x04, 0x08, 0x10, 0x20, 0x40, 0x80, 0xff)
    out = []
    for name in sorted(MUT_SERVERS):
        base = H.audit(_mut_server(name), opts=['-n', '--skip-rate-test'])
        for site in base.world.sites:
            if site['label'] == 'kexdh_reply':
                for off in range(site['len']):
                    for m in masks:
                        out.append((name, tuple(site['key']), off, m))
    return out


def work_mutations(chunk, st):
    for name, key, off, mask in chunk:
        plan = [(key, ('flip', off, mask))]
        for fmt in ('text', 'json'):
            srv = _mut_server(name)
            res = H.audit(srv, opts=['-n', '--skip-rate-test'] + (['-j'] if fmt == 'json' else []), faults={key: ('flip', off, mask)})
            res.peer = srv
            root = ('mutation', name, key, off, mask, fmt)
            st.execution(res.world, outcome=('mutation', name, res.status, fmt), root=root, nontrivial=root, detail='light')
            if fmt == 'json':
                if res.hang or res.exc or res.status not in (0, 1, 2, 3):
                    st.violation('reply-mutation:json:status-%s:%s' % (res.status, F._trace_site(res.stdout + res.stderr)), {'server': name, 'site': list(key), 'offset': off, 'mask': mask, 'tail': (res.stdout + res.stderr)[-300:]})
                continue
            for sig, detail in F.judge_c09(res, 'B', plan):
                st.violation('reply-mutation:%s' % sig, {'server': name, 'site': list(key), 'offset': off, 'mask': mask, 'what': detail, 'status': res.status, 'stdout_tail': res.stdout[-300:]})
    st.sample({'reply_mutation': [chunk[0][0], list(chunk[0][1]), chunk[0][2], chunk[0][3]]}, cap=8)


# ---- policy audits of a peer whose group exchange is offered but never measured (every modulus probe refused, closed, stalled or garbled):
# every policy shape that mentions the modulus ends through a documented status
def policy_unmeasured_tasks():
    out = []
    G256, G1 = 'diffie-hellman-group-exchange-sha256', 'diffie-hellman-group-exchange-sha1'
    for how in ('refuses-every-request', 'closes-after-request', 'stalls-after-request', 'garbles-the-group', 'probe-connections-refused'):
        for larger in (False, True):
            for sizes in ({G256: 2048}, {G256: 3072, G1: 2048}, None):
                for extra in ((), ('-j',), ('-T',)):
                    out.append((how, larger, sizes, extra))
    return out


def work_policy_unmeasured(chunk, st):
    import os
    G256, G1 = 'diffie-hellman-group-exchange-sha256', 'diffie-hellman-group-exchange-sha1'
    for how, larger, sizes, extra in chunk:
        srv = peer.Server(label='pu', kex=['curve25519-sha256', G256, G1], key=['ssh-ed25519'], host_keys=peer.standard_host_keys(['ssh-ed25519']),
                          gex=peer.GexPolicy([] if how == 'refuses-every-request' else [2048], peer.STRICT))
        faults = {}
        if how != 'refuses-every-request':
            f = {'closes-after-request': (2, ('trunc_close', 0)), 'stalls-after-request': (2, ('trunc_stall', 0)), 'garbles-the-group': (2, ('garbage', 60, 3)), 'probe-connections-refused': (-1, ('refuse',))}[how]
            for c in range(2, 40):
                faults[('pu', c, f[0])] = f[1]
        path = H.tmp_path('c09-unmeasured-%d.txt' % os.getpid())
        lines = ['name = "unmeasured"', 'version = 1', 'allow_larger_keys = %s' % ('true' if larger else 'false'), 'key exchanges = curve25519-sha256, %s, %s' % (G256, G1)]
        if sizes:
            lines.append('dh_modulus_sizes = %s' % json.dumps(sizes))
        with open(path, 'w') as fh:
            fh.write('\n'.join(lines) + '\n')
        opts = ['-n', '--skip-rate-test', '-P', path] + [o for o in extra if o != '-T']
        res = H.audit(srv, opts=opts, faults=faults, via_targets_file='-T' in extra)
        root = ('policy-unmeasured', how, larger, json.dumps(sizes, sort_keys=True), extra)
        st.execution(res.world, outcome=('policy-unmeasured', res.status, bool(res.hang)), root=root, nontrivial=root)
        if res.hang or res.exc or res.status not in (0, 1, 2, 3):
            st.violation('policy-audit:unmeasured-modulus:crash-hang-or-status-%s:%s' % (res.status, F._trace_site(res.stdout + res.stderr)),
                         {'server': how, 'allow_larger_keys': larger, 'dh_modulus_sizes': sizes, 'options': list(extra), 'status': res.status, 'hang': res.hang, 'exc': res.exc, 'stdout_tail': res.stdout[-300:]})
    st.sample({'policy_unmeasured': [chunk[0][0], chunk[0][1]]}, cap=4)


# environment answers around the listening socket of a client audit
def check_client_environment(st):
    import socket as _s
    from mc import runner, vnet
    V4, V6 = int(_s.AF_INET), int(_s.AF_INET6)
    for bind_fail in ((), (V4,), (V6,), (V4, V6)):
        for fam in (4, 6, None):
            for opts in (['-t', '3'], ['-t', '3', '-j'], ['-t', '3', '-p', '2022']):
                cli = None
                if fam is not None:
                    cli = peer.Client(label='G', family=fam, addr=('192.0.2.77', 40000) if fam == 4 else ('2001:db8::77', 40000, 0, 0),
                                      kex=['curve25519-sha256'], key=['ssh-ed25519'], enc=['aes256-ctr'], mac=['hmac-sha2-256'])
                w = vnet.World(clients=[cli] if cli else [])
                w.bind_fail = set(bind_fail)
                res = runner.run_cli(['-c', '-n'] + opts, w)
                reachable = cli is not None and ({4: V4, 6: V6}[fam] not in bind_fail)
                st.execution(w, outcome=('client-env', res.status, reachable), root=('client-env', bind_fail, fam, tuple(opts)), nontrivial=('client-env', bind_fail, fam, tuple(opts)))
                d = {'bind_fails_for': list(bind_fail), 'client_family': fam, 'opts': opts, 'status': res.status, 'stdout_tail': res.stdout[-200:], 'stderr_tail': res.stderr[-200:]}
                if res.hang or res.exc or res.status not in (0, 1, 2, 3):
                    st.violation('client-env:crash-or-hang', dict(d, hang=res.hang, exc=res.exc))
                    continue
                if res.clock > 3 + 5 * 2 + 2:
                    st.violation('client-env:too-slow', dict(d, clock=res.clock))
                shown = 'curve25519-sha256' in res.stdout
                if reachable and (not shown or res.status not in (0, 2, 3)):
                    st.violation('client-env:reachable-client-not-audited', d)
                if not reachable and (shown or res.status != 1):
                    st.violation('client-env:no-client-but-status-%s' % res.status, d)
    st.sample({'client_audit_environment': 'bind failures x client address family x options'}, cap=20)


# a client audit: when the client dials in (virtual seconds after the tool started listening) x where it then stalls x the -t value
def check_client_timing(st):
    from mc import runner, vnet
    for tval in (None, 2, 3, 5):
        limit = tval or 5
        for arrive in [0.0, 0.5] + [k + d for k in range(0, limit + 1) for d in (0.05, 0.95)]:
            for stall in (None, ('cli', 0, 0), ('cli', 0, 1)):
                for how in (('trunc_stall', 0), ('trunc_stall', 5)) if stall else (None,):
                    cli = peer.Client(label='cli', kex=['curve25519-sha256'], key=['ssh-ed25519'], enc=['aes256-ctr'], mac=['hmac-sha2-256'])
                    cli.arrive_at = arrive
                    w = vnet.World(clients=[cli], faults={stall: how} if stall else None)
                    res = runner.run_cli(['-c', '-n'] + (['-t', str(tval)] if tval else []), w)
                    st.execution(w, outcome=('client-timing', res.status, bool(res.hang)), root=('client-timing', tval, arrive, stall, how), nontrivial=('client-timing', tval, arrive, stall, how))
                    d = {'t': tval, 'client_dials_after_s': arrive, 'stall_at': list(stall) if stall else None, 'how': list(how) if how else None, 'status': res.status,
                         'virtual_seconds': round(res.clock, 2), 'stdout_tail': res.stdout[-200:]}
                    if res.hang or res.exc or res.status not in (0, 1, 2, 3):
                        st.violation('client-timing:hang-crash-or-undocumented-status', dict(d, hang=res.hang, exc=res.exc))
                        continue
                    if res.clock > arrive + 3 * limit + 3:
                        st.violation('client-timing:too-slow', d)
                    shown = 'curve25519-sha256' in res.stdout
                    if stall is None and arrive < limit - 1 and tval is not None and (not shown or res.status not in (0, 2, 3)):
                        st.violation('client-timing:punctual-client-not-audited', d)
                    if stall is not None and (shown or res.status != 1):
                        st.violation('client-timing:stalled-client-but-status-%s' % res.status, d)
    st.sample({'client_audit_timing': 'arrival second x stall point x -t'}, cap=20)


# ---- well-formed SSH-1 handshakes of every packet length modulo 8 (host keys of 1024..1088 bits in steps of 8) and with authentication
# masks whose last byte is zero: each yields a complete SSH-1 report
def work_ssh1_shapes(chunk, st):
    for host_bits, server_bits, amask, fmt in chunk:
        srv = peer.Server(label='s1', banner=b'SSH-1.5-OpenSSH_3.4', ssh1={'cmask': 0x4c, 'amask': amask, 'host_bits': host_bits, 'server_bits': server_bits}, versions_differ=True)
        res = H.audit(srv, opts=['-n', '--skip-rate-test'] + (['-j'] if fmt == 'json' else []))
        root = ('ssh1-shape', host_bits, server_bits, amask, fmt)
        st.execution(res.world, outcome=('ssh1-shape', res.status), root=root, nontrivial=root)
        ok = res.status in (0, 2, 3) and not res.hang and not res.exc and ('3des' in res.stdout) and ('blowfish' in res.stdout)
        if not ok:
            st.violation('ssh1:well-formed-handshake-without-report:%s' % ('auth-mask-ends-in-zero-byte' if amask & 0xff == 0 else 'key-size'),
                         {'host_key_bits': host_bits, 'server_key_bits': server_bits, 'auth_mask': amask, 'fmt': fmt, 'status': res.status, 'tail': res.stdout[-200:]})
    st.sample({'ssh1_shapes': [list(x) for x in chunk[:2]]}, cap=4)


# ---- many targets whose first handshake is complete and whose probe connections all stall, queued behind each other on one or two
# workers: the run lasts many timeouts (virtual minutes), ends through a documented status, and every target has its complete report
def work_queued_stalls(chunk, st):
    from props import multitarget as MT
    for n, threads, fmt in chunk:
        res, _s = MT.run_multi(['PROBESSILENT'] * n, threads, fmt, (), ('connect',))
        root = ('queued-stalls', n, threads, fmt)
        st.execution(res.world, outcome=('queued-stalls', res.status), root=root, nontrivial=root)
        d = {'targets': n, 'threads': threads, 'fmt': fmt, 'status': res.status, 'virtual_seconds': round(res.clock, 1)}
        if res.hang or res.exc or res.status not in (2, 3):
            st.violation('queued-stalling-targets:no-documented-end', dict(d, hang=res.hang, exc=res.exc, tail=(res.stdout + res.stderr)[-300:]))
            continue
        if fmt == 'json':
            try:
                doc = json.loads(res.stdout)
                got = sum(1 for e in doc if isinstance(e, dict) and e.get('enc'))
            except ValueError:
                got = -1
        else:
            got = res.stdout.count('(enc) 3des-cbc')
        if got != n:
            st.violation('queued-stalling-targets:reports-missing', dict(d, complete_reports=got))
    st.sample({'queued_stalls': [list(x) for x in chunk[:2]]}, cap=4)


def run(tier, seed):
    t0 = time.time()
    st = evidence.Stats()
    if tier == 'quick':
        plan_spec = [('A', True, 'full', 1), ('B', True, 'full', 3), ('C', True, 'full', 7), ('D1', True, 'message', 1),
                     ('D2', True, 'message', 1), ('E', True, 'full', 1), ('E1', True, 'full', 1), ('E2', True, 'message', 1), ('F', True, 'message', 1),
                     ('G', True, 'full', 1)]
        second = False
    else:
        plan_spec = [(a, s, 'full', 1) for a in ('A', 'B', 'C', 'D1', 'D2', 'E', 'E1', 'E2', 'F', 'G') for s in (True, False)
                     if not (s is False and a in ('A', 'D1', 'D2', 'E', 'E1', 'E2', 'F', 'G'))]
        second = True
    all_tasks = []
    for arch, short, level, step in plan_spec:
        base, ts = tasks_for(arch, short, level, step)
        account(st, arch, short, [], base)
        probs = F.judge_c09(base, arch, [])
        all_tasks += ts
    # bound 2 only from message-level first faults to keep the space tractable
    if second:
        first = [t for t in all_tasks if _is_message_level(t[2][0][1])]
        rest = [t for t in all_tasks if not _is_message_level(t[2][0][1])]
        par.pmap(work, first, extra=(True,), stats=st, chunk=20)
        par.pmap(work, rest, extra=(False,), stats=st)
    else:
        par.pmap(work, all_tasks, extra=(False,), stats=st)
    paths = [t for t in all_tasks if t[2][0][1][0] not in ('split', 'seg1') and (t[2][0][1][0] not in ('trunc_close', 'trunc_stall') or t[2][0][1][1] == 0)]
    par.pmap(work_paths, paths, stats=st, chunk=20)
    par.pmap(work_degenerate, degenerate_gex_tasks(), stats=st, procs=1)
    check_client_environment(st)
    check_client_timing(st)
    par.pmap(work_banner, banner_content_tasks(), stats=st, chunk=8)
    par.pmap(work_policy_unmeasured, policy_unmeasured_tasks(), stats=st, chunk=6)
    par.pmap(work_pathological, pathological_tasks(tier), stats=st, chunk=30)
    par.pmap(work_rate_phase, rate_phase_tasks(), stats=st, chunk=4)
    muts = mutation_tasks(tier)
    par.pmap(work_mutations, muts, stats=st, chunk=40)
    from props import delivery as _DL
    par.pmap(_DL.work, _DL.tasks(tier), extra=(('complete',),), stats=st, chunk=12)
    # one probe connection goes wrong in one of 19 ways, on every probe connection of four servers: the audit still ends with a report
    from props import faultinv as _FI
    par.pmap(_FI.work, _FI.tasks(), extra=(('unaffected',),), stats=st, chunk=6)
    par.pmap(work_queued_stalls, [(n, th, f) for n, th in ((4, 1), (40, 1), (70, 1), (140, 2)) for f in ('text', 'json')], stats=st, chunk=1)
    par.pmap(work_ssh1_shapes, [(hb, sb, am, f) for hb in range(1024, 1096, 8) for sb in (768, 776) for am in (0x0c, 0, 0x100, 0x2c00) for f in ('text', 'json')], stats=st, chunk=8)
    st.extra['reply_mutations'] = len(muts)
    # replay determinism: the same plan must give the same observation when executed again (and again after other executions)
    for arch, short, plan in H.pick(all_tasks, seed + 7, 60):
        sc = F.scenario(arch, short)
        a = explore.run_plan(sc, plan)
        b = explore.run_plan(sc, plan)
        st.extra['replayed_twice'] += 1
        if (a.status, a.stdout, len(a.world.conns), a.hang) != (b.status, b.stdout, len(b.world.conns), b.hang):
            st.harness_errors.append('non-deterministic replay of %s %s' % (arch, plan))
    bound_done = 2 if second else 1
    # trace validation: cooperative run of every archetype, one trace per fault kind, plus a seed-selected sample
    vcases = []
    by_kind = {}
    for arch, short, plan in all_tasks:
        by_kind.setdefault((arch, plan[0][1][0]), (arch, short, plan))
    pool = list(by_kind.values()) + H.pick(all_tasks, seed, 30 if tier == 'quick' else 200)
    for arch, short, _l, _s in plan_spec:
        pool.append((arch, short, []))
    for arch, short, plan in pool:
        a = F.ARCHETYPES[arch]
        if a['role'] == 'client':
            if plan:
                continue
            vcases.append({'kind': 'client', 'label': 'G', 'opts': ['-n'],
                           'make': lambda: peer.Client(label='G', kex=['curve25519-sha256', 'kex-strict-c-v00@openssh.com'], key=['ssh-ed25519', 'rsa-sha2-512'],
                                                       enc=['aes256-ctr', 'aes128-cbc'], mac=['hmac-sha2-256-etm@openssh.com'])})
        else:
            vcases.append({'label': '%s %s' % (arch, plan), 'opts': ['-n'] + a['opts'], 'make': (lambda a=a, short=short: a['make'](short)),
                           'faults': {tuple(k): tuple(f) for k, f in plan}})
    validated = H.validate_traces(vcases, st)
    return evidence.finish(
        PID, tier, seed, st, t0,
        rule='for each transcript archetype (A minimal, B host-key probes incl. certificates, C group exchange, D1 fixed DH group, '
             'D2 group exchange as probe kex, E/E1 SSH-1, E2 version mismatch on every connection, F SSH-1.99, G client role): cooperative run, then every (connection, message, fault) '
             'of the menu (truncate+close / truncate+stall at byte offsets, reset, garbage, every length field x5 values, wrong type, '
             'debug x1..3, duplicate, extra lines, split at every offset, 1-byte segments, refuse/timeout at connect); '
             'thorough adds all pairs with a second message-level fault on a later connection; the message-level plans again through the -T worker path and with -j; degenerate GEX groups; bind failures of a client audit; '
             '%d identification strings (recognised and other software names x unexpected version strings x SSH-2.0/1.99 x both roles x text/JSON); '
             '%d runs of peer-chosen text (a pattern-starting prefix, 40 or 2000 repetitions of a unit, with and without a completing character) as a line in front of the identification string on every connection, as its software field and as its comment, under a CPU watchdog; '
             '%d audits whose connection-rate check meets every behaviour of the C19 rate family (and patterns with aborts); '
             'non-trivial = at least one deviation' % (len(banner_content_tasks()), len(pathological_tasks(tier)), len(rate_phase_tasks())),
        assumptions=['environment model: mc/vnet.py, mc/peer.py (validated against real loopback TCP by mc/realnet.py when traces_validated>0)',
                     'random exponent pinned to the low end of its range; ValueError on an empty range is preserved'],
        exhaustive=True, traces_validated=validated, extra={'deviation_bound_completed': bound_done,
                                'truncation_offset_step': 'quick: A,E,E1,G every byte; B every 3rd; C every 7th; thorough: every byte'})


def _is_message_level(f):
    if f[0] in ('trunc_close', 'trunc_stall'):
        return f[1] == 0
    return f[0] in ('reset', 'refuse', 'timeout', 'garbage', 'dup') and (f[0] != 'garbage' or f[1] == 7)


def replay(path):
    v = json.load(open(path))
    d = v['detail']
    if 'p' in d:
        st = evidence.Stats()
        work_degenerate([('D2p', d['p'], d['g'])], st)
        for x in st.violations:
            print('replayed:', x['sig'], x['detail']['what'])
        return 1 if st.violations else 0
    sc = F.scenario(d['arch'], d['short'])
    res = explore.run_plan(sc, d['plan'])
    print('status', res.status, 'hang', res.hang)
    print(res.stdout[-800:])
    probs = F.judge_c09(res, d['arch'], d['plan'])
    for s, w in probs:
        print('replayed:', s, w)
    return 1 if probs else 0
