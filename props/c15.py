"""C15 - output options change presentation only, never findings or verdict."""
import itertools
import json
import os
import subprocess
import sys
import time

from mc import evidence, harness as H, par, peer as P, report, runner, wire

PID = 'C15'
LEVELS = {'info': 0, 'warn': 1, 'fail': 2}


def optsets():
    out = []
    for b in ([], ['-b']):
        for v in ([], ['-v']):
            for n in ([], ['-n']):
                for l in ([], ['-l', 'warn'], ['-l', 'fail']):
                    for j in ([], ['-j'], ['-jj']):
                        out.append(tuple(b + v + n + l + j))
    return out


def peers(tier):
    hk = P.standard_host_keys
    ps = {
        'clean': dict(kex=['sntrup761x25519-sha512@openssh.com'], key=['ssh-ed25519'], enc=['aes256-gcm@openssh.com'], mac=['hmac-sha2-256-etm@openssh.com'], banner=b'SSH-2.0-OpenSSH_9.6'),
        'warn-only': dict(kex=['curve25519-sha256'], key=['ssh-ed25519'], enc=['aes256-ctr'], mac=['hmac-sha2-256'], banner=b'SSH-2.0-OpenSSH_9.6'),
        'fail-mixed': dict(kex=['diffie-hellman-group1-sha1', 'curve25519-sha256'], key=['ssh-rsa', 'ssh-ed25519'], enc=['3des-cbc', 'aes256-ctr', 'arcfour'], mac=['hmac-md5', 'hmac-sha2-256-etm@openssh.com'], banner=b'SSH-2.0-OpenSSH_7.4', rsa_bits=1024),
        'terrapin': dict(kex=['curve25519-sha256'], key=['ssh-ed25519'], enc=['chacha20-poly1305@openssh.com', 'aes128-cbc'], mac=['hmac-sha1-etm@openssh.com'], banner=b'SSH-2.0-OpenSSH_8.9p1'),
        'unknown': dict(kex=['curve25519-sha256', 'frob-kex@example.org'], key=['ssh-ed25519', 'frob-key@example.org'], enc=['aes256-ctr', 'frob-enc@example.org'], mac=['frob-mac@example.org'], banner=b'SSH-2.0-FrobSSH_1'),
        'gss': dict(kex=['gss-gex-sha1-dZuIebMjgUqaxvbF7hDbAw==', 'gss-group14-sha256-a+b/c0==', 'curve25519-sha256'], key=['ssh-ed25519'], enc=['aes256-ctr'], mac=['hmac-sha2-512'], banner=b'SSH-2.0-OpenSSH_9.6'),
        'rsa2048': dict(kex=['curve25519-sha256'], key=['rsa-sha2-512', 'rsa-sha2-256'], enc=['aes256-ctr'], mac=['hmac-sha2-256'], banner=b'SSH-2.0-OpenSSH_9.6', rsa_bits=2048),
        'gex1024': dict(kex=['diffie-hellman-group-exchange-sha256', 'diffie-hellman-group-exchange-sha1'], key=['ssh-ed25519'], enc=['aes256-ctr'], mac=['hmac-sha2-256'], banner=b'SSH-2.0-dropbear_2020.81', gex=[1024]),
        'gex-openssh': dict(kex=['curve25519-sha256', 'diffie-hellman-group-exchange-sha256'], key=['ssh-ed25519'], enc=['aes256-ctr'], mac=['hmac-sha2-256'], banner=b'SSH-2.0-OpenSSH_8.9p1', gex=[3072], gex_style=P.OPENSSH),
        'ssh1': dict(ssh1={'cmask': 0x4c, 'amask': 0x2c}, banner=b'SSH-1.5-OpenSSH_3.4', versions_differ=True),
        'header': dict(kex=['curve25519-sha256'], key=['ssh-ed25519'], enc=['aes256-ctr'], mac=['hmac-sha2-256'], banner=b'SSH-2.0-OpenSSH_9.6 comment', pre_banner=[b'Welcome', b'to this host']),
        'cert': dict(kex=['curve25519-sha256'], key=['ssh-rsa-cert-v01@openssh.com', 'ssh-ed25519'], enc=['aes256-ctr'], mac=['hmac-sha2-256'], banner=b'SSH-2.0-OpenSSH_9.6', rsa_bits=2048, ca='rsa', ca_bits=1024),
        'cert-sha2-warn': dict(kex=['curve25519-sha256'], key=['rsa-sha2-512-cert-v01@openssh.com', 'rsa-sha2-256-cert-v01@openssh.com'], enc=['aes256-ctr'], mac=['hmac-sha2-256'],
                               banner=b'SSH-2.0-OpenSSH_8.0', rsa_bits=2048, ca='rsa', ca_bits=4096),
        'cert-sha2-ca-warn': dict(kex=['curve25519-sha256'], key=['rsa-sha2-256-cert-v01@openssh.com', 'ssh-ed25519-cert-v01@openssh.com'], enc=['aes256-ctr'], mac=['hmac-sha2-256'],
                                  banner=b'SSH-2.0-OpenSSH_9.6', rsa_bits=4096, ca='rsa', ca_bits=2048),
        'compress': dict(kex=['curve25519-sha256'], key=['ssh-ed25519'], enc=['aes256-ctr'], mac=['hmac-sha2-256'], banner=b'SSH-2.0-OpenSSH_9.6', comp=['none', 'zlib@openssh.com']),
        # several of everything a report line can enumerate (compression methods, header lines, names per list, repeated names): whatever is
        # listed is listed in the peer's order under every hash seed
        'many-of-everything': dict(kex=['curve25519-sha256', 'ecdh-sha2-nistp256', 'diffie-hellman-group14-sha1', 'frob-kex@example.org', 'ecdh-sha2-nistp256'],
                                   key=['rsa-sha2-512', 'ssh-ed25519', 'rsa-sha2-256', 'ssh-rsa', 'frob-key@example.org'], enc=['aes256-ctr', 'chacha20-poly1305@openssh.com', 'aes128-cbc', '3des-cbc', 'frob-enc@example.org'],
                                   mac=['hmac-sha2-256-etm@openssh.com', 'hmac-sha1', 'umac-64@openssh.com', 'hmac-md5', 'frob-mac@example.org'], banner=b'SSH-2.0-OpenSSH_8.0 one two three',
                                   comp=['zlib@openssh.com', 'zlib', 'none', 'zstd@example.org', 'lz4@example.org'], pre_banner=[b'zeta', b'alpha', b'mu'], rsa_bits=2048),
        'strict-kex-multi': dict(kex=['curve25519-sha256', 'kex-strict-s-v00@openssh.com'], key=['ssh-ed25519'],
                                 enc=['chacha20-poly1305@openssh.com', 'aes128-cbc', 'aes192-cbc', 'aes256-cbc', '3des-cbc', 'aes256-ctr'],
                                 mac=['hmac-sha2-256-etm@openssh.com', 'hmac-sha2-512-etm@openssh.com', 'umac-128-etm@openssh.com', 'hmac-sha1-etm@openssh.com'], banner=b'SSH-2.0-OpenSSH_9.6'),
        'client-role': dict(client_role=True, kex=['curve25519-sha256', 'diffie-hellman-group14-sha1', 'kex-strict-c-v00@openssh.com'], key=['ssh-ed25519', 'ssh-rsa'],
                            enc=['chacha20-poly1305@openssh.com', 'aes128-cbc', 'aes256-ctr'], mac=['hmac-sha1-etm@openssh.com', 'hmac-sha2-256'], banner=b'SSH-2.0-PuTTY_Release_0.76'),
        # the two directions of a KEXINIT may differ; every renderer rates the same (server-to-client) half
        'asym': dict(kex=['curve25519-sha256'], key=['ssh-ed25519'], enc=['aes256-ctr', 'arcfour', '3des-cbc'], mac=['hmac-sha2-256', 'hmac-md5', 'hmac-sha1'],
                     enc_c2s=['aes256-gcm@openssh.com', 'aes128-ctr'], mac_c2s=['hmac-sha2-512', 'umac-128@openssh.com'], banner=b'SSH-2.0-OpenSSH_9.6'),
        'asym-clean-s2c': dict(kex=['sntrup761x25519-sha512@openssh.com'], key=['ssh-ed25519'], enc=['aes256-gcm@openssh.com'], mac=['hmac-sha2-256-etm@openssh.com'],
                               enc_c2s=['arcfour', 'aes256-gcm@openssh.com'], mac_c2s=['hmac-md5'], banner=b'SSH-2.0-OpenSSH_9.6'),
        # a fault confined to one probe connection (the reply to the first RSA probe has the wrong message type): the later probes
        # of the family still measure the key, whatever the verbosity
        'probe-fault-rsa1024': dict(kex=['curve25519-sha256'], key=['ssh-rsa', 'rsa-sha2-256', 'rsa-sha2-512'], enc=['aes256-ctr'], mac=['hmac-sha2-256'], banner=b'SSH-2.0-OpenSSH_8.0',
                                    rsa_bits=1024, label='pf', faults={('pf', 1, 2): ('type', 1)}),
        'probe-fault-rsa2048': dict(kex=['curve25519-sha256'], key=['rsa-sha2-512', 'rsa-sha2-256', 'ssh-ed25519'], enc=['aes256-ctr'], mac=['hmac-sha2-256'], banner=b'SSH-2.0-OpenSSH_8.0',
                                    rsa_bits=2048, label='pf', faults={('pf', 1, 2): ('len', 2, 'huge31')}),
        # a name listed twice next to relatives that share its follow-up notes (same family: same warnings, same 'available since' line)
        'repeat-family-enc': dict(kex=['curve25519-sha256'], key=['ssh-ed25519'], enc=['aes128-cbc', 'aes192-cbc', 'aes256-cbc', 'aes128-cbc', '3des-cbc'], mac=['hmac-sha2-256-etm@openssh.com', 'hmac-sha2-256'], banner=b'SSH-2.0-OpenSSH_8.9p1'),
        'repeat-family-mac-kex': dict(kex=['ecdh-sha2-nistp256', 'ecdh-sha2-nistp384', 'ecdh-sha2-nistp521', 'ecdh-sha2-nistp384'], key=['ssh-ed25519', 'ssh-ed25519'], enc=['aes256-ctr'],
                                      mac=['hmac-sha2-256-etm@openssh.com', 'hmac-sha2-512-etm@openssh.com', 'hmac-sha2-256-etm@openssh.com', 'hmac-sha1', 'hmac-sha1-96'], banner=b'SSH-2.0-OpenSSH_8.9p1'),
        # one group-exchange probe connection is accepted and closed without an identification string (a busy server): whatever the verbosity
        'probe-closed-gex': dict(kex=['curve25519-sha256', 'diffie-hellman-group-exchange-sha256'], key=['ssh-ed25519'], enc=['aes256-ctr'], mac=['hmac-sha2-256'], banner=b'SSH-2.0-OpenSSH_8.9p1',
                                 gex=[2048, 4096], label='pf', faults={('pf', 3, 0): ('trunc_close', 0)}),
        'probe-closed-hostkey': dict(kex=['curve25519-sha256'], key=['rsa-sha2-512', 'ssh-ed25519'], enc=['aes256-ctr'], mac=['hmac-sha2-256'], banner=b'SSH-2.0-OpenSSH_8.9p1',
                                     rsa_bits=2048, label='pf', faults={('pf', 2, 0): ('trunc_close', 0)}),
        # empty entries in the name-lists (a doubled, a leading, a trailing comma): the names around them are reported the same way everywhere
        'empty-entries': dict(kex=['', 'curve25519-sha256', 'diffie-hellman-group1-sha1'], key=['ssh-ed25519', '', 'ssh-rsa'], enc=['aes256-gcm@openssh.com', '', '3des-cbc', 'aes128-ctr'],
                              mac=['', 'hmac-sha1', '', 'hmac-md5', 'hmac-sha2-256', ''], banner=b'SSH-2.0-OpenSSH_8.0', rsa_bits=2048),
        'empty-entry-before-only-failure': dict(kex=['curve25519-sha256'], key=['ssh-ed25519'], enc=['aes256-ctr', '', '3des-cbc'], mac=['hmac-sha2-256-etm@openssh.com'], banner=b'SSH-2.0-OpenSSH_9.6'),
        'nonascii-banner': dict(kex=['curve25519-sha256'], key=['ssh-ed25519'], enc=['aes256-ctr'], mac=['hmac-sha2-256'], banner=b'SSH-2.0-Frob\x80SSH'),
        # lines of peer-chosen length: one name of 1100 / 5000 characters per list next to rated names (the text renderings pad every name of
        # a list to its longest), a long comment, long lines in front of the identification string
        'long-names': dict(kex=['curve25519-sha256', 'k' * 1100 + '@example.org', 'diffie-hellman-group1-sha1'], key=['ssh-ed25519', 'h' * 1100 + '@example.org', 'ssh-rsa'],
                           enc=['aes256-ctr', 'e' * 1100 + '@example.org', '3des-cbc'], mac=['hmac-sha2-256', 'm' * 1100 + '@example.org', 'hmac-md5'], banner=b'SSH-2.0-OpenSSH_8.0', rsa_bits=2048),
        'very-long-name': dict(kex=['curve25519-sha256'], key=['ssh-ed25519'], enc=['3des-cbc', 'aes256-ctr', 'e' * 5000 + '@example.org', 'arcfour'], mac=['hmac-sha2-256', 'hmac-sha1'], banner=b'SSH-2.0-OpenSSH_8.0'),
        'long-lines': dict(kex=['curve25519-sha256', 'diffie-hellman-group1-sha1'], key=['ssh-ed25519'], enc=['aes256-ctr', '3des-cbc'], mac=['hmac-sha2-256'],
                           banner=b'SSH-2.0-OpenSSH_8.0 ' + b'c' * 1500, pre_banner=[b'w' * 1200, b'x' * 3000]),
    }
    # a peer whose answers depend on how many connections it has seen (MaxStartups, a rate limiter, one slow accept): connection k of
    # the audit is refused / closed without a word / never established.  The sequence of connections an audit makes is the same under
    # every output option, so the same probe is lost and the findings stay the same
    nth = []
    for k in range(1, 10):
        for fname, at, fault in (('closed', 0, ('trunc_close', 0)), ('refused', -1, ('refuse',)), ('unanswered', -1, ('timeout',))):
            if tier == 'quick' and fname == 'unanswered' and k % 2:
                continue
            ps['conn-%d-%s' % (k, fname)] = dict(kex=['curve25519-sha256', 'diffie-hellman-group-exchange-sha256'], key=['rsa-sha2-512', 'ssh-ed25519', 'ecdsa-sha2-nistp256', 'ssh-dss'],
                                                 enc=['aes256-ctr'], mac=['hmac-sha2-256'], banner=b'SSH-2.0-OpenSSH_7.4', rsa_bits=2048, gex=[1024, 2048], label='pf', faults={('pf', k, at): fault})
            nth.append('conn-%d-%s' % (k, fname))
    if tier == 'quick':
        keep = nth + ['many-of-everything', 'long-names', 'very-long-name', 'long-lines', 'empty-entries', 'empty-entry-before-only-failure', 'clean', 'warn-only', 'fail-mixed', 'terrapin', 'unknown', 'gss', 'rsa2048', 'gex1024', 'ssh1', 'header', 'cert', 'nonascii-banner', 'strict-kex-multi', 'client-role', 'asym', 'asym-clean-s2c', 'probe-fault-rsa1024', 'probe-fault-rsa2048', 'cert-sha2-warn', 'cert-sha2-ca-warn', 'repeat-family-enc', 'repeat-family-mac-kex', 'probe-closed-gex', 'probe-closed-hostkey']
        ps = {k: ps[k] for k in keep}
    else:
        # every severity mix of the database per category as extra peers
        db = H.master_db()
        for i in range(0, 24):
            sel = {}
            for cat in ('kex', 'key', 'enc', 'mac'):
                names = [n for n in db[cat] if not n.endswith('-*') and 'group-exchange' not in n]
                sel[cat] = names[i::24][:4]
            ps['db-slice-%d' % i] = dict(kex=sel['kex'], key=sel['key'], enc=sel['enc'], mac=sel['mac'], banner=b'SSH-2.0-OpenSSH_8.0')
    return ps


def make_server(spec):
    spec = dict(spec)
    rsa_bits = spec.pop('rsa_bits', 3072)
    ca = spec.pop('ca', 'ed25519')
    ca_bits = spec.pop('ca_bits', 3072)
    gex = spec.pop('gex', None)
    style = spec.pop('gex_style', P.STRICT)
    if 'key' in spec:
        spec['host_keys'] = P.standard_host_keys(spec['key'], rsa_bits=rsa_bits, ca=ca, ca_bits=ca_bits)
    if gex:
        spec['gex'] = P.GexPolicy(gex, style)
    return P.Server(**spec)


ZOO_OPTSETS = [(), ('-n',), ('-b',), ('-v', '-n'), ('-n', '-j'), ('-n', '-l', 'warn'), ('-jj', '-v'), ('-b', '-n', '-l', 'fail')]


def run_opts(spec, opts, env=None):
    if 'zoo' in spec:
        from props import zoo
        e = zoo.get(spec['zoo'])
        return zoo.audit(e, list(opts) + (['-1'] if e['ssh1'] and not e['versions_differ'] else []))
    if spec.get('client_role'):
        sp = {k: v for k, v in spec.items() if k != 'client_role'}
        return H.client_audit(P.Client(**sp), opts=list(opts))
    srv = make_server({k: v for k, v in spec.items() if k != 'faults'})
    if env:
        w = H.world_for(srv, faults=spec.get('faults'))
        from mc import runner
        return runner.run_cli(list(opts) + ['--skip-rate-test', H.HOST], w, env=env)
    return H.audit(srv, opts=list(opts) + ['--skip-rate-test'], faults=spec.get('faults'))


def text_findings(res, verbose):
    rep = report.TextReport(res.stdout)
    if verbose:
        rep.merge_verbose()
    return sorted(set((c, n, lv, t) for c, n, lv, t in rep.findings() if t != ''))


def min_level(opts):
    return opts[opts.index('-l') + 1] if '-l' in opts else 'info'


def line_level(line):
    """severity of an output line, read from its colour"""
    c = report.line_color_level(line)
    return {'fail': 2, 'warn': 1, 'good': 0, 'info': 0, 'head': 0}.get(c, 0)


EQUIVALENT = [((), {'NO_COLOR': '1'}, ('-n',), None), (('-b',), {'NO_COLOR': ''}, ('-b', '-n'), None), (('-v', '-b', '-n'), None, ('-n', '-b', '-v'), None), (('-n', '-n', '-b', '-b'), None, ('-n', '-b'), None),
              (('-n', '-l', 'warn', '-l', 'fail'), None, ('-n', '-l', 'fail'), None), (('-l', 'fail', '-n', '-v'), None, ('-v', '-n', '-l', 'fail'), None), (('-j', '-n'), None, ('-n', '-j'), None),
              (('-jj', '-v', '-b'), None, ('-b', '-v', '-jj'), None), (('-n', '-j', '-jj'), None, ('-n', '-jj'), None), (('--no-colors', '--batch', '--verbose'), None, ('-n', '-b', '-v'), None),
              (('--json', '-n'), None, ('-j', '-n'), None), (('--level=warn', '-n'), None, ('-l', 'warn', '-n'), None)]


def check_equivalent_spellings(pname, spec, st):
    """the same options in another order, given twice, in their long spelling, or (for colours) through the NO_COLOR variable: same bytes"""
    if 'zoo' in spec or spec.get('client_role'):
        return
    for o1, e1, o2, e2 in EQUIVALENT:
        a, b = run_opts(spec, o1, env=e1), run_opts(spec, o2, env=e2)
        st.execution(a.world, outcome=(pname, 'spelling', a.status), root=(pname, 'spelling', o1, str(e1)), nontrivial=(pname, 'spelling', o1, str(e1)))
        if a.stdout != b.stdout or a.status != b.status:
            st.violation('equivalent-option-spellings-differ:%s' % (' '.join(o1) + (' env:' + ','.join(sorted(e1)) if e1 else '')), {'peer': pname, 'a': list(o1), 'env_a': e1, 'b': list(o2), 'status': [a.status, b.status]})


def check_peer(task, st, osets=None):
    pname, spec = task
    if osets is None:
        check_equivalent_spellings(pname, spec, st)
    ref = run_opts(spec, ['-n'])
    ref_findings = text_findings(ref, False)
    st.execution(ref.world, outcome=(pname, ref.status), root=(pname, 'ref'))
    colour_ref = {}
    for opts in (osets or optsets()):
        r1 = run_opts(spec, opts)
        r2 = run_opts(spec, opts)
        st.execution(r1.world, outcome=(pname, r1.status, opts), root=(pname, opts), nontrivial=(pname, opts))
        st.execution(r2.world, outcome=(pname, r2.status, opts), root=(pname, opts, 'again'))
        d = {'peer': pname, 'opts': list(opts)}
        tag = ' '.join(opts) or '(none)'
        if r1.stdout != r2.stdout or r1.status != r2.status:
            st.violation('repeated-audit-differs', dict(d))
        if r1.status != ref.status:
            st.violation('exit-status-changes:%s' % tag, dict(d, status=r1.status, reference=ref.status))
        is_json = '-j' in opts or '-jj' in opts
        lvl = min_level(opts)
        if is_json:
            try:
                doc = json.loads(r1.stdout)
            except ValueError as e:
                st.violation('json-not-one-document:%s' % (' '.join(o for o in opts if o in ('-j', '-jj', '-l', 'warn', 'fail'))), dict(d, error=str(e), stdout=r1.stdout[:200]))
                continue
            # compact and indented forms parse to the same value
            other = tuple('-jj' if o == '-j' else '-j' if o == '-jj' else o for o in opts)
            ro = run_opts(spec, other)
            try:
                if json.loads(ro.stdout) != doc:
                    st.violation('compact-and-indented-json-differ', dict(d))
            except ValueError:
                pass
            # findings for database-known names agree with the text report
            if 'ssh1' not in spec:
                jf = set(report.json_findings(doc))
                known_ref = set(f for f in ref_findings if f[1] in H.master_db().get(f[0], {}) or f[1].startswith('gss-'))
                known_j = set(f for f in jf if f[1] in H.master_db().get(f[0], {}) or f[1].startswith('gss-'))
                if known_ref != known_j:
                    diff = sorted(known_ref ^ known_j)[:6]
                    st.violation('json-findings-differ-from-text', dict(d, differing=diff))
            continue
        verbose = '-v' in opts
        f = text_findings(r1, verbose)
        want = [x for x in ref_findings if LEVELS[x[2]] >= LEVELS[lvl]]
        # with a raised minimum level, the first (name-bearing) line of an algorithm may be filtered: compare note sets only
        got = sorted(set((c, lv, t) for c, n, lv, t in f))
        wantn = sorted(set((c, lv, t) for c, n, lv, t in want))
        if lvl == 'info':
            if f != ref_findings:
                st.violation('findings-differ:%s' % tag, dict(d, differing=sorted(set(f) ^ set(ref_findings))[:6]))
        elif got != wantn:
            st.violation('findings-differ:%s' % tag, dict(d, differing=sorted(set(got) ^ set(wantn))[:6]))
        # raising the level only removes lines: output at level L is a subsequence of the level-info output (same other options)
        if lvl != 'info':
            base_opts = tuple(o for o in opts if o not in ('-l', 'warn', 'fail'))
            rb = run_opts(spec, base_opts)
            bl, ol = rb.stdout.split('\n'), r1.stdout.split('\n')
            it = iter(bl)
            missing = [x for x in ol if x.strip() and not any(x == y for y in it)]
            if missing:
                st.violation('raised-level-adds-or-alters-lines:%s' % tag, dict(d, lines=missing[:4]))
            if '-n' not in opts:
                # with colours each line's level is visible: nothing below L survives, nothing at or above L disappears
                kept = set(ol)
                for x, colour in report.lines_with_levels(rb.stdout):
                    if not x.strip():
                        continue
                    ll = {'fail': 2, 'warn': 1}.get(colour, 0)
                    always = report.strip_ansi(x).startswith(('(gen) target', '(gen) client IP'))
                    if ll >= LEVELS[lvl] and x not in kept and colour != 'head':
                        st.violation('raised-level-drops-line-at-or-above-level:%s' % tag, dict(d, line=x[:200]))
                        break
                    if ll < LEVELS[lvl] and x in kept and not always and colour not in ('head',) and report.strip_ansi(x).strip() != '':
                        if report.strip_ansi(x).startswith('#'):
                            continue
                        st.violation('raised-level-keeps-line-below-level:%s' % tag, dict(d, line=x[:200]))
                        break
    st.sample({'peer': pname, 'option_sets': len(osets or optsets())}, cap=6)


def work(chunk, st):
    for task in chunk:
        check_peer(task, st)


def work_multi_json(chunk, st):
    """the JSON document of a multi-target run stays one well-formed array whatever the individual targets do"""
    from props import multitarget as MT
    for bad, opt, order in chunk:
        archs = [bad, 'CLEAN'] if order == 0 else ['CLEAN', bad]
        res, _s = MT.run_multi(archs, 1, 'text', (), ('connect',), None, extra=[opt])
        st.execution(res.world, outcome=('multi-json', res.status, opt), root=('multi-json', bad, opt, order), nontrivial=('multi-json', bad, opt, order))
        d = {'targets': archs, 'option': opt, 'status': res.status, 'stdout_head': res.stdout[:300]}
        try:
            doc = json.loads(res.stdout)
        except ValueError as e:
            st.violation('multi-target-json-not-one-document:%s' % opt, dict(d, error=str(e)))
            continue
        if not isinstance(doc, list) or len(doc) != 2:
            st.violation('multi-target-json-shape:%s' % opt, dict(d, got=type(doc).__name__))
    # the same target listed more than once, in several spellings
    from mc import runner
    for lines in (['host0.example', 'host0.example'], ['host0.example', 'host1.example', 'host0.example:22'], ['host1.example', ' host1.example ']):
        for opt in ('-j', '-jj'):
            w = MT.build_world(['CLEAN', 'TERR'])
            res = runner.run_cli(['-n', '--skip-rate-test', opt, '-T', MT.targets_file(lines), '--threads', '2'], w)
            st.execution(res.world, outcome=('multi-json-dup', res.status, opt), root=('multi-json-dup', tuple(lines), opt), nontrivial=('multi-json-dup', tuple(lines), opt))
            try:
                doc = json.loads(res.stdout)
                if not isinstance(doc, list):
                    st.violation('multi-target-json-shape:%s' % opt, {'lines': lines, 'stdout_head': res.stdout[:200]})
            except ValueError as e:
                st.violation('multi-target-json-not-one-document:%s' % opt, {'lines': lines, 'error': str(e), 'stdout_tail': res.stdout[-200:]})
    st.sample({'multi_target_json': [list(c) for c in chunk[:2]]}, cap=3)


def work_multi_optsets(chunk, st):
    """every JSON option set through the multi-target path: one well-formed array whose entries are those of the plain -j run"""
    from props import multitarget as MT
    from mc import runner
    lines = ['host0.example', 'host1.example']
    ref = None
    for opts in chunk:
        if ref is None:
            r0 = runner.run_cli(['--skip-rate-test', '-j', '-T', MT.targets_file(lines), '--threads', '1'], MT.build_world(['CLEAN', 'TERR']))
            ref = json.loads(r0.stdout)
        for threads in ('1', '2'):
            res = runner.run_cli(['--skip-rate-test', '-T', MT.targets_file(lines), '--threads', threads] + list(opts), MT.build_world(['CLEAN', 'TERR']))
            root = ('multi-optset', opts, threads)
            st.execution(res.world, outcome=('multi-optset', res.status, opts), root=root, nontrivial=root)
            tag = ' '.join(opts)
            try:
                doc = json.loads(res.stdout)
            except ValueError as e:
                st.violation('multi-target-json-not-one-document:%s' % tag, {'opts': list(opts), 'threads': threads, 'error': str(e), 'stdout_head': res.stdout[:200]})
                continue
            key = lambda d: d.get('target', '') if isinstance(d, dict) else ''
            if not isinstance(doc, list) or sorted(doc, key=key) != sorted(ref, key=key):
                st.violation('multi-target-json-differs-from-plain-j:%s' % tag, {'opts': list(opts), 'threads': threads, 'stdout_head': res.stdout[:200]})
            if res.status != r0.status:
                st.violation('multi-target-status-depends-on-options:%s' % tag, {'opts': list(opts), 'status': res.status, 'plain': r0.status})
    st.sample({'multi_target_optsets': [list(o) for o in chunk[:2]]}, cap=3)


# ---- policy audits (-P): the verdict and the exit status do not depend on the presentation options either
POLICY_TEXT = 'name = "c15"\nversion = 1\nciphers = aes256-ctr\nmacs = hmac-sha2-256\nkey exchanges = curve25519-sha256\nhost keys = ssh-ed25519\n'


def work_policy_opts(chunk, st):
    import os
    path = H.tmp_path('c15-policy-%d.txt' % os.getpid())
    with open(path, 'w') as f:
        f.write(POLICY_TEXT)
    for conforming, opts in chunk:
        enc = ['aes256-ctr'] if conforming else ['aes256-ctr', 'aes128-cbc']

        def run(o):
            srv = P.Server(kex=['curve25519-sha256'], key=['ssh-ed25519'], enc=enc, mac=['hmac-sha2-256'], banner=b'SSH-2.0-OpenSSH_9.6')
            return H.audit(srv, opts=list(o) + ['--skip-rate-test', '-P', path])
        ref, res = run(('-n',)), run(opts)
        root = ('policy-opts', conforming, opts)
        st.execution(res.world, outcome=('policy-opts', res.status, conforming), root=root, nontrivial=root)
        d = {'peer_conforms': conforming, 'opts': list(opts), 'status': res.status, 'reference_status': ref.status}
        tag = ' '.join(opts) or '(none)'
        if res.hang or res.exc or res.status != ref.status or ref.status != (0 if conforming else 3):
            st.violation('policy-audit:exit-status-changes:%s' % tag, dict(d, exc=res.exc, tail=res.stdout[-200:]))
            continue
        if '-j' in opts or '-jj' in opts:
            try:
                doc = json.loads(res.stdout)
                if doc.get('passed') is not conforming or bool(doc.get('errors')) is conforming:
                    st.violation('policy-audit:verdict-changes:%s' % tag, dict(d, passed=doc.get('passed')))
            except ValueError:
                st.violation('policy-audit:json-not-one-document:%s' % tag, dict(d, stdout=res.stdout[:200]))
        elif min_level(opts) == 'info':
            pt = report.PolicyText(res.stdout)
            if (pt.result == 'passed') is not conforming:
                st.violation('policy-audit:verdict-changes:%s' % tag, dict(d, result=pt.result))
    st.sample({'policy_optsets': [list(chunk[0][1])]}, cap=2)


def work_zoo(chunk, st):
    from props import zoo
    for name in chunk:
        e = zoo.get(name)
        spec = {'zoo': name}
        if e['ssh1']:
            spec['ssh1'] = True
        check_peer(('zoo:' + name, spec), st, ZOO_OPTSETS)


SUB = r'''
import sys, json
sys.path.insert(0, %r)
from mc import harness as H
from props import c15
spec = c15.peers('thorough')[%r]
r = c15.run_opts(spec, %r)
sys.stdout.write(json.dumps({'status': r.status, 'stdout': r.stdout}))
'''


def hashseed_runs(tier, st):
    """Fresh interpreters with different hash seeds must give byte-identical output (also validates the in-process state reset)."""
    n = 0
    root = os.path.dirname(os.path.dirname(os.path.abspath(__file__)))
    names = ['fail-mixed', 'terrapin', 'unknown', 'rsa2048', 'gss', 'strict-kex-multi', 'gex1024', 'cert', 'clean'] if tier != 'quick' else ['fail-mixed', 'unknown', 'strict-kex-multi']
    names = names + ['many-of-everything']
    for pname in names:
        for opts in (['-n'], ['-j']):
            outs = {}
            for seed in ('0', '1', '2', '3', 'random'):
                env = dict(os.environ, PYTHONHASHSEED=seed)
                p = subprocess.run(['/venv/bin/python', '-c', SUB % (root, pname, opts)], env=env, capture_output=True, text=True, timeout=120)
                n += 1
                if p.returncode != 0:
                    st.harness_errors.append('hash-seed subprocess failed: %s' % p.stderr[-300:])
                    continue
                outs[seed] = p.stdout
                st.execution(None, outcome=('hashseed', pname), root=('hashseed', pname, tuple(opts), seed), nontrivial=('hashseed', pname, tuple(opts), seed))
            if len(set(outs.values())) > 1:
                st.violation('output-depends-on-hash-seed', {'peer': pname, 'opts': opts})
            inproc = run_opts(peers('thorough')[pname], opts)
            if outs and json.loads(list(outs.values())[0]) != {'status': inproc.status, 'stdout': inproc.stdout}:
                st.harness_errors.append('in-process run differs from a fresh-interpreter run for %s %s' % (pname, opts))
    return n


def run(tier, seed):
    t0 = time.time()
    ps = peers(tier)
    st = par.pmap(work, list(ps.items()), chunk=1)
    hashseed_runs(tier, st)
    from props import zoo, multitarget as MT
    par.pmap(work_zoo, zoo.names(tier), stats=st, chunk=4)
    par.pmap(work_multi_json, [(b, o, k) for b in sorted(MT.FAILING) for o in ('-j', '-jj') for k in (0, 1)], stats=st, chunk=4)
    par.pmap(work_policy_opts, [(c, o) for c in (True, False) for o in optsets()], stats=st, chunk=6)
    par.pmap(work_multi_optsets, [o for o in optsets() if '-j' in o or '-jj' in o], stats=st, chunk=3)
    vcases = []
    osets = optsets()
    for pname, spec in ps.items():
        if spec.get('client_role'):
            continue
        for opts in H.pick(osets, seed + len(vcases), 2 if tier == 'quick' else 6):
            vcases.append({'label': '%s %s' % (pname, opts), 'opts': list(opts), 'make': (lambda spec=spec: make_server({k: v for k, v in spec.items() if k != 'faults'})),
                           'faults': dict(spec.get('faults') or {})})
    validated = H.validate_traces(vcases, st)
    return evidence.finish(
        PID, tier, seed, st, t0,
        rule='%d peers covering every severity mix (clean, warn-only, failures, Terrapin, unknown, gss, small RSA, small/OpenSSH GEX, SSH-1, header, '
             'certificate, compression, non-ASCII banner%s) x all %d combinations of -b, -v, -n, -l {info,warn,fail}, {text,-j,-jj}, each run twice; '
             'fresh interpreters under PYTHONHASHSEED 0/1/2/random for selected peers; the peers of props/zoo.py x %d option sets; -T with every failing archetype next to a healthy target under -j and -jj (one well-formed array); -T with two healthy targets under every option set containing -j/-jj, 1 and 2 threads (entries equal those of plain -j); a conforming and a violating peer under -P with every option set (same status, same verdict)' % (len(ps), ', 24 database slices' if tier != 'quick' else '', len(optsets()), len(ZOO_OPTSETS)),
        assumptions=['with colours on, a line\'s level is read from its colour', 'JSON compared with text for names the database knows'],
        exhaustive=True, traces_validated=validated)


def replay(path):
    v = json.load(open(path))
    d = v['detail']
    st = evidence.Stats()
    check_peer((d['peer'], peers('thorough')[d['peer']]), st)
    for x in st.violations:
        if x['sig'] == v['sig']:
            print('replayed:', x['sig'], json.dumps(x['detail'])[:500])
            return 1
    return 0
